(* Proofs about Model/Evaluators.v: pointwise specifications of every loop of the two evaluators
   on the heap, the per-batch lemma (a batch started with empty work lists touches nothing below
   the heap's allocation mark, leaves the work lists empty and leaves its own designs finished),
   and the theorems over arbitrary sequences of batches. *)
From Coq Require Import List Arith Bool Lia.
From Artap Require Import Model.Evaluators.
Import ListNotations.
Local Open Scope nat_scope.

(* ---- generic list facts ---- *)
Lemma map_seq_nth {A : Type} (g : nat -> A) (l : list A) (lo : nat) (d : A) :
  (forall k, k < length l -> g (lo + k) = nth k l d) -> map g (seq lo (length l)) = l.
Proof.
  revert lo. induction l as [|x l IH]; intros lo Hg; [reflexivity|].
  cbn [length seq map]. f_equal.
  - specialize (Hg 0). rewrite Nat.add_0_r in Hg. apply Hg. cbn. lia.
  - apply IH. intros k Hk. specialize (Hg (S k)). cbn in Hg. rewrite <- Nat.add_succ_comm in Hg.
    apply Hg. lia.
Qed.

Lemma map_seq_nth_gen {A B : Type} (g : nat -> B) (q : A -> B) (l : list A) (lo : nat) (d : A) :
  (forall k, k < length l -> g (lo + k) = q (nth k l d)) -> map g (seq lo (length l)) = map q l.
Proof.
  intros Hg. rewrite <- (map_length q l). apply (map_seq_nth g (map q l) lo (q d)).
  intros k Hk. rewrite map_length in Hk. rewrite Hg by exact Hk. symmetry. apply map_nth.
Qed.

Lemma filter_all {A : Type} (p : A -> bool) (l : list A) :
  (forall x, In x l -> p x = true) -> filter p l = l.
Proof.
  induction l as [|x l IH]; intros Hp; [reflexivity|]. cbn.
  rewrite (Hp x (or_introl eq_refl)). f_equal. apply IH. intros y Hy. apply Hp. right. exact Hy.
Qed.

Lemma filter_none {A : Type} (p : A -> bool) (l : list A) :
  (forall x, In x l -> p x = false) -> filter p l = [].
Proof.
  induction l as [|x l IH]; intros Hp; [reflexivity|]. cbn.
  rewrite (Hp x (or_introl eq_refl)). apply IH. intros y Hy. apply Hp. right. exact Hy.
Qed.

Lemma filter_flat_map {A B : Type} (p : B -> bool) (g : A -> list B) (l : list A) :
  filter p (flat_map g l) = flat_map (fun x => filter p (g x)) l.
Proof. induction l as [|x l IH]; [reflexivity|]. cbn. rewrite filter_app, IH. reflexivity. Qed.

Lemma map_flat_map {A B C : Type} (q : B -> C) (g : A -> list B) (l : list A) :
  map q (flat_map g l) = flat_map (fun x => map q (g x)) l.
Proof. induction l as [|x l IH]; [reflexivity|]. cbn. rewrite map_app, IH. reflexivity. Qed.

Lemma flat_map_map {A B C : Type} (q : A -> B) (g : B -> list C) (l : list A) :
  flat_map g (map q l) = flat_map (fun x => g (q x)) l.
Proof. induction l as [|x l IH]; [reflexivity|]. cbn. rewrite IH. reflexivity. Qed.

Lemma flat_map_ext_in {A B : Type} (g1 g2 : A -> list B) (l : list A) :
  (forall x, In x l -> g1 x = g2 x) -> flat_map g1 l = flat_map g2 l.
Proof.
  induction l as [|x l IH]; intros Hg; [reflexivity|]. cbn.
  rewrite (Hg x (or_introl eq_refl)). f_equal. apply IH. intros y Hy. apply Hg. right. exact Hy.
Qed.

Lemma NoDup_app_intro {A : Type} (l1 l2 : list A) :
  NoDup l1 -> NoDup l2 -> (forall x, In x l1 -> ~ In x l2) -> NoDup (l1 ++ l2).
Proof.
  induction l1 as [|x l1 IH]; intros H1 H2 Hd; [exact H2|].
  cbn. inversion H1 as [|y l Hx Hl]; subst. constructor.
  - intro Hin. apply in_app_or in Hin. destruct Hin as [Hin|Hin]; [exact (Hx Hin)|].
    exact (Hd x (or_introl eq_refl) Hin).
  - apply IH; [exact Hl|exact H2|]. intros z Hz. apply Hd. right. exact Hz.
Qed.

Lemma Forall2_seq_nth {A : Type} (P : nat -> A -> Prop) (l : list A) (lo : nat) (d : A) :
  (forall k, k < length l -> P (lo + k) (nth k l d)) -> Forall2 P (seq lo (length l)) l.
Proof.
  revert lo. induction l as [|x l IH]; intros lo HP; [constructor|].
  cbn [length seq]. constructor.
  - specialize (HP 0). rewrite Nat.add_0_r in HP. apply HP. cbn. lia.
  - apply IH. intros k Hk. specialize (HP (S k)). cbn in HP. rewrite <- Nat.add_succ_comm in HP.
    apply HP. lia.
Qed.

Lemma Forall2_impl {A B : Type} (P Q : A -> B -> Prop) (l1 : list A) (l2 : list B) :
  (forall a b, In a l1 -> P a b -> Q a b) -> Forall2 P l1 l2 -> Forall2 Q l1 l2.
Proof.
  intros HPQ H. induction H as [|a b l1 l2 Hab H IH]; constructor.
  - apply HPQ; [left; reflexivity|exact Hab].
  - apply IH. intros a' b' Hin. apply HPQ. right. exact Hin.
Qed.

Lemma Forall2_length {A B : Type} (P : A -> B -> Prop) l1 l2 : Forall2 P l1 l2 -> length l1 = length l2.
Proof. induction 1; cbn; congruence. Qed.

Section EvaluatorsProofs.
  Variable T : Type.
  Variables (add sub mul div : T -> T -> T) (abs : T -> T).
  Variables (zero one mone delta : T).
  Variable psum : list T -> T.
  Variable m : nat.
  Variable tols : list T.
  Variable f : list T -> list T.
  Variable sgn : list T -> list T.
  Variable infeas : list T -> bool.

  Local Notation design := (design T).
  Local Notation heap := (heap T).
  Local Notation st := (st T).
  Local Notation get := (h_get T).
  Local Notation nxt := (h_next T).
  Local Notation hupd := (hupd T).
  Local Notation fresh := (fresh T).
  (* this part of the file is about runs WITHOUT transient failures of the objective: the failure tape of
     the model is the empty one; runs with failures: Section Failures at the end *)
  Local Notation nof := (fun _ : nat => @None (list T)).
  Local Notation evs := (eval_serial T f sgn infeas nof).
  Local Notation job := (job T f sgn infeas nof).
  Local Notation vec := (d_vec T).
  Local Notation kids := (d_children T).

  (* ---- heap basics ---- *)
  Lemma get_hupd_same (h : heap) id d : get (hupd h id d) id = d.
  Proof. cbn. rewrite Nat.eqb_refl. reflexivity. Qed.
  Lemma get_hupd_other (h : heap) id d j : j <> id -> get (hupd h id d) j = get h j.
  Proof. intros Hne. cbn. apply Nat.eqb_neq in Hne. rewrite Hne. reflexivity. Qed.
  Lemma nxt_hupd (h : heap) id d : nxt (hupd h id d) = nxt h.
  Proof. reflexivity. Qed.

  Definition is_empty (d : design) : bool := match d_state T d with EMPTY => true | EVALUATED => false end.

  (* what Job.evaluate leaves in an individual *)
  Definition evald (d : design) : design :=
    set_eval T d (f (vec d)) (map SV (sgn (f (vec d))) ++ [SB (infeas (vec d))]).

  (* ---- Evaluator.evaluate_serial ---- *)
  Lemma eval_serial_spec : forall ids (h : heap) log, NoDup ids ->
    forall h' log', evs (h, log) ids = (h', log') ->
    nxt h' = nxt h /\
    (forall j, In j ids -> is_empty (get h j) = true -> get h' j = evald (get h j)) /\
    (forall j, In j ids -> is_empty (get h j) = false -> get h' j = get h j) /\
    (forall j, ~ In j ids -> get h' j = get h j) /\
    log' = log ++ map (fun j => vec (get h j)) (filter (fun j => is_empty (get h j)) ids).
  Proof.
    induction ids as [|id ids IH]; intros h log Hnd h' log' Hev.
    - cbn in Hev. inversion Hev; subst. rewrite app_nil_r. repeat split; try reflexivity; intros j [].
    - inversion Hnd as [|x l Hnotin Hnd']; subst.
      cbn [eval_serial fst] in Hev.
      destruct (d_state T (get h id)) eqn:Est.
      + (* EMPTY: the job runs *)
        cbn [Evaluators.job Evaluators.job_att] in Hev.
        set (h1 := hupd h id (set_eval T (get h id) (f (vec (get h id)))
                     (map SV (sgn (f (vec (get h id)))) ++ [SB (infeas (vec (get h id)))]))) in Hev.
        destruct (IH h1 _ Hnd' _ _ Hev) as (Hn & Ha & Hb & Hc & Hl).
        assert (Hoth : forall j, j <> id -> get h1 j = get h j)
          by (intros j Hj; apply get_hupd_other; exact Hj).
        assert (Hrest : forall j, In j ids -> get h1 j = get h j)
          by (intros j Hj; apply Hoth; intro E; subst; exact (Hnotin Hj)).
        repeat split.
        * exact Hn.
        * intros j [E|Hj] Hemp.
          -- subst j. rewrite (Hc id Hnotin). unfold h1. rewrite get_hupd_same. reflexivity.
          -- rewrite <- (Hrest j Hj). apply Ha; [exact Hj|]. rewrite (Hrest j Hj). exact Hemp.
        * intros j [E|Hj] Hemp.
          -- subst j. unfold is_empty in Hemp. rewrite Est in Hemp. discriminate.
          -- rewrite <- (Hrest j Hj). apply Hb; [exact Hj|]. rewrite (Hrest j Hj). exact Hemp.
        * intros j Hj. rewrite Hc by (intro; apply Hj; right; assumption).
          apply Hoth. intro E. apply Hj. left. symmetry. exact E.
        * rewrite Hl. cbn [filter]. unfold is_empty at 2. rewrite Est. cbn [map].
          rewrite <- app_assoc. cbn [app]. do 2 f_equal.
          rewrite (filter_ext_in (fun j => is_empty (get h1 j)) (fun j => is_empty (get h j)))
            by (intros j Hj; rewrite (Hrest j Hj); reflexivity).
          apply map_ext_in. intros j Hj. apply filter_In in Hj. rewrite (Hrest j (proj1 Hj)). reflexivity.
      + (* EVALUATED: skipped *)
        destruct (IH h _ Hnd' _ _ Hev) as (Hn & Ha & Hb & Hc & Hl).
        repeat split.
        * exact Hn.
        * intros j [E|Hj] Hemp; [|apply Ha; assumption].
          subst j. unfold is_empty in Hemp. rewrite Est in Hemp. discriminate.
        * intros j [E|Hj] Hemp; [|apply Hb; assumption]. subst j. apply Hc. exact Hnotin.
        * intros j Hj. apply Hc. intro. apply Hj. right. assumption.
        * rewrite Hl. cbn [filter].
          assert (Hie : is_empty (get h id) = false) by (unfold is_empty; rewrite Est; reflexivity).
          rewrite Hie. reflexivity.
  Qed.
  (* ---- the inner loop of add(): children are allocated at the allocation mark ---- *)
  Definition child_of (w : list T) (pid : nat) : design := set_parents T (fresh w) [pid].

  Lemma alloc_children_spec : forall vs (h : heap) pid, pid < nxt h ->
    let h' := alloc_children T h pid vs in
    nxt h' = nxt h + length vs /\
    (forall j, j < nxt h -> j <> pid -> get h' j = get h j) /\
    get h' pid = set_children T (get h pid) (kids (get h pid) ++ seq (nxt h) (length vs)) /\
    (forall k, k < length vs -> get h' (nxt h + k) = child_of (nth k vs []) pid).
  Proof.
    induction vs as [|v vs IH]; intros h pid Hpid.
    - cbn. repeat split.
      + lia.
      + rewrite app_nil_r. destruct (get h pid); reflexivity.
      + intros k Hk. lia.
    - cbn [alloc_children alloc].
      set (h1 := {| h_next := S (nxt h); h_get := fun j => if j =? nxt h then fresh v else get h j |}).
      set (h2 := hupd h1 pid (set_children T (get h1 pid) (kids (get h1 pid) ++ [nxt h]))).
      set (h3 := hupd h2 (nxt h) (set_parents T (get h2 (nxt h)) (d_parents T (get h2 (nxt h)) ++ [pid]))).
      assert (Hne : pid <> nxt h) by lia.
      assert (G1p : get h1 pid = get h pid).
      { unfold h1. cbn. apply Nat.eqb_neq in Hne. rewrite Hne. reflexivity. }
      assert (G1c : get h1 (nxt h) = fresh v).
      { unfold h1. cbn. rewrite Nat.eqb_refl. reflexivity. }
      assert (G3c : get h3 (nxt h) = child_of v pid).
      { unfold h3. rewrite get_hupd_same. unfold h2. rewrite get_hupd_other by lia. rewrite G1c. reflexivity. }
      assert (G3p : get h3 pid = set_children T (get h pid) (kids (get h pid) ++ [nxt h])).
      { unfold h3. rewrite get_hupd_other by exact Hne. unfold h2. rewrite get_hupd_same. rewrite G1p. reflexivity. }
      assert (G3o : forall j, j <> nxt h -> j <> pid -> get h3 j = get h j).
      { intros j J1 J2. unfold h3. rewrite get_hupd_other by exact J1. unfold h2.
        rewrite get_hupd_other by exact J2. unfold h1. cbn. apply Nat.eqb_neq in J1. rewrite J1. reflexivity. }
      assert (N3 : nxt h3 = S (nxt h)) by reflexivity.
      assert (Hpid3 : pid < nxt h3) by (rewrite N3; lia).
      destruct (IH h3 pid Hpid3) as (Hn & Ho & Hp & Hk).
      cbn [length]. repeat split.
      + rewrite Hn, N3. lia.
      + intros j Hj Hjp. rewrite Ho by (rewrite ?N3; lia). apply G3o; lia.
      + rewrite Hp, G3p, N3. destruct (get h pid); cbn. rewrite <- app_assoc. reflexivity.
      + intros k Hk'. destruct k as [|k].
        * rewrite Nat.add_0_r. rewrite Ho by (rewrite ?N3; lia). exact G3c.
        * rewrite <- Nat.add_succ_comm. rewrite <- N3. apply Hk. lia.
  Qed.

  (* ---- add() of both evaluators: the same code up to the list of child vectors ---- *)
  Definition gen_add (cv : list T -> list (list T)) (s : st) (id : nat) : st :=
    let h := s_heap T s in
    let h1 := hupd h id (set_children T (get h id) []) in
    let h2 := alloc_children T h1 id (cv (vec (get h id))) in
    {| s_heap := h2; s_inds := s_inds T s ++ [id]; s_todo := (s_todo T s ++ [id]) ++ kids (get h2 id);
       s_log := s_log T s; s_proc := s_proc T s |}.

  Local Notation wcv := (wc_child_vecs T add mul zero one mone tols).
  Local Notation gcv := (g_child_vecs T add zero delta).

  Lemma wc_add_gen s id : wc_add T add mul zero one mone tols s id = gen_add wcv s id.
  Proof. reflexivity. Qed.
  Lemma g_add_gen s id : g_add T add zero delta s id = gen_add gcv s id.
  Proof. reflexivity. Qed.

  Section Gen.
    Variable cv : list T -> list (list T).

    Lemma gen_add_spec (s : st) id : id < nxt (s_heap T s) ->
      let s' := gen_add cv s id in
      let h := s_heap T s in let h' := s_heap T s' in
      let cvs := cv (vec (get h id)) in
      nxt h' = nxt h + length cvs /\
      (forall j, j < nxt h -> j <> id -> get h' j = get h j) /\
      get h' id = set_children T (get h id) (seq (nxt h) (length cvs)) /\
      (forall k, k < length cvs -> get h' (nxt h + k) = child_of (nth k cvs []) id) /\
      s_inds T s' = s_inds T s ++ [id] /\
      s_todo T s' = s_todo T s ++ id :: seq (nxt h) (length cvs) /\
      s_log T s' = s_log T s /\ s_proc T s' = s_proc T s.
    Proof.
      intros Hid. cbn zeta.
      set (h := s_heap T s). set (h1 := hupd h id (set_children T (get h id) [])).
      assert (Hid1 : id < nxt h1) by exact Hid.
      pose proof (alloc_children_spec (cv (vec (get h id))) h1 id Hid1) as Hs.
      cbn zeta in Hs. destruct Hs as (Hn & Ho & Hp & Hk).
      assert (G1 : get h1 id = set_children T (get h id) []) by (unfold h1; apply get_hupd_same).
      unfold gen_add. cbn [s_heap s_inds s_todo s_log s_proc]. fold h. fold h1.
      assert (Hp' : get (alloc_children T h1 id (cv (vec (get h id)))) id =
                    set_children T (get h id) (seq (nxt h) (length (cv (vec (get h id)))))).
      { rewrite Hp, G1. destruct (get h id); reflexivity. }
      repeat split.
      - exact Hn.
      - intros j Hj Hne. rewrite Ho by assumption. unfold h1. apply get_hupd_other. exact Hne.
      - exact Hp'.
      - exact Hk.
      - rewrite Hp'. rewrite <- app_assoc. destruct (get h id); reflexivity.
    Qed.
    (* the loop `for individual in individuals: self.add(individual)` *)
    Lemma fold_add_spec : forall ids (s : st), NoDup ids ->
      (forall id, In id ids -> id < nxt (s_heap T s)) ->
      let s' := fold_left (gen_add cv) ids s in
      let h := s_heap T s in let h' := s_heap T s' in
      let blk := fun id => id :: kids (get h' id) in
      nxt h <= nxt h' /\
      (forall j, j < nxt h -> ~ In j ids -> get h' j = get h j) /\
      (forall id, In id ids -> exists lo, nxt h <= lo /\ lo + length (cv (vec (get h id))) <= nxt h' /\
          get h' id = set_children T (get h id) (seq lo (length (cv (vec (get h id))))) /\
          forall k, k < length (cv (vec (get h id))) ->
                    get h' (lo + k) = child_of (nth k (cv (vec (get h id))) []) id) /\
      s_inds T s' = s_inds T s ++ ids /\
      s_todo T s' = s_todo T s ++ flat_map blk ids /\
      NoDup (flat_map blk ids) /\
      (forall x, In x (flat_map blk ids) -> In x ids \/ nxt h <= x) /\
      s_log T s' = s_log T s /\ s_proc T s' = s_proc T s.
    Proof.
      induction ids as [|id rest IH]; intros s Hnd Hlt.
      - cbn. rewrite !app_nil_r. repeat split; auto; try constructor; intros; contradiction.
      - inversion Hnd as [|x l Hnotin Hnd']; subst.
        assert (Hid : id < nxt (s_heap T s)) by (apply Hlt; left; reflexivity).
        pose proof (gen_add_spec s id Hid) as Hs. cbn zeta in Hs.
        destruct Hs as (N1 & O1 & P1 & K1 & I1 & T1 & L1 & R1).
        set (s1 := gen_add cv s id) in *.
        set (h := s_heap T s) in *. set (h1 := s_heap T s1) in *.
        set (len := length (cv (vec (get h id)))) in *.
        assert (Hlt1 : forall id', In id' rest -> id' < nxt h1).
        { intros id' Hin. rewrite N1. assert (id' < nxt h) by (apply Hlt; right; exact Hin). lia. }
        pose proof (IH s1 Hnd' Hlt1) as Hr. cbn zeta in Hr. fold h1 in Hr.
        destruct Hr as (N2 & O2 & P2 & I2 & T2 & D2 & X2 & L2 & R2).
        cbn [fold_left]. fold s1.
        set (s' := fold_left (gen_add cv) rest s1) in *. set (h' := s_heap T s') in *.
        assert (Gid : get h' id = set_children T (get h id) (seq (nxt h) len)).
        { rewrite O2; [exact P1| lia | exact Hnotin]. }
        assert (Kid : kids (get h' id) = seq (nxt h) len) by (rewrite Gid; reflexivity).
        assert (Hrest_lt : forall x, In x rest -> x < nxt h) by (intros x Hx; apply Hlt; right; exact Hx).
        repeat split.
        + lia.
        + intros j Hj Hnin. rewrite O2.
          * apply O1; [exact Hj|]. intro E. apply Hnin. left. symmetry. exact E.
          * lia.
          * intro Hin. apply Hnin. right. exact Hin.
        + intros id' [E|Hin].
          * subst id'. exists (nxt h). fold len. repeat split.
            -- lia.
            -- lia.
            -- exact Gid.
            -- intros k Hk. rewrite O2.
               ++ apply K1. exact Hk.
               ++ lia.
               ++ intro Hin. apply Hrest_lt in Hin. lia.
          * destruct (P2 id' Hin) as (lo & B1 & B2 & B3 & B4).
            assert (E1 : get h1 id' = get h id').
            { apply O1; [apply Hrest_lt; exact Hin|]. intro E. subst. exact (Hnotin Hin). }
            rewrite E1 in *. exists lo. repeat split; try assumption. lia.
        + rewrite I2, I1, <- app_assoc. reflexivity.
        + rewrite T2, T1. cbn [flat_map]. rewrite Kid, <- app_assoc. reflexivity.
        + cbn [flat_map]. rewrite Kid. apply (NoDup_app_intro (id :: seq (nxt h) len)).
          * constructor; [|apply seq_NoDup]. rewrite in_seq. lia.
          * exact D2.
          * intros x Hx Hx2. destruct (X2 x Hx2) as [Hin|Hge].
            -- destruct Hx as [E|Hx]; [subst; exact (Hnotin Hin)|].
               apply in_seq in Hx. apply Hrest_lt in Hin. lia.
            -- destruct Hx as [E|Hx]; [subst; lia|]. apply in_seq in Hx. lia.
        + intros x Hx. cbn [flat_map] in Hx. rewrite Kid in Hx.
          apply in_app_or in Hx. destruct Hx as [[E|Hx]|Hx].
          * left. left. exact E.
          * right. apply in_seq in Hx. lia.
          * destruct (X2 x Hx) as [Hin|Hge]; [left; right; exact Hin|right; lia].
        + rewrite L2. exact L1.
        + rewrite R2. exact R1.
    Qed.
  End Gen.
  (* ---- the post-processing loops of run(): each step reads the individual and the first cost of
          its children, and writes the individual only ---- *)
  Local Notation c0 := (c0 T zero).
  Definition kid_c0 (h : heap) (d : design) : list T := map (fun c => c0 (d_costs T (get h c))) (kids d).

  Definition wc_fin (d : design) (ks : list T) : design :=
    let x := psum (map (fun k => abs (sub (c0 (d_costs T d)) k)) ks) in
    if S m <=? length (d_costs T d)
    then set_sens T d (set_last x (d_costs T d)) (set_m2 (SV x) (d_signed T d)) x
    else set_sens T d (d_costs T d ++ [x]) (insert_m1 (SV x) (d_signed T d)) x.

  Definition g_fin (d : design) (ks : list T) : design :=
    set_grad T d (map (fun k => div (sub k (c0 (d_costs T d))) delta) ks).

  Lemma wc_post_fin h id :
    wc_post T sub abs zero psum m h id = hupd h id (wc_fin (get h id) (kid_c0 h (get h id))).
  Proof.
    unfold wc_post, wc_fin, wc_sens, kid_c0. rewrite map_map.
    destruct (S m <=? length (d_costs T (get h id))); reflexivity.
  Qed.

  Lemma g_post_fin h id :
    g_post T sub div zero delta h id = hupd h id (g_fin (get h id) (kid_c0 h (get h id))).
  Proof. unfold g_post, g_fin, kid_c0. rewrite map_map. reflexivity. Qed.

  Lemma fold_post_spec (G : design -> list T -> design) : forall ids (h : heap), NoDup ids ->
    (forall id c, In id ids -> In c (kids (get h id)) -> ~ In c ids) ->
    let h' := fold_left (fun h id => hupd h id (G (get h id) (kid_c0 h (get h id)))) ids h in
    nxt h' = nxt h /\
    (forall id, In id ids -> get h' id = G (get h id) (kid_c0 h (get h id))) /\
    (forall j, ~ In j ids -> get h' j = get h j).
  Proof.
    induction ids as [|id rest IH]; intros h Hnd Hk.
    - cbn. repeat split; auto. intros id [].
    - inversion Hnd as [|x l Hnotin Hnd']; subst. cbn [fold_left].
      set (h1 := hupd h id (G (get h id) (kid_c0 h (get h id)))).
      assert (Hoth : forall j, j <> id -> get h1 j = get h j) by (intros j Hj; apply get_hupd_other; exact Hj).
      assert (Hk1 : forall id' c, In id' rest -> In c (kids (get h1 id')) -> ~ In c rest).
      { intros id' c Hin Hc Hcr. rewrite Hoth in Hc by (intro E; subst; exact (Hnotin Hin)).
        apply (Hk id' c); [right; exact Hin|exact Hc|right; exact Hcr]. }
      destruct (IH h1 Hnd' Hk1) as (N & A & B). repeat split.
      + rewrite N. reflexivity.
      + intros id' [E|Hin].
        * subst id'. rewrite B by exact Hnotin. unfold h1. apply get_hupd_same.
        * assert (Hne : id' <> id) by (intro E; subst; exact (Hnotin Hin)).
          rewrite A by exact Hin. rewrite (Hoth id' Hne). f_equal.
          unfold kid_c0. apply map_ext_in. intros c Hc. rewrite Hoth; [reflexivity|].
          intro E. subst c. apply (Hk id' id); [right; exact Hin|exact Hc|left; reflexivity].
      + intros j Hj. rewrite B by (intro Hin; apply Hj; right; exact Hin).
        apply Hoth. intro E. apply Hj. left. symmetry. exact E.
  Qed.

  (* ---- the algorithm creates the designs of a generation ---- *)
  Lemma new_designs_spec : forall vs (h : heap) h' ids, new_designs T h vs = (h', ids) ->
    ids = seq (nxt h) (length vs) /\ nxt h' = nxt h + length vs /\
    (forall j, j < nxt h -> get h' j = get h j) /\
    (forall k, k < length vs -> get h' (nxt h + k) = fresh (nth k vs [])).
  Proof.
    induction vs as [|v vs IH]; intros h h' ids Hnd.
    - cbn in Hnd. inversion Hnd; subst. cbn. repeat split; auto; intros; lia.
    - cbn [new_designs alloc] in Hnd.
      set (h1 := {| h_next := S (nxt h); h_get := fun j => if j =? nxt h then fresh v else get h j |}) in Hnd.
      destruct (new_designs T h1 vs) as [h2 ids2] eqn:E. inversion Hnd; subst.
      destruct (IH h1 h' ids2 E) as (I & N & O & K).
      assert (N1 : nxt h1 = S (nxt h)) by reflexivity. cbn [length]. repeat split.
      + rewrite I, N1. reflexivity.
      + rewrite N, N1. lia.
      + intros j Hj. rewrite O by (rewrite N1; lia). unfold h1. cbn.
        assert (Hne : j <> nxt h) by lia. apply Nat.eqb_neq in Hne. rewrite Hne. reflexivity.
      + intros [|k] Hk.
        * rewrite Nat.add_0_r, O by (rewrite N1; lia). unfold h1. cbn. rewrite Nat.eqb_refl. reflexivity.
        * rewrite <- Nat.add_succ_comm, <- N1. apply K. lia.
  Qed.
  Lemma fold_left_ext {A B : Type} (g1 g2 : A -> B -> A) (l : list B) (a : A) :
    (forall x y, g1 x y = g2 x y) -> fold_left g1 l a = fold_left g2 l a.
  Proof. intros E. revert a. induction l as [|y l IH]; intros a; [reflexivity|]. cbn. rewrite E. apply IH. Qed.

  (* ---- one batch, generically: cv = child vectors, e = are the submitted designs still EMPTY when
          add() is called (gradient) or already evaluated (worst case), G = post-processing ---- *)
  Section Batch.
    Variable cv : list T -> list (list T).
    Variable e : bool.
    Variable G : design -> list T -> design.

    Definition base (v : list T) : design := if e then fresh v else evald (fresh v).

    Lemma vec_base v : vec (base v) = v.
    Proof. unfold base. destruct e; reflexivity. Qed.
    Lemma is_empty_base v : is_empty (base v) = e.
    Proof. unfold base. destruct e; reflexivity. Qed.

    (* a finished design: evaluated, post-processed, with its evaluated children right above lo *)
    Definition done (h : heap) (id : nat) (v : list T) : Prop :=
      exists lo, id < lo /\ lo + length (cv v) <= nxt h /\
        get h id = G (set_children T (evald (fresh v)) (seq lo (length (cv v)))) (map (fun w => c0 (f w)) (cv v)) /\
        forall k, k < length (cv v) -> get h (lo + k) = evald (child_of (nth k (cv v) []) id).

    Lemma done_frame (h h' : heap) id v :
      nxt h <= nxt h' -> (forall j, j < nxt h -> get h' j = get h j) -> done h id v -> done h' id v.
    Proof.
      intros Hn Hf (lo & A & B & C & D). exists lo. repeat split.
      - exact A.
      - lia.
      - rewrite Hf by lia. exact C.
      - intros k Hk. rewrite Hf by lia. apply D. exact Hk.
    Qed.

    (* adds, evaluation of to_evaluate and post-processing, from a state whose work lists are empty and
       whose heap holds the submitted designs in cells N0 .. N0+|b|-1, the last ones allocated *)
    Lemma run_spec (sA : st) (b : list (list T)) (N0 : nat) :
      let hA := s_heap T sA in
      let ids := seq N0 (length b) in
      s_inds T sA = [] -> s_todo T sA = [] -> nxt hA = N0 + length b ->
      (forall k, k < length b -> get hA (N0 + k) = base (nth k b [])) ->
      let sB := fold_left (gen_add cv) ids sA in
      forall hC logC, evs (s_heap T sB, s_log T sB) (s_todo T sB) = (hC, logC) ->
      let hD := fold_left (fun h id => hupd h id (G (get h id) (kid_c0 h (get h id)))) (s_inds T sB) hC in
      s_inds T sB = ids /\
      nxt hA <= nxt hD /\
      (forall j, j < N0 -> get hD j = get hA j) /\
      Forall2 (done hD) ids b /\
      logC = s_log T sA ++ flat_map (fun v => (if e then [v] else []) ++ cv v) b /\
      s_proc T sB = s_proc T sA.
    Proof.
      intros hA ids Hi Ht NA HA sB hC logC EC hD.
      set (K := length b) in *.
      assert (Hnd : NoDup ids) by apply seq_NoDup.
      assert (Hlt : forall id, In id ids -> id < nxt (s_heap T sA)).
      { intros id Hin. apply in_seq in Hin. fold hA. lia. }
      pose proof (fold_add_spec cv ids sA Hnd Hlt) as HB. cbn zeta in HB. fold sB in HB. fold hA in HB.
      destruct HB as (NB & OB & PB & IB & TB & DB & XB & LB & RB).
      set (hB := s_heap T sB) in *.
      set (blk := fun id => id :: kids (get hB id)) in *.
      rewrite Hi in IB. rewrite Ht in TB. cbn [app] in IB, TB.
      (* the designs after the adds, by position *)
      assert (TopB : forall k, k < K -> exists lo, N0 + K <= lo /\ lo + length (cv (nth k b [])) <= nxt hB /\
                 get hB (N0 + k) = set_children T (base (nth k b [])) (seq lo (length (cv (nth k b [])))) /\
                 forall k', k' < length (cv (nth k b [])) ->
                            get hB (lo + k') = child_of (nth k' (cv (nth k b [])) []) (N0 + k)).
      { intros k Hk. assert (Hin : In (N0 + k) ids) by (apply in_seq; lia).
        destruct (PB _ Hin) as (lo & B1 & B2 & B3 & B4).
        rewrite (HA k Hk), vec_base in *. exists lo. repeat split; try assumption. lia. }
      (* evaluation of to_evaluate *)
      rewrite TB in EC. rewrite LB in EC.
      destruct (eval_serial_spec _ _ _ DB _ _ EC) as (NC & CA & CB & CC & CL).
      assert (TopC : forall k, k < K -> exists lo, N0 + K <= lo /\ lo + length (cv (nth k b [])) <= nxt hC /\
                 get hC (N0 + k) = set_children T (evald (fresh (nth k b []))) (seq lo (length (cv (nth k b [])))) /\
                 forall k', k' < length (cv (nth k b [])) ->
                            get hC (lo + k') = evald (child_of (nth k' (cv (nth k b [])) []) (N0 + k))).
      { intros k Hk. destruct (TopB k Hk) as (lo & B1 & B2 & B3 & B4).
        assert (Hin : In (N0 + k) ids) by (apply in_seq; lia).
        assert (Hint : In (N0 + k) (flat_map blk ids)).
        { apply in_flat_map. exists (N0 + k). split; [exact Hin|left; reflexivity]. }
        exists lo. repeat split.
        - exact B1.
        - rewrite NC. exact B2.
        - destruct (is_empty (get hB (N0 + k))) eqn:Em.
          + rewrite (CA _ Hint Em), B3. rewrite B3 in Em. unfold base in *. destruct e; [reflexivity|discriminate].
          + rewrite (CB _ Hint Em), B3. rewrite B3 in Em. unfold base in *. destruct e; [discriminate|reflexivity].
        - intros k' Hk'.
          assert (Hint' : In (lo + k') (flat_map blk ids)).
          { apply in_flat_map. exists (N0 + k). split; [exact Hin|]. right. unfold blk. rewrite B3. cbn.
            apply in_seq. lia. }
          rewrite (CA _ Hint'); rewrite (B4 k' Hk'); reflexivity. }
      (* post-processing *)
      assert (KidsC : forall id c, In id ids -> In c (kids (get hC id)) -> ~ In c ids).
      { intros id c Hin Hc Hcin. apply in_seq in Hin. apply in_seq in Hcin.
        destruct (TopC (id - N0)) as (lo & C1 & C2 & C3 & C4); [lia|].
        replace (N0 + (id - N0)) with id in C3 by lia. rewrite C3 in Hc. cbn in Hc. apply in_seq in Hc. lia. }
      pose proof (fold_post_spec G ids hC Hnd KidsC) as HD. cbn zeta in HD.
      unfold hD. rewrite IB. destruct HD as (ND & DA & DO).
      set (hD' := fold_left (fun h id => hupd h id (G (get h id) (kid_c0 h (get h id)))) ids hC) in *.
      repeat split.
      - rewrite ND, NC. exact NB.
      - intros j Hj.
        assert (J1 : ~ In j ids) by (intro Hin; apply in_seq in Hin; lia).
        rewrite DO by exact J1. rewrite CC.
        + apply OB; [lia|exact J1].
        + intro Hin. destruct (XB _ Hin) as [Hin'|Hge]; [exact (J1 Hin')|lia].
      - apply Forall2_seq_nth with (d := []). intros k Hk.
        destruct (TopC k Hk) as (lo & C1 & C2 & C3 & C4).
        assert (Hin : In (N0 + k) ids) by (apply in_seq; lia).
        exists lo. repeat split.
        + lia.
        + rewrite ND. exact C2.
        + rewrite (DA _ Hin), C3. f_equal. unfold kid_c0. cbn [d_children set_children].
          apply map_seq_nth_gen with (d := []). intros k' Hk'. rewrite (C4 k' Hk'). reflexivity.
        + intros k' Hk'. rewrite DO; [apply C4; exact Hk'|].
          intro Hin'. apply in_seq in Hin'. lia.
      - rewrite CL. f_equal.
        rewrite filter_flat_map.
        rewrite (flat_map_ext_in _ (fun id => (if e then [id] else []) ++ kids (get hB id))).
        2:{ intros id Hin. apply in_seq in Hin.
            destruct (TopB (id - N0)) as (lo & B1 & B2 & B3 & B4); [lia|].
            replace (N0 + (id - N0)) with id in * by lia.
            unfold blk. cbn [filter]. rewrite B3.
            change (is_empty (set_children T (base (nth (id - N0) b [])) (seq lo (length (cv (nth (id - N0) b []))))))
              with (is_empty (base (nth (id - N0) b []))).
            rewrite is_empty_base. cbn [d_children set_children].
            assert (Hall : filter (fun j => is_empty (get hB j)) (seq lo (length (cv (nth (id - N0) b [])))) =
                           seq lo (length (cv (nth (id - N0) b [])))).
            { apply filter_all. intros x Hx. apply in_seq in Hx.
              replace x with (lo + (x - lo)) by lia. rewrite B4 by lia. reflexivity. }
            rewrite Hall. destruct e; reflexivity. }
        rewrite map_flat_map.
        rewrite (flat_map_ext_in _ (fun id => (if e then [nth (id - N0) b []] else []) ++ cv (nth (id - N0) b []))).
        2:{ intros id Hin. apply in_seq in Hin.
            destruct (TopB (id - N0)) as (lo & B1 & B2 & B3 & B4); [lia|].
            replace (N0 + (id - N0)) with id in * by lia.
            rewrite map_app. f_equal.
            - destruct e; [|reflexivity]. cbn. rewrite B3. cbn. rewrite vec_base. reflexivity.
            - rewrite B3. cbn [d_children set_children].
              apply map_seq_nth with (d := []). intros k' Hk'. rewrite (B4 k' Hk'). reflexivity. }
        rewrite <- (flat_map_map (fun id => nth (id - N0) b []) (fun v => (if e then [v] else []) ++ cv v)).
        f_equal. unfold ids. apply map_seq_nth with (d := []). intros k Hk. f_equal. lia.
      - exact RB.
    Qed.
  End Batch.
  (* ---- the two evaluators, one batch ---- *)
  Local Notation wc_eval := (wc_evaluate T add sub mul abs zero one mone psum m tols f sgn infeas nof).
  Local Notation wc_seq := (wc_batches T add sub mul abs zero one mone psum m tols f sgn infeas nof).
  Local Notation g_eval := (g_evaluate T add sub div zero delta f sgn infeas nof).
  Local Notation g_seq := (g_batches T add sub div zero delta f sgn infeas nof).
  Local Notation heap_of := (s_heap T).

  Definition wc_done := done wcv wc_fin.
  Definition g_done := done gcv g_fin.

  Lemma wc_batch_spec (s : st) b h1 ids :
    s_inds T s = [] -> s_todo T s = [] -> new_designs T (heap_of s) b = (h1, ids) ->
    let s' := wc_eval (with_heap T s h1) ids in
    ids = seq (nxt (heap_of s)) (length b) /\
    nxt (heap_of s) + length b <= nxt (heap_of s') /\
    (forall j, j < nxt (heap_of s) -> get (heap_of s') j = get (heap_of s) j) /\
    s_inds T s' = [] /\ s_todo T s' = [] /\
    s_log T s' = s_log T s ++ b ++ flat_map wcv b /\
    s_proc T s' = s_proc T s ++ [ids] /\
    Forall2 (wc_done (heap_of s')) ids b.
  Proof.
    intros Hi Ht Hnew.
    destruct (new_designs_spec _ _ _ _ Hnew) as (Eids & N1 & O1 & K1).
    set (N0 := nxt (heap_of s)) in *.
    unfold wc_evaluate, with_heap. cbn [s_heap s_inds s_todo s_log s_proc].
    destruct (evs (h1, s_log T s) ids) as [hA logA] eqn:EA.
    assert (Hnd : NoDup ids) by (rewrite Eids; apply seq_NoDup).
    destruct (eval_serial_spec _ _ _ Hnd _ _ EA) as (NA & AA & AB & AC & AL).
    rewrite Hi, Ht.
    set (sA := {| s_heap := hA; s_inds := []; s_todo := []; s_log := logA; s_proc := s_proc T s |}).
    change (fold_left (wc_add T add mul zero one mone tols) ids sA) with (fold_left (gen_add wcv) ids sA).
    rewrite Eids.
    assert (HA : forall k, k < length b -> get hA (N0 + k) = base false (nth k b [])).
    { intros k Hk. rewrite AA.
      - rewrite (K1 k Hk). reflexivity.
      - rewrite Eids. apply in_seq. lia.
      - rewrite (K1 k Hk). reflexivity. }
    assert (NA' : nxt (heap_of sA) = N0 + length b) by (cbn; lia).
    unfold wc_run.
    set (sB := fold_left (gen_add wcv) (seq N0 (length b)) sA).
    destruct (evs (heap_of sB, s_log T sB) (s_todo T sB)) as [hC logC] eqn:EC.
    pose proof (run_spec wcv false wc_fin sA b N0 eq_refl eq_refl NA' HA hC logC EC) as R.
    cbn zeta in R. fold sB in R. destruct R as (RI & RN & RO & RD & RL & RP).
    rewrite (fold_left_ext _ (fun h id => hupd h id (wc_fin (get h id) (kid_c0 h (get h id)))))
      by (intros; apply wc_post_fin).
    cbn [s_heap s_inds s_todo s_log s_proc]. repeat split.
    - cbn [s_heap] in RN. lia.
    - intros j Hj. rewrite RO by exact Hj. cbn [s_heap]. rewrite AC.
      + apply O1. exact Hj.
      + rewrite Eids. intro Hin. apply in_seq in Hin. lia.
    - rewrite RL. unfold sA. cbn [s_log app]. rewrite AL. rewrite <- app_assoc. do 2 f_equal.
      rewrite filter_all.
      + rewrite Eids. apply map_seq_nth with (d := []). intros k Hk. rewrite (K1 k Hk). reflexivity.
      + intros x Hx. rewrite Eids in Hx. apply in_seq in Hx.
        replace x with (N0 + (x - N0)) by lia. rewrite K1 by lia. reflexivity.
    - rewrite RP, RI. reflexivity.
    - exact RD.
  Qed.

  Lemma g_batch_spec (s : st) b h1 ids :
    s_inds T s = [] -> s_todo T s = [] -> new_designs T (heap_of s) b = (h1, ids) -> b <> [] ->
    exists s', g_eval (with_heap T s h1) ids = Some s' /\
    ids = seq (nxt (heap_of s)) (length b) /\
    nxt (heap_of s) + length b <= nxt (heap_of s') /\
    (forall j, j < nxt (heap_of s) -> get (heap_of s') j = get (heap_of s) j) /\
    s_inds T s' = [] /\ s_todo T s' = [] /\
    s_log T s' = s_log T s ++ b ++ flat_map gcv b /\
    s_proc T s' = s_proc T s ++ [ids] /\
    Forall2 (g_done (heap_of s')) ids b.
  Proof.
    intros Hi Ht Hnew Hne.
    destruct (new_designs_spec _ _ _ _ Hnew) as (Eids & N1 & O1 & K1).
    set (N0 := nxt (heap_of s)) in *.
    unfold g_evaluate, with_heap. cbn [s_heap s_inds s_todo s_log s_proc].
    destruct (evs (h1, s_log T s) ids) as [hA logA] eqn:EA.
    assert (Hnd : NoDup ids) by (rewrite Eids; apply seq_NoDup).
    destruct (eval_serial_spec _ _ _ Hnd _ _ EA) as (NA & AA & AB & AC & AL).
    rewrite Hi, Ht.
    set (sA := {| s_heap := hA; s_inds := []; s_todo := []; s_log := logA; s_proc := s_proc T s |}).
    change (fold_left (g_add T add zero delta) ids sA) with (fold_left (gen_add gcv) ids sA).
    rewrite Eids.
    assert (HA : forall k, k < length b -> get hA (N0 + k) = base false (nth k b [])).
    { intros k Hk. rewrite AA.
      - rewrite (K1 k Hk). reflexivity.
      - rewrite Eids. apply in_seq. lia.
      - rewrite (K1 k Hk). reflexivity. }
    assert (NA' : nxt (heap_of sA) = N0 + length b) by (cbn; lia).
    set (sB := fold_left (gen_add gcv) (seq N0 (length b)) sA).
    destruct (evs (heap_of sB, s_log T sB) (s_todo T sB)) as [hC logC] eqn:EC.
    pose proof (run_spec gcv false g_fin sA b N0 eq_refl eq_refl NA' HA hC logC EC) as R.
    cbn zeta in R. fold sB in R. destruct R as (RI & RN & RO & RD & RL & RP).
    unfold g_run. rewrite EC.
    destruct (s_inds T sB) as [|i0 irest] eqn:EI.
    - exfalso. destruct b; [apply Hne; reflexivity|discriminate RI].
    - eexists. split; [reflexivity|].
      rewrite (fold_left_ext _ (fun h id => hupd h id (g_fin (get h id) (kid_c0 h (get h id)))))
        by (intros; apply g_post_fin).
      cbn [s_heap s_inds s_todo s_log s_proc]. repeat split.
      + cbn [s_heap] in RN. lia.
      + intros j Hj. rewrite RO by exact Hj. cbn [s_heap]. rewrite AC.
        * apply O1. exact Hj.
        * rewrite Eids. intro Hin. apply in_seq in Hin. lia.
      + rewrite RL. unfold sA. cbn [s_log app]. rewrite AL. rewrite <- app_assoc. do 2 f_equal.
        rewrite filter_all.
        * rewrite Eids. apply map_seq_nth with (d := []). intros k Hk. rewrite (K1 k Hk). reflexivity.
        * intros x Hx. rewrite Eids in Hx. apply in_seq in Hx.
          replace x with (N0 + (x - N0)) by lia. rewrite K1 by lia. reflexivity.
      + rewrite RP, RI. reflexivity.
      + exact RD.
  Qed.
  (* ---- any sequence of batches ---- *)
  Lemma wc_batches_spec : forall bs (s : st), s_inds T s = [] -> s_todo T s = [] ->
    forall s' idss, wc_seq s bs = (s', idss) ->
    s_inds T s' = [] /\ s_todo T s' = [] /\
    nxt (heap_of s) <= nxt (heap_of s') /\
    (forall j, j < nxt (heap_of s) -> get (heap_of s') j = get (heap_of s) j) /\
    Forall2 (Forall2 (wc_done (heap_of s'))) idss bs /\
    s_log T s' = s_log T s ++ flat_map (fun b => b ++ flat_map wcv b) bs /\
    s_proc T s' = s_proc T s ++ idss /\
    (forall id, In id (concat idss) -> nxt (heap_of s) <= id < nxt (heap_of s')) /\
    NoDup (concat idss).
  Proof.
    induction bs as [|b bs IH]; intros s Hi Ht s' idss Hrun.
    - cbn in Hrun. inversion Hrun; subst. rewrite !app_nil_r. cbn.
      repeat split; auto; try constructor. all: try contradiction.
    - cbn [wc_batches] in Hrun.
      destruct (new_designs T (heap_of s) b) as [h1 ids] eqn:Enew.
      destruct (wc_seq (wc_eval (with_heap T s h1) ids) bs) as [s2 idss2] eqn:Erest.
      inversion Hrun; subst s2 idss. clear Hrun.
      pose proof (wc_batch_spec s b h1 ids Hi Ht Enew) as B. cbn zeta in B.
      set (s1 := wc_eval (with_heap T s h1) ids) in *.
      destruct B as (Eids & BN & BO & BI & BT & BL & BP & BD).
      destruct (IH s1 BI BT _ _ Erest) as (I2 & T2 & N2 & O2 & D2 & L2 & P2 & R2 & U2).
      assert (Hrange : forall id, In id ids -> nxt (heap_of s) <= id < nxt (heap_of s1)).
      { intros id Hin. rewrite Eids in Hin. apply in_seq in Hin. lia. }
      repeat split.
      + exact I2.
      + exact T2.
      + lia.
      + intros j Hj. rewrite O2 by lia. apply BO. exact Hj.
      + constructor; [|exact D2].
        apply (Forall2_impl (wc_done (heap_of s1))); [|exact BD].
        intros id v _ Hd. apply (done_frame wcv wc_fin (heap_of s1)); assumption.
      + rewrite L2, BL. cbn [flat_map]. rewrite <- !app_assoc. reflexivity.
      + rewrite P2, BP, <- app_assoc. reflexivity.
      + cbn [concat] in H. apply in_app_or in H. destruct H as [H|H].
        * apply Hrange in H. lia.
        * apply R2 in H. lia.
      + cbn [concat] in H. apply in_app_or in H. destruct H as [H|H].
        * apply Hrange in H. lia.
        * apply R2 in H. lia.
      + cbn [concat]. apply NoDup_app_intro.
        * rewrite Eids. apply seq_NoDup.
        * exact U2.
        * intros x Hx Hx2. apply Hrange in Hx. apply R2 in Hx2. lia.
  Qed.

  Lemma g_batches_spec : forall bs (s : st), s_inds T s = [] -> s_todo T s = [] ->
    Forall (fun b => b <> []) bs ->
    exists s' idss, g_seq s bs = Some (s', idss) /\
    s_inds T s' = [] /\ s_todo T s' = [] /\
    nxt (heap_of s) <= nxt (heap_of s') /\
    (forall j, j < nxt (heap_of s) -> get (heap_of s') j = get (heap_of s) j) /\
    Forall2 (Forall2 (g_done (heap_of s'))) idss bs /\
    s_log T s' = s_log T s ++ flat_map (fun b => b ++ flat_map gcv b) bs /\
    s_proc T s' = s_proc T s ++ idss /\
    (forall id, In id (concat idss) -> nxt (heap_of s) <= id < nxt (heap_of s')) /\
    NoDup (concat idss).
  Proof.
    induction bs as [|b bs IH]; intros s Hi Ht Hne.
    - exists s, []. cbn. rewrite !app_nil_r. repeat split; auto; try constructor. all: try contradiction.
    - inversion Hne as [|x l Hb Hbs]; subst.
      cbn [g_batches].
      destruct (new_designs T (heap_of s) b) as [h1 ids] eqn:Enew.
      destruct (g_batch_spec s b h1 ids Hi Ht Enew Hb) as (s1 & E1 & Eids & BN & BO & BI & BT & BL & BP & BD).
      rewrite E1.
      destruct (IH s1 BI BT Hbs) as (s' & idss2 & E2 & I2 & T2 & N2 & O2 & D2 & L2 & P2 & R2 & U2).
      rewrite E2. exists s', (ids :: idss2).
      assert (Hrange : forall id, In id ids -> nxt (heap_of s) <= id < nxt (heap_of s1)).
      { intros id Hin. rewrite Eids in Hin. apply in_seq in Hin. lia. }
      repeat split.
      + exact I2.
      + exact T2.
      + lia.
      + intros j Hj. rewrite O2 by lia. apply BO. exact Hj.
      + constructor; [|exact D2].
        apply (Forall2_impl (g_done (heap_of s1))); [|exact BD].
        intros id v _ Hd. apply (done_frame gcv g_fin (heap_of s1)); assumption.
      + rewrite L2, BL. cbn [flat_map]. rewrite <- !app_assoc. reflexivity.
      + rewrite P2, BP, <- app_assoc. reflexivity.
      + cbn [concat] in H. apply in_app_or in H. destruct H as [H|H].
        * apply Hrange in H. lia.
        * apply R2 in H. lia.
      + cbn [concat] in H. apply in_app_or in H. destruct H as [H|H].
        * apply Hrange in H. lia.
        * apply R2 in H. lia.
      + cbn [concat]. apply NoDup_app_intro.
        * rewrite Eids. apply seq_NoDup.
        * exact U2.
        * intros x Hx Hx2. apply Hrange in Hx. apply R2 in Hx2. lia.
  Qed.
  (* ---- shapes of the child-vector lists ---- *)
  Lemma pairs_length {A : Type} (a b : nat -> A) l : length (flat_map (fun i => [a i; b i]) l) = 2 * length l.
  Proof. induction l as [|x l IH]; [reflexivity|]. cbn [flat_map length app]. rewrite IH. lia. Qed.

  Lemma pairs_nth {A : Type} (a b : nat -> A) (d : A) : forall l i, i < length l ->
    nth (2 * i) (flat_map (fun j => [a j; b j]) l) d = a (nth i l 0) /\
    nth (2 * i + 1) (flat_map (fun j => [a j; b j]) l) d = b (nth i l 0).
  Proof.
    induction l as [|x l IH]; intros i Hi; [cbn in Hi; lia|].
    destruct i as [|i].
    - cbn. split; reflexivity.
    - replace (2 * S i) with (S (S (2 * i))) by lia. replace (S (S (2 * i)) + 1) with (S (S (2 * i + 1))) by lia.
      cbn [flat_map app nth]. apply IH. cbn in Hi. lia.
  Qed.

  Lemma wcv_length v : length (wcv v) = 2 * length v.
  Proof. unfold wc_child_vecs. rewrite pairs_length, seq_length. reflexivity. Qed.

  Lemma wcv_nth v i : i < length v ->
    nth (2 * i) (wcv v) [] = set_nth T i (add (nth i v zero) (mul mone (nth i tols zero))) v /\
    nth (2 * i + 1) (wcv v) [] = set_nth T i (add (nth i v zero) (mul one (nth i tols zero))) v.
  Proof.
    intros Hi. unfold wc_child_vecs.
    destruct (pairs_nth (fun j => wc_child_vec T add mul zero tols v j mone)
                        (fun j => wc_child_vec T add mul zero tols v j one) [] (seq 0 (length v)) i) as [A B].
    - rewrite seq_length. exact Hi.
    - rewrite A, B. rewrite seq_nth by exact Hi. split; reflexivity.
  Qed.

  Lemma gcv_length v : length (gcv v) = length v.
  Proof. unfold g_child_vecs. rewrite map_length, seq_length. reflexivity. Qed.

  Lemma gcv_nth v i : i < length v -> nth i (gcv v) [] = set_nth T i (add (nth i v zero) delta) v.
  Proof.
    intros Hi. unfold g_child_vecs.
    rewrite (nth_indep _ [] (g_child_vec T add zero delta v 0)) by (rewrite map_length, seq_length; exact Hi).
    rewrite map_nth, seq_nth by exact Hi. reflexivity.
  Qed.

  (* the displaced vector differs from the design on exactly one axis *)
  Lemma set_nth_length i x v : length (set_nth T i x v) = length v.
  Proof. revert i. induction v as [|y v IH]; intros [|i]; cbn; try reflexivity. rewrite IH. reflexivity. Qed.
  Lemma set_nth_same i x v d : i < length v -> nth i (set_nth T i x v) d = x.
  Proof. revert i. induction v as [|y v IH]; intros [|i] Hi; cbn in *; try lia; [reflexivity|]. apply IH. lia. Qed.
  Lemma set_nth_other i j x v d : j <> i -> nth j (set_nth T i x v) d = nth j v d.
  Proof.
    revert i j. induction v as [|y v IH]; intros [|i] [|j] Hne; cbn; try reflexivity; try lia.
    apply IH. lia.
  Qed.

  Lemma insert_m1_snoc {A : Type} (x y : A) l : insert_m1 x (l ++ [y]) = l ++ [x; y].
  Proof.
    induction l as [|z l IH]; [reflexivity|]. destruct l as [|w l]; [reflexivity|].
    change (insert_m1 x ((z :: w :: l) ++ [y])) with (z :: insert_m1 x ((w :: l) ++ [y])).
    rewrite IH. reflexivity.
  Qed.

  (* ---- what a finished design looks like ---- *)
  Definition wc_S (v : list T) : T := psum (map (fun w => abs (sub (c0 (f v)) (c0 (f w)))) (wcv v)).

  Lemma wc_fin_fields d ks :
    vec (wc_fin d ks) = vec d /\ d_parents T (wc_fin d ks) = d_parents T d /\
    kids (wc_fin d ks) = kids d /\ d_state T (wc_fin d ks) = d_state T d /\ d_grad T (wc_fin d ks) = d_grad T d.
  Proof. unfold wc_fin. destruct (S m <=? length (d_costs T d)); repeat split; reflexivity. Qed.

  Lemma wc_fin_fresh v l : length (f v) = m ->
    wc_fin (set_children T (evald (fresh v)) l) (map (fun w => c0 (f w)) (wcv v)) =
    {| d_vec := v; d_costs := f v ++ [wc_S v];
       d_signed := map SV (sgn (f v)) ++ [SV (wc_S v); SB (infeas v)];
       d_state := EVALUATED; d_parents := []; d_children := l; d_sens := Some (wc_S v); d_grad := None; d_fail := 0 |}.
  Proof.
    intros Hm. unfold wc_fin. cbn [d_costs set_children evald set_eval d_signed d_vec fresh].
    rewrite Hm. assert (E : S m <=? m = false) by (apply Nat.leb_gt; lia). rewrite E.
    rewrite map_map. fold (wc_S v). unfold set_sens. cbn. rewrite insert_m1_snoc. reflexivity.
  Qed.

  (* ---- theorems over a whole run, from the evaluator's initial state ---- *)
  Local Notation init := (init T).

  (* C14 worstcase_children *)
  Definition wc_children_stmt (s : st) (idss : list (list nat)) (bs : list (list (list T))) : Prop :=
    Forall2 (Forall2 (fun id v =>
      let h := heap_of s in let d := get h id in
      vec d = v /\ d_parents T d = [] /\ NoDup (kids d) /\ length (kids d) = 2 * length v /\
      (forall i, i < length v ->
         vec (get h (nth (2 * i) (kids d) 0)) = set_nth T i (add (nth i v zero) (mul mone (nth i tols zero))) v /\
         vec (get h (nth (2 * i + 1) (kids d) 0)) = set_nth T i (add (nth i v zero) (mul one (nth i tols zero))) v) /\
      Forall (fun c => d_parents T (get h c) = [id] /\ kids (get h c) = [] /\ c <> id) (kids d))) idss bs.

  Theorem wc_children_thm : forall bs s idss, wc_seq init bs = (s, idss) -> wc_children_stmt s idss bs.
  Proof.
    intros bs s idss Hrun.
    destruct (wc_batches_spec bs init eq_refl eq_refl _ _ Hrun) as (_ & _ & _ & _ & D & _).
    unfold wc_children_stmt. apply (Forall2_impl (Forall2 (wc_done (heap_of s)))); [|exact D].
    intros ids b _ Hb. apply (Forall2_impl (wc_done (heap_of s))); [|exact Hb].
    intros id v _ (lo & L1 & L2 & L3 & L4). cbn zeta.
    destruct (wc_fin_fields (set_children T (evald (fresh v)) (seq lo (length (wcv v)))) (map (fun w => c0 (f w)) (wcv v)))
      as (F1 & F2 & F3 & F4 & F5).
    rewrite L3, F1, F2, F3. cbn [d_vec d_parents d_children set_children evald set_eval fresh].
    rewrite wcv_length in *. repeat split.
    - apply seq_NoDup.
    - apply seq_length.
    - rewrite seq_nth by lia. rewrite L4 by lia. cbn. apply wcv_nth. exact H.
    - rewrite seq_nth by lia. rewrite L4 by lia. cbn. apply wcv_nth. exact H.
    - apply Forall_forall. intros c Hc. apply in_seq in Hc.
      replace c with (lo + (c - lo)) by lia. rewrite L4 by lia. cbn. repeat split. lia.
  Qed.

  (* C14 worstcase_cost_shape *)
  Definition wc_cost_stmt (s : st) (idss : list (list nat)) (bs : list (list (list T))) : Prop :=
    Forall2 (Forall2 (fun id v =>
      let h := heap_of s in let d := get h id in
      d_costs T d = f v ++ [wc_S v] /\
      length (d_costs T d) = m + 1 /\
      wc_S v = psum (map (fun c => abs (sub (c0 (d_costs T d)) (c0 (d_costs T (get h c))))) (kids d)) /\
      d_sens T d = Some (wc_S v) /\
      d_signed T d = map SV (sgn (f v)) ++ [SV (wc_S v); SB (infeas v)] /\
      length (d_signed T d) = length (sgn (f v)) + 2 /\
      d_state T d = EVALUATED /\
      Forall (fun c => d_costs T (get h c) = f (vec (get h c)) /\ d_state T (get h c) = EVALUATED /\
                       d_sens T (get h c) = None) (kids d))) idss bs.

  Theorem wc_cost_shape_thm : (forall v, length (f v) = m) -> 1 <= m ->
    forall bs s idss, wc_seq init bs = (s, idss) -> wc_cost_stmt s idss bs.
  Proof.
    intros Hf Hm bs s idss Hrun.
    destruct (wc_batches_spec bs init eq_refl eq_refl _ _ Hrun) as (_ & _ & _ & _ & D & _).
    unfold wc_cost_stmt. apply (Forall2_impl (Forall2 (wc_done (heap_of s)))); [|exact D].
    intros ids b _ Hb. apply (Forall2_impl (wc_done (heap_of s))); [|exact Hb].
    intros id v _ (lo & L1 & L2 & L3 & L4). cbn zeta.
    rewrite wc_fin_fresh in L3 by apply Hf. rewrite L3. cbn [d_costs d_sens d_signed d_state d_children].
    repeat split.
    - rewrite app_length, Hf. cbn. lia.
    - assert (E0 : c0 (f v ++ [wc_S v]) = c0 (f v)).
      { unfold Evaluators.c0. specialize (Hf v). destruct (f v); [cbn in Hf; lia|reflexivity]. }
      rewrite E0. unfold wc_S. apply (f_equal psum). symmetry.
      apply map_seq_nth_gen with (d := []). intros k Hk. rewrite (L4 k Hk). reflexivity.
    - rewrite app_length, map_length. cbn. lia.
    - apply Forall_forall. intros c Hc. apply in_seq in Hc.
      replace c with (lo + (c - lo)) by lia. rewrite L4 by lia. cbn. repeat split.
  Qed.

  (* C14 worstcase_no_reprocessing *)
  Theorem wc_no_reprocessing_thm : forall bs s idss, wc_seq init bs = (s, idss) ->
    s_inds T s = [] /\ s_todo T s = [] /\ s_proc T s = idss /\ NoDup (concat idss) /\
    Forall2 (fun ids b => length ids = length b) idss bs.
  Proof.
    intros bs s idss Hrun.
    destruct (wc_batches_spec bs init eq_refl eq_refl _ _ Hrun) as (I & Td & _ & _ & D & _ & P & _ & U).
    repeat split; try assumption.
    apply (Forall2_impl (Forall2 (wc_done (heap_of s)))); [|exact D].
    intros ids b _ Hb. apply (Forall2_length _ _ _ Hb).
  Qed.

  Lemma flat_map_length_const {A B : Type} (g : A -> list B) (k : nat) (l : list A) :
    (forall x, In x l -> length (g x) = k) -> length (flat_map g l) = k * length l.
  Proof.
    induction l as [|x l IH]; intros Hg; [cbn; lia|]. cbn [flat_map length]. rewrite app_length, IH.
    - rewrite (Hg x (or_introl eq_refl)). lia.
    - intros y Hy. apply Hg. right. exact Hy.
  Qed.

  (* objective calls: the exact log, hence 1 + 2n calls per design *)
  Theorem wc_call_log_thm : forall bs s idss, wc_seq init bs = (s, idss) ->
    s_log T s = flat_map (fun b => b ++ flat_map wcv b) bs /\
    forall n, Forall (Forall (fun v => length v = n)) bs ->
              length (s_log T s) = (1 + 2 * n) * length (concat bs).
  Proof.
    intros bs s idss Hrun.
    destruct (wc_batches_spec bs init eq_refl eq_refl _ _ Hrun) as (_ & _ & _ & _ & _ & L & _).
    cbn [s_log Evaluators.init app] in L. split; [exact L|].
    intros n Hn. rewrite L. clear -Hn. induction bs as [|b bs IH]; [cbn; lia|].
    inversion Hn as [|x l Hb Hbs]; subst. cbn [flat_map concat]. rewrite !app_length, IH by exact Hbs.
    rewrite (flat_map_length_const wcv (2 * n)).
    - lia.
    - intros v Hv. rewrite wcv_length. rewrite Forall_forall in Hb. rewrite (Hb v Hv). reflexivity.
  Qed.

  (* C14 gradient_forward_difference *)
  Definition g_grad_stmt (s : st) (idss : list (list nat)) (bs : list (list (list T))) : Prop :=
    Forall2 (Forall2 (fun id v =>
      let h := heap_of s in let d := get h id in
      vec d = v /\ d_costs T d = f v /\ d_state T d = EVALUATED /\
      d_grad T d = Some (map (fun i => div (sub (c0 (f (set_nth T i (add (nth i v zero) delta) v))) (c0 (f v))) delta)
                             (seq 0 (length v))) /\
      d_grad T d = Some (map (fun c => div (sub (c0 (d_costs T (get h c))) (c0 (d_costs T d))) delta) (kids d)) /\
      length (kids d) = length v /\ NoDup (kids d) /\
      (forall i, i < length v ->
         let c := nth i (kids d) 0 in
         vec (get h c) = set_nth T i (add (nth i v zero) delta) v /\
         d_costs T (get h c) = f (vec (get h c)) /\ d_parents T (get h c) = [id] /\ c <> id))) idss bs.

  Theorem g_forward_difference_thm : forall bs, Forall (fun b => b <> []) bs ->
    exists s idss, g_seq init bs = Some (s, idss) /\ g_grad_stmt s idss bs.
  Proof.
    intros bs Hne.
    destruct (g_batches_spec bs init eq_refl eq_refl Hne) as (s & idss & E & _ & _ & _ & _ & D & _).
    exists s, idss. split; [exact E|].
    unfold g_grad_stmt. apply (Forall2_impl (Forall2 (g_done (heap_of s)))); [|exact D].
    intros ids b _ Hb. apply (Forall2_impl (g_done (heap_of s))); [|exact Hb].
    intros id v _ (lo & L1 & L2 & L3 & L4). cbn zeta. rewrite L3.
    unfold g_fin. cbn [d_vec d_costs d_state d_grad d_children set_grad set_children evald set_eval fresh].
    rewrite gcv_length in *. repeat split.
    - f_equal. rewrite map_map. unfold g_child_vecs. rewrite map_map. reflexivity.
    - f_equal. rewrite map_map. symmetry. rewrite <- (gcv_length v).
      apply map_seq_nth_gen with (d := []). intros k Hk. rewrite gcv_length in Hk. rewrite (L4 k Hk). reflexivity.
    - apply seq_length.
    - apply seq_NoDup.
    - rewrite seq_nth by exact H. rewrite L4 by exact H. cbn. apply gcv_nth. exact H.
    - rewrite seq_nth by exact H. rewrite L4 by exact H. reflexivity.
    - rewrite seq_nth by exact H. rewrite L4 by exact H. reflexivity.
    - rewrite seq_nth by exact H. lia.
  Qed.

  (* C14 gradient_budget: the exact log, hence 1 + n calls per design, n of them extra *)
  Theorem g_budget_thm : forall bs, Forall (fun b => b <> []) bs ->
    exists s idss, g_seq init bs = Some (s, idss) /\
    s_log T s = flat_map (fun b => b ++ flat_map gcv b) bs /\
    forall n, Forall (Forall (fun v => length v = n)) bs ->
              length (s_log T s) = (1 + n) * length (concat bs).
  Proof.
    intros bs Hne.
    destruct (g_batches_spec bs init eq_refl eq_refl Hne) as (s & idss & E & _ & _ & _ & _ & _ & L & _).
    exists s, idss. split; [exact E|]. cbn [s_log Evaluators.init app] in L. split; [exact L|].
    intros n Hn. rewrite L. clear -Hn. induction bs as [|b bs IH]; [cbn; lia|].
    inversion Hn as [|x l Hb Hbs]; subst. cbn [flat_map concat]. rewrite !app_length, IH by exact Hbs.
    rewrite (flat_map_length_const gcv n).
    - lia.
    - intros v Hv. rewrite gcv_length. rewrite Forall_forall in Hb. rewrite (Hb v Hv). reflexivity.
  Qed.

  Theorem g_no_reprocessing_thm : forall bs, Forall (fun b => b <> []) bs ->
    exists s idss, g_seq init bs = Some (s, idss) /\
    s_inds T s = [] /\ s_todo T s = [] /\ s_proc T s = idss /\ NoDup (concat idss) /\
    Forall2 (fun ids b => length ids = length b) idss bs.
  Proof.
    intros bs Hne.
    destruct (g_batches_spec bs init eq_refl eq_refl Hne) as (s & idss & E & I & Td & _ & _ & D & _ & P & _ & U).
    exists s, idss. repeat split; try assumption.
    apply (Forall2_impl (Forall2 (g_done (heap_of s)))); [|exact D].
    intros ids b _ Hb. apply (Forall2_length _ _ _ Hb).
  Qed.
  (* ================= batches that may contain designs that are not fresh ================= *)
  Lemma is_empty_set_children d l : is_empty (set_children T d l) = is_empty d.
  Proof. reflexivity. Qed.
  Lemma evald_set_children d l : evald (set_children T d l) = set_children T (evald d) l.
  Proof. reflexivity. Qed.

  Section GenBatch.
    Variable cv : list T -> list (list T).
    Variable G : design -> list T -> design.
    Variable FIN : list T -> list nat -> design.        (* the finished form of a design, given its children *)
    Variable topform : list T -> design -> Prop.        (* what a submitted design may look like *)
    Hypothesis H_vec : forall v d, topform v d -> vec d = v.
    Hypothesis H_fin : forall v d l, topform v d ->
      G (set_children T (if is_empty d then evald d else d) l) (map (fun w => c0 (f w)) (cv v)) = FIN v l.

    Definition gdone (h : heap) (id : nat) (v : list T) : Prop :=
      exists lo, lo + length (cv v) <= nxt h /\ get h id = FIN v (seq lo (length (cv v))) /\
        forall k, k < length (cv v) -> get h (lo + k) = evald (child_of (nth k (cv v) []) id).

    Lemma grun_spec (sA : st) (ids : list nat) :
      let hA := s_heap T sA in
      s_inds T sA = [] -> s_todo T sA = [] -> NoDup ids -> (forall id, In id ids -> id < nxt hA) ->
      (forall id, In id ids -> topform (vec (get hA id)) (get hA id)) ->
      let sB := fold_left (gen_add cv) ids sA in
      forall hC logC, evs (s_heap T sB, s_log T sB) (s_todo T sB) = (hC, logC) ->
      let hD := fold_left (fun h id => hupd h id (G (get h id) (kid_c0 h (get h id)))) (s_inds T sB) hC in
      s_inds T sB = ids /\
      nxt hA <= nxt hD /\
      (forall j, j < nxt hA -> ~ In j ids -> get hD j = get hA j) /\
      (forall id, In id ids -> exists lo, nxt hA <= lo /\ lo + length (cv (vec (get hA id))) <= nxt hD /\
          get hD id = FIN (vec (get hA id)) (seq lo (length (cv (vec (get hA id))))) /\
          forall k, k < length (cv (vec (get hA id))) ->
                    get hD (lo + k) = evald (child_of (nth k (cv (vec (get hA id))) []) id)) /\
      logC = s_log T sA ++
             flat_map (fun id => (if is_empty (get hA id) then [vec (get hA id)] else []) ++ cv (vec (get hA id))) ids /\
      s_proc T sB = s_proc T sA.
    Proof.
      intros hA Hi Ht Hnd Hlt Htop sB hC logC EC hD.
      pose proof (fold_add_spec cv ids sA Hnd Hlt) as HB. cbn zeta in HB. fold sB in HB. fold hA in HB.
      destruct HB as (NB & OB & PB & IB & TB & DB & XB & LB & RB).
      set (hB := s_heap T sB) in *.
      set (blk := fun id => id :: kids (get hB id)) in *.
      rewrite Hi in IB. rewrite Ht in TB. cbn [app] in IB, TB.
      rewrite TB in EC. rewrite LB in EC.
      destruct (eval_serial_spec _ _ _ DB _ _ EC) as (NC & CA & CB & CC & CL).
      assert (TopC : forall id, In id ids -> exists lo, nxt hA <= lo /\ lo + length (cv (vec (get hA id))) <= nxt hC /\
                 get hB id = set_children T (get hA id) (seq lo (length (cv (vec (get hA id))))) /\
                 get hC id = set_children T (if is_empty (get hA id) then evald (get hA id) else get hA id)
                                           (seq lo (length (cv (vec (get hA id))))) /\
                 (forall k', k' < length (cv (vec (get hA id))) ->
                            get hB (lo + k') = child_of (nth k' (cv (vec (get hA id))) []) id) /\
                 forall k', k' < length (cv (vec (get hA id))) ->
                            get hC (lo + k') = evald (child_of (nth k' (cv (vec (get hA id))) []) id)).
      { intros id Hin. destruct (PB _ Hin) as (lo & B1 & B2 & B3 & B4).
        assert (Hint : In id (flat_map blk ids)).
        { apply in_flat_map. exists id. split; [exact Hin|left; reflexivity]. }
        exists lo. repeat split.
        - exact B1.
        - rewrite NC. exact B2.
        - exact B3.
        - destruct (is_empty (get hB id)) eqn:Em.
          + rewrite (CA _ Hint Em), B3. rewrite B3, is_empty_set_children in Em. rewrite Em. reflexivity.
          + rewrite (CB _ Hint Em), B3. rewrite B3, is_empty_set_children in Em. rewrite Em. reflexivity.
        - exact B4.
        - intros k' Hk'.
          assert (Hint' : In (lo + k') (flat_map blk ids)).
          { apply in_flat_map. exists id. split; [exact Hin|]. right. unfold blk. rewrite B3. cbn.
            apply in_seq. lia. }
          rewrite (CA _ Hint'); rewrite (B4 k' Hk'); reflexivity. }
      assert (KidsC : forall id c, In id ids -> In c (kids (get hC id)) -> ~ In c ids).
      { intros id c Hin Hc Hcin. destruct (TopC id Hin) as (lo & C1 & C2 & _ & C3 & _).
        rewrite C3 in Hc. cbn in Hc. apply in_seq in Hc. apply Hlt in Hcin. lia. }
      pose proof (fold_post_spec G ids hC Hnd KidsC) as HD. cbn zeta in HD.
      unfold hD. rewrite IB. destruct HD as (ND & DA & DO).
      set (hD' := fold_left (fun h id => hupd h id (G (get h id) (kid_c0 h (get h id)))) ids hC) in *.
      repeat split.
      - rewrite ND, NC. exact NB.
      - intros j Hj J1. rewrite DO by exact J1. rewrite CC.
        + apply OB; assumption.
        + intro Hin. destruct (XB _ Hin) as [Hin'|Hge]; [exact (J1 Hin')|lia].
      - intros id Hin. destruct (TopC id Hin) as (lo & C1 & C2 & _ & C3 & _ & C4).
        exists lo. repeat split.
        + exact C1.
        + rewrite ND. exact C2.
        + rewrite (DA _ Hin), C3. rewrite <- (H_fin _ _ (seq lo (length (cv (vec (get hA id))))) (Htop id Hin)).
          f_equal. unfold kid_c0. cbn [d_children set_children].
          apply map_seq_nth_gen with (d := []). intros k' Hk'. rewrite (C4 k' Hk'). reflexivity.
        + intros k' Hk'. rewrite DO; [apply C4; exact Hk'|].
          intro Hin'. apply Hlt in Hin'. lia.
      - rewrite CL. f_equal.
        rewrite filter_flat_map.
        rewrite (flat_map_ext_in _ (fun id => (if is_empty (get hA id) then [id] else []) ++ kids (get hB id))).
        2:{ intros id Hin. destruct (TopC id Hin) as (lo & C1 & C2 & B3 & _ & B4 & _).
            unfold blk. cbn [filter]. rewrite B3 at 1. rewrite is_empty_set_children.
            assert (Hall : filter (fun j => is_empty (get hB j)) (kids (get hB id)) = kids (get hB id)).
            { apply filter_all. intros x Hx. rewrite B3 in Hx. cbn in Hx. apply in_seq in Hx.
              replace x with (lo + (x - lo)) by lia. rewrite B4 by lia. reflexivity. }
            rewrite Hall. destruct (is_empty (get hA id)); reflexivity. }
        rewrite map_flat_map. apply flat_map_ext_in.
        intros id Hin. destruct (TopC id Hin) as (lo & C1 & C2 & B3 & _ & B4 & _).
        rewrite map_app. f_equal.
        + destruct (is_empty (get hA id)); [|reflexivity]. cbn. rewrite B3. reflexivity.
        + rewrite B3. cbn [d_children set_children].
          apply map_seq_nth with (d := []). intros k' Hk'. rewrite (B4 k' Hk'). reflexivity.
      - exact RB.
    Qed.
  End GenBatch.
  (* ---- building a batch from items ---- *)
  Local Notation item := (item T).
  Local Notation mkb := (mk_batch T f sgn infeas nof).

  Fixpoint pre_vecs (items : list item) : list (list T) :=
    match items with [] => [] | Pre v :: r => v :: pre_vecs r | _ :: r => pre_vecs r end.

  (* what an item's cell looks like when the batch is handed to evaluate() *)
  Definition item_cell (h h' : heap) (created : list nat) (it : item) (id : nat) : Prop :=
    match it with
    | New v => get h' id = fresh v /\ nxt h <= id < nxt h'
    | Pre v => get h' id = evald (fresh v) /\ nxt h <= id < nxt h'
    | Old k => id = nth k created 0
    end.

  Lemma mk_batch_spec : forall items (h : heap) log created h' log' ids nw,
    mkb (h, log) created items = ((h', log'), ids, nw) ->
    nxt h' = nxt h + length (new_vecs T items) /\
    (forall j, j < nxt h -> get h' j = get h j) /\
    nw = seq (nxt h) (length (new_vecs T items)) /\
    Forall2 (fun id v => vec (get h' id) = v) nw (new_vecs T items) /\
    Forall2 (item_cell h h' created) items ids /\
    log' = log ++ pre_vecs items /\
    (forall x, In x nw -> In x ids) /\
    Forall2 (fun it id => forall v, it = New v \/ it = Pre v -> In (id, v) (combine nw (new_vecs T items))) items ids /\
    (NoDup created -> (forall c, In c created -> c < nxt h) ->
     NoDup (olds T items) -> Forall (fun k => k < length created) (olds T items) ->
     NoDup ids /\
     forall id, In id ids -> nxt h <= id < nxt h' \/ exists k, In k (olds T items) /\ id = nth k created 0).
  Proof.
    induction items as [|it items IH]; intros h log created h' log' ids nw Hmk.
    - cbn in Hmk. inversion Hmk; subst. cbn. rewrite app_nil_r.
      repeat split; auto; try constructor; try lia. all: try contradiction.
    - destruct it as [v|v|k]; cbn [mk_batch alloc fst snd] in Hmk.
      + set (h1 := {| h_next := S (nxt h); h_get := fun j => if j =? nxt h then fresh v else get h j |}) in Hmk.
        destruct (mkb (h1, log) created items) as [[hl2 ids2] nw2] eqn:E. inversion Hmk; subst. clear Hmk.
        destruct (IH _ _ _ _ _ _ _ E) as (N & O & W & V & C & L & SUB & PR & D).
        assert (N1 : nxt h1 = S (nxt h)) by reflexivity.
        assert (Gid : get h' (nxt h) = fresh v).
        { rewrite O by (rewrite N1; lia). unfold h1. cbn. rewrite Nat.eqb_refl. reflexivity. }
        cbn [new_vecs length pre_vecs olds]. split; [rewrite N, N1; lia|]. split.
        { intros j Hj. rewrite O by (rewrite N1; lia). unfold h1. cbn.
          assert (Hne : j <> nxt h) by lia. apply Nat.eqb_neq in Hne. rewrite Hne. reflexivity. }
        split; [rewrite W, N1; reflexivity|]. split; [constructor; [rewrite Gid; reflexivity|exact V]|].
        split.
        { constructor.
          - cbn. split; [exact Gid|]. rewrite N, N1. lia.
          - apply (Forall2_impl (item_cell h1 h' created)); [|exact C].
            intros it id _ Hc. destruct it as [w|w|k']; cbn [item_cell] in *; [| |exact Hc].
            + destruct Hc as [A B]. split; [exact A|lia].
            + destruct Hc as [A B]. split; [exact A|lia]. }
        split; [exact L|]. split.
        { intros x [Ex|Hx]; [left; exact Ex|right; apply SUB; exact Hx]. }
        split.
        { constructor.
          - intros w [Ew|Ew]; inversion Ew; subst; left; reflexivity.
          - revert PR. apply Forall2_impl. intros it id _ Hp w Hw. right. apply Hp. exact Hw. }
        intros Hcr Hlt Hnd Hk.
        assert (Hlt1 : forall c, In c created -> c < nxt h1) by (intros c Hc; apply Hlt in Hc; lia).
        destruct (D Hcr Hlt1 Hnd Hk) as [A B]. split.
        * constructor; [|exact A]. intro Hin. destruct (B _ Hin) as [Hr|(k & Hkin & Ek)]; [lia|].
          rewrite Forall_forall in Hk. specialize (Hk k Hkin).
          assert (nxt h < nxt h) by (rewrite Ek at 1; apply Hlt; apply nth_In; exact Hk). lia.
        * intros x [Ex|Hin]; [subst; left; rewrite N, N1; lia|].
          destruct (B _ Hin) as [Hr|Ho]; [left; lia|right; exact Ho].
      + set (h1 := {| h_next := S (nxt h); h_get := fun j => if j =? nxt h then fresh v else get h j |}) in Hmk.
        cbn [Evaluators.job Evaluators.job_att] in Hmk.
        assert (G1 : get h1 (nxt h) = fresh v) by (unfold h1; cbn; rewrite Nat.eqb_refl; reflexivity).
        rewrite G1 in Hmk. cbn [d_vec Evaluators.fresh] in Hmk.
        set (h2 := hupd h1 (nxt h) (set_eval T (fresh v) (f v) (map SV (sgn (f v)) ++ [SB (infeas v)]))) in Hmk.
        destruct (mkb (h2, log ++ [v]) created items) as [[hl2 ids2] nw2] eqn:E. inversion Hmk; subst. clear Hmk.
        destruct (IH _ _ _ _ _ _ _ E) as (N & O & W & V & C & L & SUB & PR & D).
        assert (N2 : nxt h2 = S (nxt h)) by reflexivity.
        assert (Gid : get h' (nxt h) = evald (fresh v)).
        { rewrite O by (rewrite N2; lia). unfold h2. rewrite get_hupd_same. reflexivity. }
        cbn [new_vecs length pre_vecs olds]. split; [rewrite N, N2; lia|]. split.
        { intros j Hj. rewrite O by (rewrite N2; lia). unfold h2. rewrite get_hupd_other by lia. unfold h1. cbn.
          assert (Hne : j <> nxt h) by lia. apply Nat.eqb_neq in Hne. rewrite Hne. reflexivity. }
        split; [rewrite W, N2; reflexivity|]. split; [constructor; [rewrite Gid; reflexivity|exact V]|].
        split.
        { constructor.
          - cbn. split; [exact Gid|]. rewrite N, N2. lia.
          - apply (Forall2_impl (item_cell h2 h' created)); [|exact C].
            intros it id _ Hc. destruct it as [w|w|k']; cbn [item_cell] in *; [| |exact Hc].
            + destruct Hc as [A B]. split; [exact A|lia].
            + destruct Hc as [A B]. split; [exact A|lia]. }
        split; [rewrite L, <- app_assoc; reflexivity|]. split.
        { intros x [Ex|Hx]; [left; exact Ex|right; apply SUB; exact Hx]. }
        split.
        { constructor.
          - intros w [Ew|Ew]; inversion Ew; subst; left; reflexivity.
          - revert PR. apply Forall2_impl. intros it id _ Hp w Hw. right. apply Hp. exact Hw. }
        intros Hcr Hlt Hnd Hk.
        assert (Hlt1 : forall c, In c created -> c < nxt h2) by (intros c Hc; apply Hlt in Hc; lia).
        destruct (D Hcr Hlt1 Hnd Hk) as [A B]. split.
        * constructor; [|exact A]. intro Hin. destruct (B _ Hin) as [Hr|(k & Hkin & Ek)]; [lia|].
          rewrite Forall_forall in Hk. specialize (Hk k Hkin).
          assert (nxt h < nxt h) by (rewrite Ek at 1; apply Hlt; apply nth_In; exact Hk). lia.
        * intros x [Ex|Hin]; [subst; left; rewrite N, N2; lia|].
          destruct (B _ Hin) as [Hr|Ho]; [left; lia|right; exact Ho].
      + destruct (mkb (h, log) created items) as [[hl2 ids2] nw2] eqn:E. inversion Hmk; subst. clear Hmk.
        destruct (IH _ _ _ _ _ _ _ E) as (N & O & W & V & C & L & SUB & PR & D).
        cbn [new_vecs pre_vecs olds].
        split; [exact N|]. split; [exact O|]. split; [exact W|]. split; [exact V|].
        split; [constructor; [reflexivity|exact C]|]. split; [exact L|].
        split; [intros x Hx; right; apply SUB; exact Hx|].
        split; [constructor; [intros w [Ew|Ew]; discriminate Ew|exact PR]|].
        intros Hcr Hlt Hnd Hk.
        inversion Hnd as [|x l Hnotin Hnd']; subst. inversion Hk as [|x l Hk1 Hk']; subst.
        destruct (D Hcr Hlt Hnd' Hk') as [A B]. split.
        * constructor; [|exact A]. intro Hin. destruct (B _ Hin) as [Hr|(k' & Hkin & Ek)].
          -- assert (nth k created 0 < nxt h) by (apply Hlt; apply nth_In; exact Hk1). lia.
          -- rewrite Forall_forall in Hk'. specialize (Hk' k' Hkin).
             apply (proj1 (NoDup_nth created 0) Hcr) in Ek; [|assumption|assumption]. subst. exact (Hnotin Hkin).
        * intros x [Ex|Hin].
          -- right. exists k. split; [left; reflexivity|]. symmetry. exact Ex.
          -- destruct (B _ Hin) as [Hr|(k' & Hkin & Ek)]; [left; exact Hr|right; exists k'; split; [right; exact Hkin|exact Ek]].
  Qed.
  (* ---- list facts for the history induction ---- *)
  Lemma combine_app_eq {A B : Type} (a b : list A) (c d : list B) :
    length a = length c -> combine (a ++ b) (c ++ d) = combine a c ++ combine b d.
  Proof.
    revert c. induction a as [|x a IH]; intros [|y c] Hl; cbn in *; try discriminate; [reflexivity|].
    f_equal. apply IH. lia.
  Qed.

  Lemma in_combine_nth {A B : Type} (a : list A) (c : list B) da dc k :
    k < length a -> length a = length c -> In (nth k a da, nth k c dc) (combine a c).
  Proof.
    revert c k. induction a as [|x a IH]; intros [|y c] k Hk Hl; cbn in *; try lia.
    destruct k as [|k]; [left; reflexivity|]. right. apply IH; lia.
  Qed.

  Lemma in_olds k (items : list item) : In (Old k) items -> In k (olds T items).
  Proof.
    induction items as [|it items IH]; intros Hin; [destruct Hin|].
    destruct Hin as [E|Hin]; [subst; left; reflexivity|].
    destruct it; cbn; auto.
  Qed.

  Lemma Forall2_in_l {A B : Type} (R : A -> B -> Prop) l1 l2 a :
    Forall2 R l1 l2 -> In a l1 -> exists b, In b l2 /\ R a b.
  Proof.
    induction 1 as [|x y l1 l2 Hxy H IH]; intros Hin; [destruct Hin|].
    destruct Hin as [E|Hin]; [subst; exists y; split; [left; reflexivity|exact Hxy]|].
    destruct (IH Hin) as (b & Hb & Hr). exists b. split; [right; exact Hb|exact Hr].
  Qed.

  Lemma Forall2_in_r {A B : Type} (R : A -> B -> Prop) l1 l2 b :
    Forall2 R l1 l2 -> In b l2 -> exists a, In a l1 /\ R a b.
  Proof.
    induction 1 as [|x y l1 l2 Hxy H IH]; intros Hin; [destruct Hin|].
    destruct Hin as [E|Hin]; [subst; exists x; split; [left; reflexivity|exact Hxy]|].
    destruct (IH Hin) as (a & Ha & Hr). exists a. split; [right; exact Ha|exact Hr].
  Qed.

  Lemma Forall2_and {A B : Type} (R1 R2 : A -> B -> Prop) l1 l2 :
    Forall2 R1 l1 l2 -> Forall2 R2 l1 l2 -> Forall2 (fun a b => R1 a b /\ R2 a b) l1 l2.
  Proof. induction 1; intros H2; inversion H2; subst; constructor; auto. Qed.

  Lemma Forall2_map_eq {A B C : Type} (g1 : A -> C) (g2 : B -> C) l1 l2 :
    Forall2 (fun a b => g1 a = g2 b) l1 l2 -> map g1 l1 = map g2 l2.
  Proof. induction 1; cbn; congruence. Qed.

  Definition is_new (it : item) : bool := match it with New _ => true | _ => false end.
  Definition item_info (cvecs : list (list T)) (it : item) : bool * list T := (is_new it, item_vec T cvecs it).

  Section GenHist.
    Variable cv : list T -> list (list T).
    Variable FIN : list T -> list nat -> design.
    Variable topform : list T -> design -> Prop.
    Hypothesis H_vec : forall v d, topform v d -> vec d = v.
    Hypothesis H_clo : forall v l, topform v (FIN v l).
    Hypothesis H_fresh : forall v, topform v (fresh v).
    Hypothesis H_pre : forall v, topform v (evald (fresh v)).
    Hypothesis H_par : forall v l, d_parents T (FIN v l) = [].
    Hypothesis H_emp : forall v l, is_empty (FIN v l) = false.

    Variable ev : st -> list nat -> option st.
    Variable L : list (bool * list T) -> list (list T).      (* objective calls of one evaluate() *)
    Variable ok : nat -> Prop.
    Hypothesis ev_spec : forall (s : st) ids, ok (length ids) ->
      s_inds T s = [] -> s_todo T s = [] -> NoDup ids -> (forall id, In id ids -> id < nxt (s_heap T s)) ->
      (forall id, In id ids -> topform (vec (get (s_heap T s) id)) (get (s_heap T s) id)) ->
      exists s', ev s ids = Some s' /\
        s_inds T s' = [] /\ s_todo T s' = [] /\ nxt (s_heap T s) <= nxt (s_heap T s') /\
        (forall j, j < nxt (s_heap T s) -> ~ In j ids -> get (s_heap T s') j = get (s_heap T s) j) /\
        (forall id, In id ids -> gdone cv FIN (s_heap T s') id (vec (get (s_heap T s) id))) /\
        s_log T s' = s_log T s ++ L (map (fun id => (is_empty (get (s_heap T s) id), vec (get (s_heap T s) id))) ids) /\
        s_proc T s' = s_proc T s ++ [ids].

    Fixpoint gen_hist (s : st) (created : list nat) (bs : list (list item)) : option (st * list (list nat)) :=
      match bs with
      | [] => Some (s, [])
      | b :: bs' =>
          let '(hl, ids, nw) := mkb (s_heap T s, s_log T s) created b in
          match ev (with_hl T s hl) ids with
          | None => None
          | Some s1 => match gen_hist s1 (created ++ nw) bs' with
                       | None => None
                       | Some (s2, idss) => Some (s2, ids :: idss)
                       end
          end
      end.

    Fixpoint hist_log (cvecs : list (list T)) (bs : list (list item)) : list (list T) :=
      match bs with
      | [] => []
      | b :: bs' => (pre_vecs b ++ L (map (item_info cvecs) b)) ++ hist_log (cvecs ++ new_vecs T b) bs'
      end.

    Definition Inv (s : st) (created : list nat) (cvecs : list (list T)) : Prop :=
      s_inds T s = [] /\ s_todo T s = [] /\ NoDup created /\ length created = length cvecs /\
      (forall c, In c created -> c < nxt (s_heap T s)) /\
      forall id v, In (id, v) (combine created cvecs) -> gdone cv FIN (s_heap T s) id v.

    Lemma vec_FIN v l : vec (FIN v l) = v.
    Proof. apply H_vec. apply H_clo. Qed.

    Lemma gen_hist_spec : forall bs s created cvecs,
      Inv s created cvecs -> wf_hist T (length created) bs -> Forall (fun b => ok (length b)) bs ->
      exists s' idss created' cvecs',
        gen_hist s created bs = Some (s', idss) /\ Inv s' created' cvecs' /\
        (forall p, In p (combine created cvecs) -> In p (combine created' cvecs')) /\
        Forall2 (Forall2 (fun id v => In (id, v) (combine created' cvecs'))) idss (hist_vecs T cvecs bs) /\
        s_proc T s' = s_proc T s ++ idss /\ s_log T s' = s_log T s ++ hist_log cvecs bs.
    Proof.
      induction bs as [|b bs IH]; intros s created cvecs HI Hwf Hok.
      - exists s, [], created, cvecs. cbn. rewrite !app_nil_r.
        split; [reflexivity|]. split; [exact HI|]. split; [auto|]. split; [constructor|]. split; reflexivity.
      - destruct HI as (Hi & Ht & Hcr & Hlen & Hlt & Hdone).
        cbn [wf_hist] in Hwf. destruct Hwf as (Wnd & Wk & Wrest).
        inversion Hok as [|x l Hokb Hokrest]; subst.
        cbn [gen_hist].
        destruct (mkb (s_heap T s, s_log T s) created b) as [[[h1 log1] ids] nw] eqn:Emk.
        destruct (mk_batch_spec _ _ _ _ _ _ _ _ Emk) as (N & O & W & V & C & LG & SUB & PR & D).
        destruct (D Hcr Hlt Wnd Wk) as [Hnd Hloc].
        set (h := s_heap T s) in *.
        set (s1 := with_hl T s (h1, log1)).
        assert (Hlenids : length ids = length b) by (symmetry; apply (Forall2_length _ _ _ C)).
        (* facts about every cell of the batch, from its item *)
        assert (Cell : forall it id, In it b -> item_cell h h1 created it id ->
                   id < nxt h1 /\ topform (item_vec T cvecs it) (get h1 id) /\
                   is_empty (get h1 id) = is_new it /\ In (id, item_vec T cvecs it) (combine (created ++ nw) (cvecs ++ new_vecs T b)) \/
                   (exists v, it = New v \/ it = Pre v)).
        { intros it id Hit Hc. destruct it as [v|v|k]; [right; exists v; left; reflexivity|right; exists v; right; reflexivity|].
          left. cbn in Hc. subst id.
          assert (Hk : k < length created).
          { rewrite Forall_forall in Wk. apply Wk. apply in_olds. exact Hit. }
          assert (Hin : In (nth k created 0) created) by (apply nth_In; exact Hk).
          assert (Hp : In (nth k created 0, nth k cvecs []) (combine created cvecs)) by (apply in_combine_nth; assumption).
          destruct (Hdone _ _ Hp) as (lo & D1 & D2 & D3).
          assert (Hlt0 : nth k created 0 < nxt h) by (apply Hlt; exact Hin).
          repeat split.
          - lia.
          - rewrite O by exact Hlt0. rewrite D2. cbn. apply H_clo.
          - rewrite O by exact Hlt0. rewrite D2. apply H_emp.
          - cbn. rewrite combine_app_eq by exact Hlen. apply in_or_app. left. exact Hp. }
        assert (CellN : forall it id, In it b -> item_cell h h1 created it id ->
                   (forall v, it = New v \/ it = Pre v -> In (id, v) (combine nw (new_vecs T b))) ->
                   id < nxt h1 /\ topform (item_vec T cvecs it) (get h1 id) /\
                   is_empty (get h1 id) = is_new it /\ In (id, item_vec T cvecs it) (combine (created ++ nw) (cvecs ++ new_vecs T b))).
        { intros it id Hit Hc Hp. destruct (Cell it id Hit Hc) as [Hold|(v & Hv)]; [exact Hold|].
          assert (Hpair : In (id, v) (combine (created ++ nw) (cvecs ++ new_vecs T b))).
          { rewrite combine_app_eq by exact Hlen. apply in_or_app. right. apply Hp. exact Hv. }
          destruct Hv as [E|E]; subst it; cbn in Hc; destruct Hc as [G1 B1]; cbn [item_vec is_new]; rewrite G1; repeat split.
          - lia.
          - apply H_fresh.
          - exact Hpair.
          - lia.
          - apply H_pre.
          - exact Hpair. }
        assert (CP : Forall2 (fun it id => In it b /\ item_cell h h1 created it id /\
                                (forall v, it = New v \/ it = Pre v -> In (id, v) (combine nw (new_vecs T b)))) b ids).
        { assert (Hself : Forall2 (fun it (id : nat) => In it b) b ids).
          { clear -C. assert (G : forall l, (forall x, In x l -> In x b) -> forall ids', Forall2 (item_cell h h1 created) l ids' ->
                                            Forall2 (fun it (id : nat) => In it b) l ids').
            { induction l as [|x l IHl]; intros Hsub ids' HF; inversion HF; subst; constructor.
              - apply Hsub. left. reflexivity.
              - apply IHl; [intros z Hz; apply Hsub; right; exact Hz|assumption]. }
            apply (G b (fun x Hx => Hx) ids C). }
          apply Forall2_and; [exact Hself|]. apply Forall2_and; assumption. }
        assert (CF : Forall2 (fun it id => id < nxt h1 /\ topform (item_vec T cvecs it) (get h1 id) /\
                        is_empty (get h1 id) = is_new it /\
                        In (id, item_vec T cvecs it) (combine (created ++ nw) (cvecs ++ new_vecs T b))) b ids).
        { revert CP. apply Forall2_impl. intros it id _ (A1 & A2 & A3). apply CellN; assumption. }
        assert (Hvecs : forall it id, In (id : nat) ids -> topform (item_vec T cvecs it) (get h1 id) -> vec (get h1 id) = item_vec T cvecs it)
          by (intros it id _ Htp; apply H_vec; exact Htp).
        (* preconditions of the evaluator *)
        assert (P1 : forall id, In id ids -> id < nxt (s_heap T s1)).
        { intros id Hin. destruct (Forall2_in_r _ _ _ _ CF Hin) as (it & _ & A & _). exact A. }
        assert (P2 : forall id, In id ids -> topform (vec (get (s_heap T s1) id)) (get (s_heap T s1) id)).
        { intros id Hin. destruct (Forall2_in_r _ _ _ _ CF Hin) as (it & _ & _ & A & _).
          unfold s1. cbn [s_heap with_hl fst]. rewrite (H_vec _ _ A). exact A. }
        assert (Hok1 : ok (length ids)) by (rewrite Hlenids; exact Hokb).
        destruct (ev_spec s1 ids Hok1 Hi Ht Hnd P1 P2) as (s2 & E2 & I2 & T2 & N2 & O2 & G2 & L2 & R2).
        rewrite E2. unfold s1 in N2, O2, G2, L2, R2. cbn [s_heap with_hl fst snd s_log s_proc] in N2, O2, G2, L2, R2.
        set (h2 := s_heap T s2) in *.
        (* the invariant after the batch *)
        assert (HI2 : Inv s2 (created ++ nw) (cvecs ++ new_vecs T b)).
        { assert (Hnwlen : length nw = length (new_vecs T b)) by (rewrite W, seq_length; reflexivity).
          unfold Inv. fold h2.
          split; [exact I2|]. split; [exact T2|]. split.
          { apply NoDup_app_intro; [exact Hcr|rewrite W; apply seq_NoDup|].
            intros x Hx Hx2. rewrite W in Hx2. apply in_seq in Hx2. apply Hlt in Hx. lia. }
          split; [rewrite !app_length; lia|]. split.
          { intros c Hc. apply in_app_or in Hc. destruct Hc as [Hc|Hc].
            - apply Hlt in Hc. lia.
            - rewrite W in Hc. apply in_seq in Hc. lia. }
          intros id v Hp. rewrite combine_app_eq in Hp by exact Hlen. apply in_app_or in Hp.
          destruct (in_dec Nat.eq_dec id ids) as [Hin|Hnin].
          - (* processed in this batch *)
            assert (Ev : vec (get h1 id) = v).
            { destruct Hp as [Hp|Hp].
              - destruct (Hdone _ _ Hp) as (lo & D1 & D2 & D3).
                assert (id < nxt h) by (apply Hlt; apply in_combine_l in Hp; exact Hp).
                rewrite O by assumption. rewrite D2. apply vec_FIN.
              - assert (Hv2 : Forall2 (fun id v => vec (get h1 id) = v) nw (new_vecs T b)) by exact V.
                clear -Hp Hv2. induction Hv2 as [|x0 y0 l1 l2 Hxy0 Hv2 IHv]; [destruct Hp|].
                destruct Hp as [E|Hp]; [inversion E; subst; first [reflexivity|assumption]|apply IHv; exact Hp]. }
            rewrite <- Ev. apply G2. exact Hin.
          - destruct Hp as [Hp|Hp].
            + (* an older design that is not in this batch: untouched, and so are its children *)
              destruct (Hdone _ _ Hp) as (lo & D1 & D2 & D3).
              assert (Hidlt : id < nxt h) by (apply Hlt; apply in_combine_l in Hp; exact Hp).
              exists lo. split; [lia|]. split.
              * rewrite O2 by (try lia; exact Hnin). rewrite O by exact Hidlt. exact D2.
              * intros k Hk. rewrite O2.
                -- rewrite O by lia. apply D3. exact Hk.
                -- lia.
                -- intro Hin. destruct (Hloc _ Hin) as [Hr|(k' & Hk' & Ek)]; [lia|].
                   rewrite Forall_forall in Wk. specialize (Wk k' Hk').
                   assert (Hp' : In (nth k' created 0, nth k' cvecs []) (combine created cvecs)) by (apply in_combine_nth; assumption).
                   destruct (Hdone _ _ Hp') as (lo' & D1' & D2' & D3').
                   rewrite <- Ek in D2'. rewrite (D3 k Hk) in D2'.
                   apply (f_equal (d_parents T)) in D2'. rewrite H_par in D2'. cbn in D2'. discriminate D2'.
            + exfalso. apply Hnin. apply SUB. apply in_combine_l in Hp. exact Hp. }
        assert (Wrest' : wf_hist T (length (created ++ nw)) bs).
        { rewrite app_length, W, seq_length. exact Wrest. }
        destruct (IH s2 (created ++ nw) (cvecs ++ new_vecs T b) HI2 Wrest' Hokrest)
          as (s' & idss & created' & cvecs' & E3 & I3 & M3 & F3 & R3 & L3).
        rewrite E3. exists s', (ids :: idss), created', cvecs'. split; [reflexivity|]. split; [exact I3|]. split.
        { intros p Hp. apply M3. rewrite combine_app_eq by exact Hlen. apply in_or_app. left. exact Hp. }
        split.
        { cbn [hist_vecs]. constructor; [|exact F3].
          assert (Q : Forall2 (fun it id => In (id, item_vec T cvecs it) (combine created' cvecs')) b ids).
          { revert CF. apply Forall2_impl. intros it id _ (_ & _ & _ & A). apply M3. exact A. }
          clear -Q. induction Q; cbn; constructor; assumption. }
        split; [rewrite R3, R2, <- app_assoc; reflexivity|].
        rewrite L3, L2, LG. cbn [hist_log]. rewrite <- !app_assoc. do 2 f_equal.
        apply (f_equal (fun x => L x ++ hist_log (cvecs ++ new_vecs T b) bs)). symmetry.
        apply Forall2_map_eq.
        revert CF. apply Forall2_impl. intros it id _ (_ & A & B & _). unfold item_info. rewrite B, (H_vec _ _ A). reflexivity.
    Qed.
  End GenHist.
  (* ---- the two evaluators as instances ---- *)
  Lemma set_last_snoc {A : Type} (x y : A) l : set_last x (l ++ [y]) = l ++ [x].
  Proof.
    induction l as [|z l IH]; [reflexivity|]. destruct l as [|w l]; [reflexivity|].
    change (set_last x ((z :: w :: l) ++ [y])) with (z :: set_last x ((w :: l) ++ [y])). rewrite IH. reflexivity.
  Qed.
  Lemma set_m2_snoc2 {A : Type} (x y z : A) l : set_m2 x (l ++ [y; z]) = l ++ [x; z].
  Proof.
    induction l as [|w l IH]; [reflexivity|]. cbn [app]. destruct l as [|w2 l]; [reflexivity|].
    cbn [app] in *. destruct (l ++ [y; z]) as [|a t] eqn:E; [destruct l; discriminate|].
    change (set_m2 x (w :: w2 :: a :: t)) with (w :: set_m2 x (w2 :: a :: t)). rewrite IH. reflexivity.
  Qed.

  Lemma set_children_twice d l : set_children T d l = set_children T (set_children T d []) l.
  Proof. reflexivity. Qed.

  Lemma filter_info_vecs (h : heap) ids :
    map snd (filter fst (map (fun id => (is_empty (get h id), vec (get h id))) ids)) =
    map (fun j => vec (get h j)) (filter (fun j => is_empty (get h j)) ids).
  Proof.
    induction ids as [|id ids IH]; [reflexivity|]. cbn [map filter fst].
    destruct (is_empty (get h id)); cbn [map snd]; rewrite IH; reflexivity.
  Qed.

  Definition FINw (v : list T) (l : list nat) : design :=
    {| d_vec := v; d_costs := f v ++ [wc_S v];
       d_signed := map SV (sgn (f v)) ++ [SV (wc_S v); SB (infeas v)];
       d_state := EVALUATED; d_parents := []; d_children := l; d_sens := Some (wc_S v); d_grad := None; d_fail := 0 |}.
  Definition topform_w (v : list T) (d : design) : Prop :=
    set_children T d [] = fresh v \/ set_children T d [] = evald (fresh v) \/ set_children T d [] = FINw v [].

  Definition g_grad (v : list T) : list T := map (fun w => div (sub (c0 (f w)) (c0 (f v))) delta) (gcv v).
  Definition FINg (v : list T) (l : list nat) : design :=
    {| d_vec := v; d_costs := f v; d_signed := map SV (sgn (f v)) ++ [SB (infeas v)];
       d_state := EVALUATED; d_parents := []; d_children := l; d_sens := None; d_grad := Some (g_grad v); d_fail := 0 |}.
  Definition topform_g (v : list T) (d : design) : Prop :=
    set_children T d [] = fresh v \/ set_children T d [] = evald (fresh v) \/ set_children T d [] = FINg v [].

  (* objective calls of one evaluate(), from (is the design still EMPTY, its vector) per submitted design *)
  Definition L_wc (infos : list (bool * list T)) : list (list T) :=
    map snd (filter fst infos) ++ flat_map (fun p : bool * list T => wcv (snd p)) infos.
  Definition L_g (infos : list (bool * list T)) : list (list T) :=
    map snd (filter fst infos) ++ flat_map (fun p : bool * list T => gcv (snd p)) infos.

  Lemma topform_w_vec v d : topform_w v d -> vec d = v.
  Proof. intros [E|[E|E]]; apply (f_equal vec) in E; exact E. Qed.
  Lemma topform_g_vec v d : topform_g v d -> vec d = v.
  Proof. intros [E|[E|E]]; apply (f_equal vec) in E; exact E. Qed.

  Lemma g_fin_top v d l : topform_g v d ->
    g_fin (set_children T (if is_empty d then evald d else d) l) (map (fun w => c0 (f w)) (gcv v)) = FINg v l.
  Proof.
    intros Ht. rewrite <- (is_empty_set_children d []).
    assert (E1 : set_children T (evald d) l = set_children T (evald (set_children T d [])) l) by reflexivity.
    assert (E2 : set_children T d l = set_children T (set_children T d []) l) by reflexivity.
    destruct Ht as [E|[E|E]]; rewrite E; cbn [is_empty d_state Evaluators.fresh evald set_eval FINg].
    - rewrite E1, E. unfold g_fin, FINg, g_grad. cbn. rewrite map_map. reflexivity.
    - rewrite E2, E. unfold g_fin, FINg, g_grad. cbn. rewrite map_map. reflexivity.
    - rewrite E2, E. unfold g_fin, FINg, g_grad. cbn. rewrite map_map. reflexivity.
  Qed.

  Section WCInst.
    Hypothesis Hf : forall v, length (f v) = m.
    Hypothesis Hm : 1 <= m.

    Lemma c0_snoc v x : c0 (f v ++ [x]) = c0 (f v).
    Proof. unfold Evaluators.c0. specialize (Hf v). destruct (f v); [cbn in Hf; lia|reflexivity]. Qed.

    Lemma wc_fin_top v d l : topform_w v d ->
      wc_fin (set_children T (if is_empty d then evald d else d) l) (map (fun w => c0 (f w)) (wcv v)) = FINw v l.
    Proof.
      intros Ht. rewrite <- (is_empty_set_children d []).
      assert (E1 : set_children T (evald d) l = set_children T (evald (set_children T d [])) l) by reflexivity.
      assert (E2 : set_children T d l = set_children T (set_children T d []) l) by reflexivity.
      destruct Ht as [E|[E|E]]; rewrite E; cbn [is_empty d_state Evaluators.fresh evald set_eval FINw].
      - rewrite E1, E. apply wc_fin_fresh. apply Hf.
      - rewrite E2, E. apply (wc_fin_fresh v l (Hf v)).
      - rewrite E2, E. unfold wc_fin, FINw. cbn [d_costs set_children d_signed].
        rewrite app_length, Hf. cbn [length].
        assert (Eg : S m <=? m + 1 = true) by (apply Nat.leb_le; lia). rewrite Eg.
        rewrite map_map, c0_snoc. fold (wc_S v). rewrite set_last_snoc.
        rewrite (set_m2_snoc2 (SV (wc_S v)) (SV (wc_S v)) (SB (infeas v))). reflexivity.
    Qed.
    Lemma topform_w_after_eval v d : topform_w v d -> topform_w v (if is_empty d then evald d else d).
    Proof.
      intros Ht. destruct (is_empty d) eqn:Em; [|exact Ht].
      rewrite <- (is_empty_set_children d []) in Em.
      destruct Ht as [E|[E|E]]; rewrite E in Em; try discriminate Em.
      right. left. change (set_children T (evald d) []) with (evald (set_children T d [])). rewrite E. reflexivity.
    Qed.

    Lemma wc_ev_spec (s : st) ids : True ->
      s_inds T s = [] -> s_todo T s = [] -> NoDup ids -> (forall id, In id ids -> id < nxt (s_heap T s)) ->
      (forall id, In id ids -> topform_w (vec (get (s_heap T s) id)) (get (s_heap T s) id)) ->
      exists s', Some (wc_eval s ids) = Some s' /\
        s_inds T s' = [] /\ s_todo T s' = [] /\ nxt (s_heap T s) <= nxt (s_heap T s') /\
        (forall j, j < nxt (s_heap T s) -> ~ In j ids -> get (s_heap T s') j = get (s_heap T s) j) /\
        (forall id, In id ids -> gdone wcv FINw (s_heap T s') id (vec (get (s_heap T s) id))) /\
        s_log T s' = s_log T s ++ L_wc (map (fun id => (is_empty (get (s_heap T s) id), vec (get (s_heap T s) id))) ids) /\
        s_proc T s' = s_proc T s ++ [ids].
    Proof.
      intros _ Hi Ht Hnd Hlt Htop. eexists. split; [reflexivity|].
      set (h := s_heap T s) in *.
      unfold wc_evaluate. fold h.
      destruct (evs (h, s_log T s) ids) as [hA logA] eqn:EA.
      destruct (eval_serial_spec _ _ _ Hnd _ _ EA) as (NA & AA & AB & AC & AL).
      rewrite Hi, Ht.
      set (sA := {| s_heap := hA; s_inds := []; s_todo := []; s_log := logA; s_proc := s_proc T s |}).
      change (fold_left (wc_add T add mul zero one mone tols) ids sA) with (fold_left (gen_add wcv) ids sA).
      assert (GA : forall id, In id ids -> get hA id = (if is_empty (get h id) then evald (get h id) else get h id)).
      { intros id Hin. destruct (is_empty (get h id)) eqn:Em; [apply AA|apply AB]; assumption. }
      assert (VA : forall id, In id ids -> vec (get hA id) = vec (get h id)).
      { intros id Hin. rewrite (GA id Hin). destruct (is_empty (get h id)); reflexivity. }
      assert (EmA : forall id, In id ids -> is_empty (get hA id) = false).
      { intros id Hin. rewrite (GA id Hin). destruct (is_empty (get h id)) eqn:Em; [reflexivity|exact Em]. }
      assert (Hlt' : forall id, In id ids -> id < nxt (s_heap T sA)) by (intros id Hin; cbn; rewrite NA; apply Hlt; exact Hin).
      assert (Htop' : forall id, In id ids -> topform_w (vec (get (s_heap T sA) id)) (get (s_heap T sA) id)).
      { intros id Hin. cbn [s_heap sA]. rewrite (VA id Hin), (GA id Hin). apply topform_w_after_eval. apply Htop. exact Hin. }
      unfold wc_run.
      set (sB := fold_left (gen_add wcv) ids sA).
      destruct (evs (s_heap T sB, s_log T sB) (s_todo T sB)) as [hC logC] eqn:EC.
      pose proof (grun_spec wcv wc_fin FINw topform_w wc_fin_top sA ids eq_refl eq_refl Hnd Hlt' Htop' hC logC EC) as R.
      cbn zeta in R. fold sB in R. destruct R as (RI & RN & RO & RD & RL & RP).
      rewrite (fold_left_ext _ (fun h id => hupd h id (wc_fin (get h id) (kid_c0 h (get h id)))))
        by (intros; apply wc_post_fin).
      cbn [s_heap s_inds s_todo s_log s_proc]. cbn [s_heap sA] in RN, RO, RD.
      split; [reflexivity|]. split; [reflexivity|]. split; [lia|]. split.
      { intros j Hj Hnin. rewrite RO by (try lia; exact Hnin). apply AC. exact Hnin. }
      split.
      { intros id Hin. destruct (RD id Hin) as (lo & R1 & R2 & R3 & R4). rewrite (VA id Hin) in *.
        exists lo. repeat split; assumption. }
      split.
      { rewrite RL. unfold sA. cbn [s_log s_heap]. rewrite AL. unfold L_wc. rewrite <- app_assoc. f_equal.
        rewrite filter_info_vecs. f_equal.
        rewrite flat_map_map. apply flat_map_ext_in. intros id Hin. cbn [snd].
        rewrite (EmA id Hin), (VA id Hin). reflexivity. }
      rewrite RP, RI. reflexivity.
    Qed.
  End WCInst.
  Lemma topform_g_after_eval v d : topform_g v d -> topform_g v (if is_empty d then evald d else d).
  Proof.
    intros Ht. destruct (is_empty d) eqn:Em; [|exact Ht].
    rewrite <- (is_empty_set_children d []) in Em.
    destruct Ht as [E|[E|E]]; rewrite E in Em; try discriminate Em.
    right. left. change (set_children T (evald d) []) with (evald (set_children T d [])). rewrite E. reflexivity.
  Qed.

  Lemma g_ev_spec (s : st) ids : length ids <> 0 ->
    s_inds T s = [] -> s_todo T s = [] -> NoDup ids -> (forall id, In id ids -> id < nxt (s_heap T s)) ->
    (forall id, In id ids -> topform_g (vec (get (s_heap T s) id)) (get (s_heap T s) id)) ->
    exists s', g_eval s ids = Some s' /\
      s_inds T s' = [] /\ s_todo T s' = [] /\ nxt (s_heap T s) <= nxt (s_heap T s') /\
      (forall j, j < nxt (s_heap T s) -> ~ In j ids -> get (s_heap T s') j = get (s_heap T s) j) /\
      (forall id, In id ids -> gdone gcv FINg (s_heap T s') id (vec (get (s_heap T s) id))) /\
      s_log T s' = s_log T s ++ L_g (map (fun id => (is_empty (get (s_heap T s) id), vec (get (s_heap T s) id))) ids) /\
      s_proc T s' = s_proc T s ++ [ids].
  Proof.
    intros Hne Hi Ht Hnd Hlt Htop.
    set (h := s_heap T s) in *.
    unfold g_evaluate. fold h.
    destruct (evs (h, s_log T s) ids) as [hA logA] eqn:EA.
    destruct (eval_serial_spec _ _ _ Hnd _ _ EA) as (NA & AA & AB & AC & AL).
    rewrite Hi, Ht.
    set (sA := {| s_heap := hA; s_inds := []; s_todo := []; s_log := logA; s_proc := s_proc T s |}).
    change (fold_left (g_add T add zero delta) ids sA) with (fold_left (gen_add gcv) ids sA).
    assert (GA : forall id, In id ids -> get hA id = (if is_empty (get h id) then evald (get h id) else get h id)).
    { intros id Hin. destruct (is_empty (get h id)) eqn:Em; [apply AA|apply AB]; assumption. }
    assert (VA : forall id, In id ids -> vec (get hA id) = vec (get h id)).
    { intros id Hin. rewrite (GA id Hin). destruct (is_empty (get h id)); reflexivity. }
    assert (EmA : forall id, In id ids -> is_empty (get hA id) = false).
    { intros id Hin. rewrite (GA id Hin). destruct (is_empty (get h id)) eqn:Em; [reflexivity|exact Em]. }
    assert (Hlt' : forall id, In id ids -> id < nxt (s_heap T sA)) by (intros id Hin; cbn; rewrite NA; apply Hlt; exact Hin).
    assert (Htop' : forall id, In id ids -> topform_g (vec (get (s_heap T sA) id)) (get (s_heap T sA) id)).
    { intros id Hin. cbn [s_heap sA]. rewrite (VA id Hin), (GA id Hin). apply topform_g_after_eval. apply Htop. exact Hin. }
    set (sB := fold_left (gen_add gcv) ids sA).
    destruct (evs (s_heap T sB, s_log T sB) (s_todo T sB)) as [hC logC] eqn:EC.
    pose proof (grun_spec gcv g_fin FINg topform_g g_fin_top sA ids eq_refl eq_refl Hnd Hlt' Htop' hC logC EC) as R.
    cbn zeta in R. fold sB in R. destruct R as (RI & RN & RO & RD & RL & RP).
    unfold g_run. rewrite EC.
    destruct (s_inds T sB) as [|i0 irest] eqn:EI.
    - exfalso. apply Hne. rewrite <- RI. reflexivity.
    - eexists. split; [reflexivity|].
      rewrite (fold_left_ext _ (fun h id => hupd h id (g_fin (get h id) (kid_c0 h (get h id)))))
        by (intros; apply g_post_fin).
      cbn [s_heap s_inds s_todo s_log s_proc]. cbn [s_heap sA] in RN, RO, RD.
      split; [reflexivity|]. split; [reflexivity|]. split; [lia|]. split.
      { intros j Hj Hnin. rewrite RO by (try lia; exact Hnin). apply AC. exact Hnin. }
      split.
      { intros id Hin. destruct (RD id Hin) as (lo & R1 & R2 & R3 & R4). rewrite (VA id Hin) in *.
        exists lo. repeat split; assumption. }
      split.
      { rewrite RL. unfold sA. cbn [s_log s_heap]. rewrite AL. unfold L_g. rewrite <- app_assoc. f_equal.
        rewrite filter_info_vecs. f_equal.
        rewrite flat_map_map. apply flat_map_ext_in. intros id Hin. cbn [snd].
        rewrite (EmA id Hin), (VA id Hin). reflexivity. }
      rewrite RP, RI. reflexivity.
  Qed.

  (* the model's history functions are the generic one *)
  Lemma wc_hist_gen : forall bs s created,
    gen_hist (fun s ids => Some (wc_eval s ids)) s created bs =
    Some (wc_hist T add sub mul abs zero one mone psum m tols f sgn infeas nof s created bs).
  Proof.
    induction bs as [|b bs IH]; intros s created; [reflexivity|].
    cbn [gen_hist wc_hist]. destruct (mkb (s_heap T s, s_log T s) created b) as [[hl ids] nw].
    rewrite IH. destruct (wc_hist T add sub mul abs zero one mone psum m tols f sgn infeas nof
                                  (wc_eval (with_hl T s hl) ids) (created ++ nw) bs). reflexivity.
  Qed.

  Lemma g_hist_gen : forall bs s created,
    gen_hist g_eval s created bs = g_hist T add sub div zero delta f sgn infeas nof s created bs.
  Proof.
    induction bs as [|b bs IH]; intros s created; [reflexivity|].
    cbn [gen_hist g_hist]. destruct (mkb (s_heap T s, s_log T s) created b) as [[hl ids] nw].
    destruct (g_eval (with_hl T s hl) ids); [|reflexivity]. rewrite IH. reflexivity.
  Qed.

  Lemma Inv_init cv FIN : Inv cv FIN init [] [].
  Proof. unfold Inv. cbn. repeat split; auto; try constructor; intros; contradiction. Qed.

  (* what a processed design looks like, whatever was submitted before or after *)
  Definition wc_shape (h : heap) (id : nat) (v : list T) : Prop :=
    let d := get h id in
    vec d = v /\ d_parents T d = [] /\
    d_costs T d = f v ++ [wc_S v] /\ length (d_costs T d) = m + 1 /\
    wc_S v = psum (map (fun c => abs (sub (c0 (d_costs T d)) (c0 (d_costs T (get h c))))) (kids d)) /\
    d_sens T d = Some (wc_S v) /\
    d_signed T d = map SV (sgn (f v)) ++ [SV (wc_S v); SB (infeas v)] /\
    length (d_signed T d) = length (sgn (f v)) + 2 /\
    d_state T d = EVALUATED /\
    NoDup (kids d) /\ length (kids d) = 2 * length v /\
    map (fun c => vec (get h c)) (kids d) = wcv v /\
    Forall (fun c => d_parents T (get h c) = [id] /\ d_costs T (get h c) = f (vec (get h c)) /\
                     d_state T (get h c) = EVALUATED /\ d_sens T (get h c) = None /\ c <> id) (kids d).

  Definition g_shape (h : heap) (id : nat) (v : list T) : Prop :=
    let d := get h id in
    vec d = v /\ d_parents T d = [] /\ d_costs T d = f v /\ d_state T d = EVALUATED /\
    d_grad T d = Some (map (fun i => div (sub (c0 (f (set_nth T i (add (nth i v zero) delta) v))) (c0 (f v))) delta)
                           (seq 0 (length v))) /\
    d_grad T d = Some (map (fun c => div (sub (c0 (d_costs T (get h c))) (c0 (d_costs T d))) delta) (kids d)) /\
    NoDup (kids d) /\ length (kids d) = length v /\
    map (fun c => vec (get h c)) (kids d) = gcv v /\
    Forall (fun c => d_parents T (get h c) = [id] /\ d_costs T (get h c) = f (vec (get h c)) /\
                     d_state T (get h c) = EVALUATED /\ c <> id) (kids d).

  Lemma gdone_wc_shape h id v : (forall v, length (f v) = m) -> 1 <= m -> gdone wcv FINw h id v -> wc_shape h id v.
  Proof.
    intros Hf Hm (lo & L2 & L3 & L4). unfold wc_shape. cbn zeta. rewrite L3.
    cbn [d_vec d_parents d_costs d_sens d_signed d_state d_children FINw].
    split; [reflexivity|]. split; [reflexivity|]. split; [reflexivity|].
    split; [rewrite app_length, Hf; reflexivity|]. split.
    { rewrite (c0_snoc Hf Hm). unfold wc_S. apply (f_equal psum). symmetry.
      apply map_seq_nth_gen with (d := []). intros k Hk. rewrite (L4 k Hk). reflexivity. }
    split; [reflexivity|]. split; [reflexivity|].
    split; [rewrite app_length, map_length; cbn; lia|]. split; [reflexivity|].
    split; [apply seq_NoDup|]. split; [rewrite seq_length; apply wcv_length|]. split.
    { apply map_seq_nth with (d := []). intros k Hk. rewrite (L4 k Hk). reflexivity. }
    apply Forall_forall. intros c Hc. apply in_seq in Hc.
    replace c with (lo + (c - lo)) by lia. rewrite L4 by lia. cbn. repeat split.
    intro E. assert (Hk : c - lo < length (wcv v)) by lia. pose proof (L4 _ Hk) as G1.
    rewrite E, L3 in G1. apply (f_equal (d_parents T)) in G1. cbn in G1. discriminate G1.
  Qed.

  Lemma gdone_g_shape h id v : gdone gcv FINg h id v -> g_shape h id v.
  Proof.
    intros (lo & L2 & L3 & L4). unfold g_shape. cbn zeta. rewrite L3.
    cbn [d_vec d_parents d_costs d_grad d_state d_children FINg].
    split; [reflexivity|]. split; [reflexivity|]. split; [reflexivity|]. split; [reflexivity|]. split.
    { f_equal. unfold g_grad, g_child_vecs. rewrite map_map. reflexivity. }
    split.
    { f_equal. unfold g_grad. symmetry.
      apply map_seq_nth_gen with (d := []). intros k Hk. rewrite (L4 k Hk). reflexivity. }
    split; [apply seq_NoDup|]. split; [rewrite seq_length; apply gcv_length|]. split.
    { apply map_seq_nth with (d := []). intros k Hk. rewrite (L4 k Hk). reflexivity. }
    apply Forall_forall. intros c Hc. apply in_seq in Hc.
    replace c with (lo + (c - lo)) by lia. rewrite L4 by lia. cbn. repeat split.
    intro E. assert (Hk : c - lo < length (gcv v)) by lia. pose proof (L4 _ Hk) as G1.
    rewrite E, L3 in G1. apply (f_equal (d_parents T)) in G1. cbn in G1. discriminate G1.
  Qed.

  (* C14 worstcase_cost_shape, for histories with resubmitted and pre-evaluated designs *)
  Theorem wc_hist_thm : (forall v, length (f v) = m) -> 1 <= m ->
    forall bs, wf_hist T 0 bs ->
    forall s idss, wc_hist T add sub mul abs zero one mone psum m tols f sgn infeas nof init [] bs = (s, idss) ->
    s_inds T s = [] /\ s_todo T s = [] /\ s_proc T s = idss /\
    s_log T s = hist_log L_wc [] bs /\
    Forall2 (Forall2 (wc_shape (heap_of s))) idss (hist_vecs T [] bs).
  Proof.
    intros Hf Hm bs Hwf s idss Hrun.
    assert (Hok : Forall (fun b : list item => True) bs) by (apply Forall_forall; intros; exact I).
    destruct (gen_hist_spec wcv FINw topform_w topform_w_vec
                (fun v l => or_intror (or_intror eq_refl)) (fun v => or_introl eq_refl) (fun v => or_intror (or_introl eq_refl))
                (fun v l => eq_refl) (fun v l => eq_refl)
                (fun s ids => Some (wc_eval s ids)) L_wc (fun _ => True) (wc_ev_spec Hf Hm)
                bs init [] [] (Inv_init wcv FINw) Hwf Hok)
      as (s' & idss' & created' & cvecs' & E & I' & _ & F & P & L).
    rewrite wc_hist_gen, Hrun in E. inversion E; subst s' idss'. clear E.
    destruct I' as (I1 & I2 & _ & _ & _ & I6).
    split; [exact I1|]. split; [exact I2|]. split; [exact P|]. split; [exact L|].
    revert F. apply Forall2_impl. intros ids vs _. apply Forall2_impl. intros id v _ Hp.
    apply gdone_wc_shape; [exact Hf|exact Hm|]. apply I6. exact Hp.
  Qed.

  Theorem g_hist_thm : forall bs, wf_hist T 0 bs -> Forall (fun b => b <> []) bs ->
    exists s idss, g_hist T add sub div zero delta f sgn infeas nof init [] bs = Some (s, idss) /\
    s_inds T s = [] /\ s_todo T s = [] /\ s_proc T s = idss /\
    s_log T s = hist_log L_g [] bs /\
    Forall2 (Forall2 (g_shape (heap_of s))) idss (hist_vecs T [] bs).
  Proof.
    intros bs Hwf Hne.
    assert (Hok : Forall (fun b : list item => length b <> 0) bs).
    { revert Hne. apply Forall_impl. intros b Hb E. apply Hb. destruct b; [reflexivity|discriminate]. }
    destruct (gen_hist_spec gcv FINg topform_g topform_g_vec
                (fun v l => or_intror (or_intror eq_refl)) (fun v => or_introl eq_refl) (fun v => or_intror (or_introl eq_refl))
                (fun v l => eq_refl) (fun v l => eq_refl)
                g_eval L_g (fun n => n <> 0) g_ev_spec
                bs init [] [] (Inv_init gcv FINg) Hwf Hok)
      as (s' & idss' & created' & cvecs' & E & I' & _ & F & P & L).
    rewrite g_hist_gen in E. exists s', idss'. split; [exact E|].
    destruct I' as (I1 & I2 & _ & _ & _ & I6).
    split; [exact I1|]. split; [exact I2|]. split; [exact P|]. split; [exact L|].
    revert F. apply Forall2_impl. intros ids vs _. apply Forall2_impl. intros id v _ Hp.
    apply gdone_g_shape. apply I6. exact Hp.
  Qed.
  (* ---- the call budget under resubmission: one call per created design (where it is created or first
          evaluated), plus 2n (worst case) resp. n (gradient) calls for every submission ---- *)
  Lemma new_count (b : list item) cvecs :
    length (pre_vecs b) + length (filter fst (map (item_info cvecs) b)) = length (new_vecs T b).
  Proof. induction b as [|it b IH]; [reflexivity|]. destruct it; cbn in *; lia. Qed.

  Lemma wc_hist_log_length n : forall bs cvecs,
    Forall (Forall (fun v => length v = n)) (hist_vecs T cvecs bs) ->
    length (hist_log L_wc cvecs bs) = length (flat_map (new_vecs T) bs) + 2 * n * length (concat bs).
  Proof.
    induction bs as [|b bs IH]; intros cvecs Hn; [cbn; lia|].
    cbn [hist_vecs] in Hn. inversion Hn as [|x l Hb Hrest]; subst.
    cbn [hist_log flat_map concat]. rewrite !app_length, (IH _ Hrest). unfold L_wc.
    rewrite app_length, map_length.
    rewrite (flat_map_length_const (fun p : bool * list T => wcv (snd p)) (2 * n)).
    - rewrite map_length. pose proof (new_count b cvecs). lia.
    - intros p Hp. apply in_map_iff in Hp. destruct Hp as (it & E & Hit). subst p. cbn [snd item_info].
      rewrite wcv_length. rewrite Forall_forall in Hb. rewrite (Hb (item_vec T cvecs it)); [reflexivity|].
      apply in_map. exact Hit.
  Qed.

  Lemma L_g_length n infos : Forall (fun p : bool * list T => length (snd p) = n) infos ->
    length (L_g infos) = length (filter fst infos) + n * length infos.
  Proof.
    intros Hn. unfold L_g. rewrite app_length, map_length.
    rewrite (flat_map_length_const (fun p : bool * list T => gcv (snd p)) n); [reflexivity|].
    intros p Hp. rewrite gcv_length. rewrite Forall_forall in Hn. apply Hn. exact Hp.
  Qed.

  Lemma g_hist_log_length n : forall bs cvecs,
    Forall (Forall (fun v => length v = n)) (hist_vecs T cvecs bs) ->
    length (hist_log L_g cvecs bs) = length (flat_map (new_vecs T) bs) + n * length (concat bs).
  Proof.
    induction bs as [|b bs IH]; intros cvecs Hn; [cbn; lia|].
    cbn [hist_vecs] in Hn. inversion Hn as [|x l Hb Hrest]; subst.
    cbn [hist_log flat_map concat]. rewrite !app_length, (IH _ Hrest).
    rewrite (L_g_length n).
    - rewrite map_length. pose proof (new_count b cvecs). lia.
    - apply Forall_forall. intros p Hp. apply in_map_iff in Hp. destruct Hp as (it & E & Hit). subst p.
      cbn [snd item_info]. rewrite Forall_forall in Hb. apply Hb. apply in_map. exact Hit.
  Qed.

  (* ================= runs WITH transient failures of the objective =================
     `fails` is an arbitrary failure tape (by global call number, with the re-drawn vectors); the only
     assumption is that no job fails five times in a row (the code then raises RuntimeError, C06).
     d_fail (ghost) counts the failed attempts of Job.evaluate on an individual: d_fail = 0 means "its own
     evaluation never failed", and then its vector is the one it was created with. *)
  Section Failures.
    Variable fails : nat -> option (list T).
    Hypothesis no5 : forall k, exists j, j < 5 /\ fails (k + j) = None.

    Local Notation evsF := (eval_serial T f sgn infeas fails).
    Local Notation wc_evalF := (wc_evaluate T add sub mul abs zero one mone psum m tols f sgn infeas fails).
    Local Notation wc_seqF := (wc_batches T add sub mul abs zero one mone psum m tols f sgn infeas fails).
    Local Notation g_evalF := (g_evaluate T add sub div zero delta f sgn infeas fails).
    Local Notation g_seqF := (g_batches T add sub div zero delta f sgn infeas fails).

    (* the individual d after r failed attempts that left it with the vector v *)
    Definition retried (d : design) (v : list T) (r : nat) : design :=
      {| d_vec := v; d_costs := d_costs T d; d_signed := d_signed T d; d_state := d_state T d;
         d_parents := d_parents T d; d_children := kids d; d_sens := d_sens T d; d_grad := d_grad T d;
         d_fail := d_fail T d + r |}.

    Lemma retried_0 d : retried d (vec d) 0 = d.
    Proof. destruct d. unfold retried. cbn. rewrite Nat.add_0_r. reflexivity. Qed.
    Lemma retried_retry d w v r : retried (set_retry T d w) v r = retried d v (S r).
    Proof. unfold retried, set_retry. cbn. rewrite <- plus_n_Sm. reflexivity. Qed.

    (* Job.evaluate: the retry loop ends with a successful attempt *)
    Lemma job_att_spec : forall fuel (h : heap) log id,
      (exists j, j < fuel /\ fails (length log + j) = None) ->
      forall h' log', job_att T f sgn infeas fails fuel (h, log) id = (h', log') ->
      exists vf r, nxt h' = nxt h /\ get h' id = evald (retried (get h id) vf r) /\
        (forall j, j <> id -> get h' j = get h j) /\ (r = 0 -> vf = vec (get h id)) /\
        length log <= length log'.
    Proof.
      induction fuel as [|fuel IH]; intros h log id (j & Hj & Hf) h' log' E; [lia|].
      cbn [job_att] in E. destruct (fails (length log)) as [w|] eqn:Ek.
      - assert (Hj0 : j <> 0) by (intro E0; subst j; rewrite Nat.add_0_r in Hf; congruence).
        set (h1 := hupd h id (set_retry T (get h id) w)) in E.
        assert (Hex : exists j', j' < fuel /\ fails (length (log ++ [vec (get h id)]) + j') = None).
        { exists (j - 1). split; [lia|]. rewrite app_length. cbn [length].
          replace (length log + 1 + (j - 1)) with (length log + j) by lia. exact Hf. }
        destruct (IH h1 _ id Hex _ _ E) as (vf & r & N & Gd & O & R & L).
        exists vf, (S r). repeat split.
        + exact N.
        + rewrite Gd. unfold h1. rewrite get_hupd_same. rewrite retried_retry. reflexivity.
        + intros j' Hne. rewrite O by exact Hne. unfold h1. apply get_hupd_other. exact Hne.
        + discriminate.
        + rewrite app_length in L. cbn [length] in L. lia.
      - inversion E; subst. exists (vec (get h id)), 0. repeat split.
        + rewrite get_hupd_same. rewrite retried_0. reflexivity.
        + intros j' Hne. apply get_hupd_other. exact Hne.
        + rewrite app_length. lia.
    Qed.

    (* Evaluator.evaluate_serial under failures *)
    Lemma evsF_spec : forall ids (h : heap) log, NoDup ids ->
      forall h' log', evsF (h, log) ids = (h', log') ->
      nxt h' = nxt h /\
      (forall j, In j ids -> is_empty (get h j) = true ->
         exists vf r, get h' j = evald (retried (get h j) vf r) /\ (r = 0 -> vf = vec (get h j))) /\
      (forall j, In j ids -> is_empty (get h j) = false -> get h' j = get h j) /\
      (forall j, ~ In j ids -> get h' j = get h j) /\
      length log <= length log'.
    Proof.
      induction ids as [|id ids IH]; intros h log Hnd h' log' Hev.
      - cbn in Hev. inversion Hev; subst. repeat split; try reflexivity; try lia; intros j [].
      - inversion Hnd as [|x l Hnotin Hnd']; subst.
        cbn [eval_serial fst] in Hev.
        destruct (d_state T (get h id)) eqn:Est.
        + destruct (Evaluators.job T f sgn infeas fails (h, log) id) as [h1 log1] eqn:EJ.
          unfold Evaluators.job in EJ.
          destruct (job_att_spec 5 h log id (no5 (length log)) _ _ EJ) as (vf & r & N1 & G1 & O1 & R1 & L1).
          destruct (IH h1 _ Hnd' _ _ Hev) as (Hn & Ha & Hb & Hc & Hl).
          assert (Hrest : forall j, In j ids -> get h1 j = get h j)
            by (intros j Hj; apply O1; intro E; subst; exact (Hnotin Hj)).
          repeat split.
          * rewrite Hn. exact N1.
          * intros j [E|Hj] Hemp.
            -- subst j. exists vf, r. split; [|exact R1]. rewrite (Hc id Hnotin). exact G1.
            -- rewrite <- (Hrest j Hj) in Hemp. destruct (Ha j Hj Hemp) as (vf' & r' & A1 & A2).
               rewrite (Hrest j Hj) in A1, A2. exists vf', r'. split; assumption.
          * intros j [E|Hj] Hemp.
            -- subst j. unfold is_empty in Hemp. rewrite Est in Hemp. discriminate.
            -- rewrite <- (Hrest j Hj). apply Hb; [exact Hj|]. rewrite (Hrest j Hj). exact Hemp.
          * intros j Hj. rewrite Hc by (intro; apply Hj; right; assumption).
            apply O1. intro E. apply Hj. left. symmetry. exact E.
          * lia.
        + destruct (IH h _ Hnd' _ _ Hev) as (Hn & Ha & Hb & Hc & Hl).
          repeat split.
          * exact Hn.
          * intros j [E|Hj] Hemp; [|apply Ha; assumption].
            subst j. unfold is_empty in Hemp. rewrite Est in Hemp. discriminate.
          * intros j [E|Hj] Hemp; [|apply Hb; assumption]. subst j. apply Hc. exact Hnotin.
          * intros j Hj. apply Hc. intro. apply Hj. right. assumption.
          * exact Hl.
    Qed.

    Lemma nth_map_seq {A : Type} (g : nat -> A) (d : A) n k : k < n -> nth k (map g (seq 0 n)) d = g k.
    Proof.
      intros Hk. rewrite (nth_indep _ d (g 0)) by (rewrite map_length, seq_length; exact Hk).
      rewrite map_nth, seq_nth by exact Hk. reflexivity.
    Qed.

    (* a design as evaluate() finds it after the designs of the batch have been evaluated: vector x (its final
       one), re-drawn rd times *)
    Definition based (x : list T) (rd : nat) : design := evald (retried (fresh x) x rd).

    Section BatchF.
      Variable cv : list T -> list (list T).
      Variable G : design -> list T -> design.

      (* a finished design: post-processed against the costs stored in its children, which sit right above lo;
         child k was created at cv x [k] and was possibly re-drawn itself *)
      Definition doneF (h : heap) (id : nat) (x : list T) (rd : nat) : Prop :=
        exists lo, id < lo /\ lo + length (cv x) <= nxt h /\
          get h id = G (set_children T (based x rd) (seq lo (length (cv x))))
                       (map (fun c => c0 (d_costs T (get h c))) (seq lo (length (cv x)))) /\
          forall k, k < length (cv x) -> exists w r,
            get h (lo + k) = evald (retried (child_of (nth k (cv x) []) id) w r) /\
            (r = 0 -> w = nth k (cv x) []).

      Lemma doneF_frame (h h' : heap) id x rd :
        nxt h <= nxt h' -> (forall j, j < nxt h -> get h' j = get h j) -> doneF h id x rd -> doneF h' id x rd.
      Proof.
        intros Hn Hf (lo & A & B & C & D). exists lo. repeat split.
        - exact A.
        - lia.
        - rewrite Hf by lia. rewrite C. f_equal. apply map_ext_in. intros c Hc. apply in_seq in Hc.
          rewrite Hf by lia. reflexivity.
        - intros k Hk. destruct (D k Hk) as (w & r & D1 & D2). exists w, r. split; [|exact D2].
          rewrite Hf by lia. exact D1.
      Qed.

      Lemma run_specF (sA : st) (xs : list (list T)) (rs : list nat) (N0 : nat) :
        let hA := s_heap T sA in
        let ids := seq N0 (length xs) in
        s_inds T sA = [] -> s_todo T sA = [] -> nxt hA = N0 + length xs ->
        (forall k, k < length xs -> get hA (N0 + k) = based (nth k xs []) (nth k rs 0)) ->
        let sB := fold_left (gen_add cv) ids sA in
        forall hC logC, evsF (s_heap T sB, s_log T sB) (s_todo T sB) = (hC, logC) ->
        let hD := fold_left (fun h id => hupd h id (G (get h id) (kid_c0 h (get h id)))) (s_inds T sB) hC in
        s_inds T sB = ids /\
        nxt hA <= nxt hD /\
        (forall j, j < N0 -> get hD j = get hA j) /\
        (forall k, k < length xs -> doneF hD (N0 + k) (nth k xs []) (nth k rs 0)) /\
        s_proc T sB = s_proc T sA.
      Proof.
        intros hA ids Hi Ht NA HA sB hC logC EC hD.
        set (K := length xs) in *.
        assert (Hnd : NoDup ids) by apply seq_NoDup.
        assert (Hlt : forall id, In id ids -> id < nxt (s_heap T sA)).
        { intros id Hin. apply in_seq in Hin. fold hA. lia. }
        pose proof (fold_add_spec cv ids sA Hnd Hlt) as HB. cbn zeta in HB. fold sB in HB. fold hA in HB.
        destruct HB as (NB & OB & PB & IB & TB & DB & XB & LB & RB).
        set (hB := s_heap T sB) in *.
        set (blk := fun id => id :: kids (get hB id)) in *.
        rewrite Hi in IB. rewrite Ht in TB. cbn [app] in IB, TB.
        assert (TopB : forall k, k < K -> exists lo, N0 + K <= lo /\ lo + length (cv (nth k xs [])) <= nxt hB /\
                   get hB (N0 + k) = set_children T (based (nth k xs []) (nth k rs 0)) (seq lo (length (cv (nth k xs [])))) /\
                   forall k', k' < length (cv (nth k xs [])) ->
                              get hB (lo + k') = child_of (nth k' (cv (nth k xs [])) []) (N0 + k)).
        { intros k Hk. assert (Hin : In (N0 + k) ids) by (apply in_seq; lia).
          destruct (PB _ Hin) as (lo & B1 & B2 & B3 & B4).
          rewrite (HA k Hk) in *. change (vec (based (nth k xs []) (nth k rs 0))) with (nth k xs []) in *.
          exists lo. repeat split; try assumption. lia. }
        rewrite TB in EC. rewrite LB in EC.
        destruct (evsF_spec _ _ _ DB _ _ EC) as (NC & CA & CB & CC & CL).
        assert (TopC : forall k, k < K -> exists lo, N0 + K <= lo /\ lo + length (cv (nth k xs [])) <= nxt hC /\
                   get hC (N0 + k) = set_children T (based (nth k xs []) (nth k rs 0)) (seq lo (length (cv (nth k xs [])))) /\
                   forall k', k' < length (cv (nth k xs [])) -> exists w r,
                     get hC (lo + k') = evald (retried (child_of (nth k' (cv (nth k xs [])) []) (N0 + k)) w r) /\
                     (r = 0 -> w = nth k' (cv (nth k xs [])) [])).
        { intros k Hk. destruct (TopB k Hk) as (lo & B1 & B2 & B3 & B4).
          assert (Hin : In (N0 + k) ids) by (apply in_seq; lia).
          assert (Hint : In (N0 + k) (flat_map blk ids)).
          { apply in_flat_map. exists (N0 + k). split; [exact Hin|left; reflexivity]. }
          exists lo. repeat split.
          - exact B1.
          - rewrite NC. exact B2.
          - rewrite <- B3. apply CB; [exact Hint|]. rewrite B3. reflexivity.
          - intros k' Hk'.
            assert (Hint' : In (lo + k') (flat_map blk ids)).
            { apply in_flat_map. exists (N0 + k). split; [exact Hin|]. right. unfold blk. rewrite B3. cbn.
              apply in_seq. lia. }
            assert (Hemp : is_empty (get hB (lo + k')) = true) by (rewrite (B4 k' Hk'); reflexivity).
            destruct (CA _ Hint' Hemp) as (w & r & A1 & A2). rewrite (B4 k' Hk') in A1, A2.
            exists w, r. split; [exact A1|exact A2]. }
        assert (KidsC : forall id c, In id ids -> In c (kids (get hC id)) -> ~ In c ids).
        { intros id c Hin Hc Hcin. apply in_seq in Hin. apply in_seq in Hcin.
          destruct (TopC (id - N0)) as (lo & C1 & C2 & C3 & C4); [lia|].
          replace (N0 + (id - N0)) with id in C3 by lia. rewrite C3 in Hc. cbn in Hc. apply in_seq in Hc. lia. }
        pose proof (fold_post_spec G ids hC Hnd KidsC) as HD. cbn zeta in HD.
        unfold hD. rewrite IB. destruct HD as (ND & DA & DO).
        set (hD' := fold_left (fun h id => hupd h id (G (get h id) (kid_c0 h (get h id)))) ids hC) in *.
        repeat split.
        - rewrite ND, NC. exact NB.
        - intros j Hj.
          assert (J1 : ~ In j ids) by (intro Hin; apply in_seq in Hin; lia).
          rewrite DO by exact J1. rewrite CC.
          + apply OB; [lia|exact J1].
          + intro Hin. destruct (XB _ Hin) as [Hin'|Hge]; [exact (J1 Hin')|lia].
        - intros k Hk.
          destruct (TopC k Hk) as (lo & C1 & C2 & C3 & C4).
          assert (Hin : In (N0 + k) ids) by (apply in_seq; lia).
          assert (Hkid : forall c, In c (seq lo (length (cv (nth k xs [])))) -> get hD' c = get hC c).
          { intros c Hc. apply in_seq in Hc. apply DO. intro Hin'. apply in_seq in Hin'. lia. }
          exists lo. repeat split.
          + lia.
          + rewrite ND. exact C2.
          + rewrite (DA _ Hin), C3. f_equal. unfold kid_c0. cbn [d_children set_children].
            apply map_ext_in. intros c Hc. rewrite (Hkid c Hc). reflexivity.
          + intros k' Hk'. destruct (C4 k' Hk') as (w & r & A1 & A2). exists w, r. split; [|exact A2].
            rewrite Hkid by (apply in_seq; lia). exact A1.
        - exact RB.
      Qed.

      (* the common part of both evaluate() methods, for a batch of fresh designs *)
      Lemma batchF_core (s : st) b h1 ids hA logA :
        s_inds T s = [] -> s_todo T s = [] -> new_designs T (heap_of s) b = (h1, ids) ->
        evsF (h1, s_log T s) ids = (hA, logA) ->
        let sA := {| s_heap := hA; s_inds := []; s_todo := []; s_log := logA; s_proc := s_proc T s |} in
        let sB := fold_left (gen_add cv) ids sA in
        forall hC logC, evsF (heap_of sB, s_log T sB) (s_todo T sB) = (hC, logC) ->
        let hD := fold_left (fun h id => hupd h id (G (get h id) (kid_c0 h (get h id)))) (s_inds T sB) hC in
        ids = seq (nxt (heap_of s)) (length b) /\
        s_inds T sB = ids /\
        nxt (heap_of s) + length b <= nxt hD /\
        (forall j, j < nxt (heap_of s) -> get hD j = get (heap_of s) j) /\
        s_proc T sB = s_proc T s /\
        Forall2 (fun id v => exists x rd, (rd = 0 -> x = v) /\ doneF hD id x rd) ids b.
      Proof.
        intros Hi Ht Hnew EA sA sB hC logC EC hD.
        destruct (new_designs_spec _ _ _ _ Hnew) as (Eids & N1 & O1 & K1).
        set (N0 := nxt (heap_of s)) in *.
        assert (Hnd : NoDup ids) by (rewrite Eids; apply seq_NoDup).
        destruct (evsF_spec _ _ _ Hnd _ _ EA) as (NA & AA & AB & AC & AL).
        set (xs := map (fun k => vec (get hA (N0 + k))) (seq 0 (length b))).
        set (rs := map (fun k => d_fail T (get hA (N0 + k))) (seq 0 (length b))).
        assert (Lxs : length xs = length b) by (unfold xs; rewrite map_length, seq_length; reflexivity).
        assert (Top : forall k, k < length b -> exists vf r, get hA (N0 + k) = based vf r /\ (r = 0 -> vf = nth k b [])).
        { intros k Hk. assert (Hin : In (N0 + k) ids) by (rewrite Eids; apply in_seq; lia).
          assert (Hemp : is_empty (get h1 (N0 + k)) = true) by (rewrite (K1 k Hk); reflexivity).
          destruct (AA _ Hin Hemp) as (vf & r & A1 & A2). rewrite (K1 k Hk) in A1, A2.
          exists vf, r. split; [exact A1|exact A2]. }
        assert (HA : forall k, k < length xs -> get hA (N0 + k) = based (nth k xs []) (nth k rs 0)).
        { intros k Hk. rewrite Lxs in Hk. unfold xs, rs. rewrite !nth_map_seq by exact Hk.
          destruct (Top k Hk) as (vf & r & A1 & _). rewrite A1. reflexivity. }
        assert (NA' : nxt (heap_of sA) = N0 + length xs) by (cbn; rewrite Lxs; lia).
        assert (Eids' : ids = seq N0 (length xs)) by (rewrite Lxs; exact Eids).
        assert (RR : s_inds T sB = ids /\ nxt hA <= nxt hD /\ (forall j, j < N0 -> get hD j = get hA j) /\
                     (forall k, k < length xs -> doneF hD (N0 + k) (nth k xs []) (nth k rs 0)) /\
                     s_proc T sB = s_proc T s).
        { subst hD sB. revert EC. rewrite Eids'. intros EC.
          exact (run_specF sA xs rs N0 eq_refl eq_refl NA' HA hC logC EC). }
        destruct RR as (RI & RN & RO & RD & RP).
        split; [exact Eids|]. split; [exact RI|]. split; [lia|]. split.
        { intros j Hj. rewrite RO by exact Hj. rewrite AC.
          - apply O1. exact Hj.
          - rewrite Eids. intro Hin. apply in_seq in Hin. lia. }
        split; [exact RP|].
        rewrite Eids. apply Forall2_seq_nth with (d := []). intros k Hk.
        destruct (Top k Hk) as (vf & r & A1 & A2).
        exists (nth k xs []), (nth k rs 0). split.
        - unfold xs, rs. rewrite !nth_map_seq by exact Hk. rewrite A1. cbn. exact A2.
        - apply RD. rewrite Lxs. exact Hk.
      Qed.
    End BatchF.

    Definition wc_doneF (h : heap) (id : nat) (v : list T) : Prop :=
      exists x rd, (rd = 0 -> x = v) /\ doneF wcv wc_fin h id x rd.
    Definition g_doneF (h : heap) (id : nat) (v : list T) : Prop :=
      exists x rd, (rd = 0 -> x = v) /\ doneF gcv g_fin h id x rd.

    Lemma wc_batchF_spec (s : st) b h1 ids :
      s_inds T s = [] -> s_todo T s = [] -> new_designs T (heap_of s) b = (h1, ids) ->
      let s' := wc_evalF (with_heap T s h1) ids in
      ids = seq (nxt (heap_of s)) (length b) /\
      nxt (heap_of s) + length b <= nxt (heap_of s') /\
      (forall j, j < nxt (heap_of s) -> get (heap_of s') j = get (heap_of s) j) /\
      s_inds T s' = [] /\ s_todo T s' = [] /\
      s_proc T s' = s_proc T s ++ [ids] /\
      Forall2 (wc_doneF (heap_of s')) ids b.
    Proof.
      intros Hi Ht Hnew.
      unfold wc_evaluate, with_heap. cbn [s_heap s_inds s_todo s_log s_proc].
      destruct (evsF (h1, s_log T s) ids) as [hA logA] eqn:EA.
      rewrite Hi, Ht.
      set (sA := {| s_heap := hA; s_inds := []; s_todo := []; s_log := logA; s_proc := s_proc T s |}).
      change (fold_left (wc_add T add mul zero one mone tols) ids sA) with (fold_left (gen_add wcv) ids sA).
      unfold wc_run.
      set (sB := fold_left (gen_add wcv) ids sA).
      destruct (evsF (heap_of sB, s_log T sB) (s_todo T sB)) as [hC logC] eqn:EC.
      pose proof (batchF_core wcv wc_fin s b h1 ids hA logA Hi Ht Hnew EA hC logC EC) as R.
      cbn zeta in R. fold sA in R. fold sB in R. destruct R as (Eids & RI & RN & RO & RP & RD).
      rewrite (fold_left_ext _ (fun h id => hupd h id (wc_fin (get h id) (kid_c0 h (get h id)))))
        by (intros; apply wc_post_fin).
      cbn [s_heap s_inds s_todo s_log s_proc]. repeat split.
      - exact Eids.
      - exact RN.
      - exact RO.
      - rewrite RP, RI. reflexivity.
      - exact RD.
    Qed.

    Lemma g_batchF_spec (s : st) b h1 ids :
      s_inds T s = [] -> s_todo T s = [] -> new_designs T (heap_of s) b = (h1, ids) -> b <> [] ->
      exists s', g_evalF (with_heap T s h1) ids = Some s' /\
      ids = seq (nxt (heap_of s)) (length b) /\
      nxt (heap_of s) + length b <= nxt (heap_of s') /\
      (forall j, j < nxt (heap_of s) -> get (heap_of s') j = get (heap_of s) j) /\
      s_inds T s' = [] /\ s_todo T s' = [] /\
      s_proc T s' = s_proc T s ++ [ids] /\
      Forall2 (g_doneF (heap_of s')) ids b.
    Proof.
      intros Hi Ht Hnew Hne.
      unfold g_evaluate, with_heap. cbn [s_heap s_inds s_todo s_log s_proc].
      destruct (evsF (h1, s_log T s) ids) as [hA logA] eqn:EA.
      rewrite Hi, Ht.
      set (sA := {| s_heap := hA; s_inds := []; s_todo := []; s_log := logA; s_proc := s_proc T s |}).
      change (fold_left (g_add T add zero delta) ids sA) with (fold_left (gen_add gcv) ids sA).
      set (sB := fold_left (gen_add gcv) ids sA).
      destruct (evsF (heap_of sB, s_log T sB) (s_todo T sB)) as [hC logC] eqn:EC.
      pose proof (batchF_core gcv g_fin s b h1 ids hA logA Hi Ht Hnew EA hC logC EC) as R.
      cbn zeta in R. fold sA in R. fold sB in R. destruct R as (Eids & RI & RN & RO & RP & RD).
      unfold g_run. rewrite EC.
      destruct (s_inds T sB) as [|i0 irest] eqn:EI.
      - exfalso. rewrite Eids in RI. destruct b; [apply Hne; reflexivity|discriminate RI].
      - eexists. split; [reflexivity|].
        rewrite (fold_left_ext _ (fun h id => hupd h id (g_fin (get h id) (kid_c0 h (get h id)))))
          by (intros; apply g_post_fin).
        cbn [s_heap s_inds s_todo s_log s_proc]. repeat split.
        + exact Eids.
        + exact RN.
        + exact RO.
        + rewrite RP, RI. reflexivity.
        + exact RD.
    Qed.

    Lemma wc_batchesF_spec : forall bs (s : st), s_inds T s = [] -> s_todo T s = [] ->
      forall s' idss, wc_seqF s bs = (s', idss) ->
      s_inds T s' = [] /\ s_todo T s' = [] /\
      nxt (heap_of s) <= nxt (heap_of s') /\
      (forall j, j < nxt (heap_of s) -> get (heap_of s') j = get (heap_of s) j) /\
      Forall2 (Forall2 (wc_doneF (heap_of s'))) idss bs /\
      s_proc T s' = s_proc T s ++ idss.
    Proof.
      induction bs as [|b bs IH]; intros s Hi Ht s' idss Hrun.
      - cbn in Hrun. inversion Hrun; subst. rewrite !app_nil_r. repeat split; auto; try constructor.
      - cbn [wc_batches] in Hrun.
        destruct (new_designs T (heap_of s) b) as [h1 ids] eqn:Enew.
        destruct (wc_seqF (wc_evalF (with_heap T s h1) ids) bs) as [s2 idss2] eqn:Erest.
        inversion Hrun; subst s2 idss. clear Hrun.
        pose proof (wc_batchF_spec s b h1 ids Hi Ht Enew) as B. cbn zeta in B.
        set (s1 := wc_evalF (with_heap T s h1) ids) in *.
        destruct B as (Eids & BN & BO & BI & BT & BP & BD).
        destruct (IH s1 BI BT _ _ Erest) as (I2 & T2 & N2 & O2 & D2 & P2).
        repeat split.
        + exact I2.
        + exact T2.
        + lia.
        + intros j Hj. rewrite O2 by lia. apply BO. exact Hj.
        + constructor; [|exact D2].
          apply (Forall2_impl (wc_doneF (heap_of s1))); [|exact BD].
          intros id v _ (x & rd & H1 & H2). exists x, rd. split; [exact H1|].
          apply (doneF_frame wcv wc_fin (heap_of s1)); assumption.
        + rewrite P2, BP, <- app_assoc. reflexivity.
    Qed.

    Lemma g_batchesF_spec : forall bs (s : st), s_inds T s = [] -> s_todo T s = [] ->
      Forall (fun b => b <> []) bs ->
      exists s' idss, g_seqF s bs = Some (s', idss) /\
      s_inds T s' = [] /\ s_todo T s' = [] /\
      nxt (heap_of s) <= nxt (heap_of s') /\
      (forall j, j < nxt (heap_of s) -> get (heap_of s') j = get (heap_of s) j) /\
      Forall2 (Forall2 (g_doneF (heap_of s'))) idss bs /\
      s_proc T s' = s_proc T s ++ idss.
    Proof.
      induction bs as [|b bs IH]; intros s Hi Ht Hne.
      - exists s, []. cbn. rewrite !app_nil_r. repeat split; auto; try constructor.
      - inversion Hne as [|x l Hb Hbs]; subst.
        cbn [g_batches].
        destruct (new_designs T (heap_of s) b) as [h1 ids] eqn:Enew.
        destruct (g_batchF_spec s b h1 ids Hi Ht Enew Hb) as (s1 & E1 & Eids & BN & BO & BI & BT & BP & BD).
        rewrite E1.
        destruct (IH s1 BI BT Hbs) as (s' & idss2 & E2 & I2 & T2 & N2 & O2 & D2 & P2).
        rewrite E2. exists s', (ids :: idss2).
        repeat split.
        + exact I2.
        + exact T2.
        + lia.
        + intros j Hj. rewrite O2 by lia. apply BO. exact Hj.
        + constructor; [|exact D2].
          apply (Forall2_impl (g_doneF (heap_of s1))); [|exact BD].
          intros id v _ (x & rd & H1 & H2). exists x, rd. split; [exact H1|].
          apply (doneF_frame gcv g_fin (heap_of s1)); assumption.
        + rewrite P2, BP, <- app_assoc. reflexivity.
    Qed.

    (* ---- what a finished design looks like under failures ---- *)
    Lemma wc_fin_based x rd l ks : length (f x) = m ->
      wc_fin (set_children T (based x rd) l) ks =
      {| d_vec := x; d_costs := f x ++ [psum (map (fun k => abs (sub (c0 (f x)) k)) ks)];
         d_signed := map SV (sgn (f x)) ++ [SV (psum (map (fun k => abs (sub (c0 (f x)) k)) ks)); SB (infeas x)];
         d_state := EVALUATED; d_parents := []; d_children := l;
         d_sens := Some (psum (map (fun k => abs (sub (c0 (f x)) k)) ks)); d_grad := None; d_fail := rd |}.
    Proof.
      intros Hm. unfold wc_fin, based. cbn [d_costs set_children evald set_eval d_signed d_vec fresh retried Evaluators.fresh].
      rewrite Hm. assert (E : S m <=? m = false) by (apply Nat.leb_gt; lia). rewrite E.
      unfold set_sens. cbn. rewrite insert_m1_snoc. reflexivity.
    Qed.

    Definition wc_fail_stmt (s : st) (idss : list (list nat)) (bs : list (list (list T))) : Prop :=
      Forall2 (Forall2 (fun id v =>
        let h := heap_of s in let d := get h id in let x := vec d in
        let S := psum (map (fun c => abs (sub (c0 (f x)) (c0 (f (vec (get h c)))))) (kids d)) in
        (d_fail T d = 0 -> x = v) /\ d_parents T d = [] /\ d_state T d = EVALUATED /\
        NoDup (kids d) /\ length (kids d) = 2 * length x /\
        (forall j, j < 2 * length x ->
           let c := nth j (kids d) 0 in
           (d_fail T (get h c) = 0 -> vec (get h c) = nth j (wcv x) []) /\
           d_parents T (get h c) = [id] /\ kids (get h c) = [] /\ d_costs T (get h c) = f (vec (get h c)) /\
           d_state T (get h c) = EVALUATED /\ c <> id) /\
        d_costs T d = f x ++ [S] /\ length (d_costs T d) = m + 1 /\ d_sens T d = Some S /\
        d_signed T d = map SV (sgn (f x)) ++ [SV S; SB (infeas x)] /\
        (Forall (fun c => d_fail T (get h c) = 0) (kids d) ->
           map (fun c => vec (get h c)) (kids d) = wcv x /\
           S = psum (map (fun w => abs (sub (c0 (f x)) (c0 (f w)))) (wcv x))))) idss bs.

    Theorem wc_failures_thm : (forall v, length (f v) = m) -> 1 <= m ->
      forall bs s idss, wc_seqF init bs = (s, idss) ->
      s_inds T s = [] /\ s_todo T s = [] /\ s_proc T s = idss /\ wc_fail_stmt s idss bs.
    Proof.
      intros Hf Hm bs s idss Hrun.
      destruct (wc_batchesF_spec bs init eq_refl eq_refl _ _ Hrun) as (I1 & I2 & _ & _ & D & P).
      split; [exact I1|]. split; [exact I2|]. split; [exact P|].
      unfold wc_fail_stmt. apply (Forall2_impl (Forall2 (wc_doneF (heap_of s)))); [|exact D].
      intros ids b _ Hb. apply (Forall2_impl (wc_doneF (heap_of s))); [|exact Hb].
      intros id v _ (x & rd & H1 & lo & L1 & L2 & L3 & L4). cbn zeta.
      rewrite wc_fin_based in L3 by apply Hf.
      set (h := heap_of s) in *. rewrite L3. cbn [d_vec d_costs d_sens d_signed d_state d_children d_parents d_fail].
      rewrite wcv_length in *.
      assert (HK : forall c, In c (seq lo (2 * length x)) -> d_costs T (get h c) = f (vec (get h c))).
      { intros c Hc. apply in_seq in Hc. destruct (L4 (c - lo)) as (w & r & A1 & _); [lia|].
        replace (lo + (c - lo)) with c in A1 by lia. rewrite A1. reflexivity. }
      assert (ES : psum (map (fun k => abs (sub (c0 (f x)) k)) (map (fun c => c0 (d_costs T (get h c))) (seq lo (2 * length x)))) =
                   psum (map (fun c => abs (sub (c0 (f x)) (c0 (f (vec (get h c)))))) (seq lo (2 * length x)))).
      { rewrite map_map. f_equal. apply map_ext_in. intros c Hc. rewrite (HK c Hc). reflexivity. }
      rewrite ES.
      split; [exact H1|]. split; [reflexivity|]. split; [reflexivity|]. split; [apply seq_NoDup|].
      split; [apply seq_length|]. split.
      { intros j Hj. rewrite seq_nth by exact Hj. destruct (L4 j Hj) as (w & r & A1 & A2). rewrite A1.
        cbn. repeat split; try assumption. lia. }
      split; [reflexivity|]. split; [rewrite app_length, Hf; cbn; lia|]. split; [reflexivity|]. split; [reflexivity|].
      intros Hall.
      assert (EV : map (fun c => vec (get h c)) (seq lo (2 * length x)) = wcv x).
      { rewrite <- (wcv_length x). apply map_seq_nth with (d := []). intros k Hk. rewrite wcv_length in Hk.
        destruct (L4 k Hk) as (w & r & A1 & A2). rewrite Forall_forall in Hall.
        assert (Hr : d_fail T (get h (lo + k)) = 0) by (apply Hall; apply in_seq; lia).
        rewrite A1 in Hr |- *. cbn in Hr |- *. apply A2. exact Hr. }
      split; [exact EV|]. rewrite <- EV. rewrite map_map. reflexivity.
    Qed.

    Definition g_fail_stmt (s : st) (idss : list (list nat)) (bs : list (list (list T))) : Prop :=
      Forall2 (Forall2 (fun id v =>
        let h := heap_of s in let d := get h id in let x := vec d in
        (d_fail T d = 0 -> x = v) /\ d_parents T d = [] /\ d_state T d = EVALUATED /\ d_costs T d = f x /\
        NoDup (kids d) /\ length (kids d) = length x /\
        (forall i, i < length x ->
           let c := nth i (kids d) 0 in
           (d_fail T (get h c) = 0 -> vec (get h c) = set_nth T i (add (nth i x zero) delta) x) /\
           d_parents T (get h c) = [id] /\ d_costs T (get h c) = f (vec (get h c)) /\
           d_state T (get h c) = EVALUATED /\ c <> id) /\
        d_grad T d = Some (map (fun c => div (sub (c0 (f (vec (get h c)))) (c0 (f x))) delta) (kids d)) /\
        (Forall (fun c => d_fail T (get h c) = 0) (kids d) ->
           d_grad T d = Some (map (fun i => div (sub (c0 (f (set_nth T i (add (nth i x zero) delta) x))) (c0 (f x))) delta)
                                  (seq 0 (length x)))))) idss bs.

    Theorem g_failures_thm : forall bs, Forall (fun b => b <> []) bs ->
      exists s idss, g_seqF init bs = Some (s, idss) /\
      s_inds T s = [] /\ s_todo T s = [] /\ s_proc T s = idss /\ g_fail_stmt s idss bs.
    Proof.
      intros bs Hne.
      destruct (g_batchesF_spec bs init eq_refl eq_refl Hne) as (s & idss & E & I1 & I2 & _ & _ & D & P).
      exists s, idss. split; [exact E|]. split; [exact I1|]. split; [exact I2|]. split; [exact P|].
      unfold g_fail_stmt. apply (Forall2_impl (Forall2 (g_doneF (heap_of s)))); [|exact D].
      intros ids b _ Hb. apply (Forall2_impl (g_doneF (heap_of s))); [|exact Hb].
      intros id v _ (x & rd & H1 & lo & L1 & L2 & L3 & L4). cbn zeta.
      set (h := heap_of s) in *. rewrite L3. unfold g_fin, based.
      cbn [d_vec d_costs d_state d_grad d_children d_parents d_fail set_grad set_children evald set_eval retried fresh Evaluators.fresh].
      rewrite gcv_length in *.
      assert (HK : forall c, In c (seq lo (length x)) -> d_costs T (get h c) = f (vec (get h c))).
      { intros c Hc. apply in_seq in Hc. destruct (L4 (c - lo)) as (w & r & A1 & _); [lia|].
        replace (lo + (c - lo)) with c in A1 by lia. rewrite A1. reflexivity. }
      assert (EG : map (fun k => div (sub k (c0 (f x))) delta) (map (fun c => c0 (d_costs T (get h c))) (seq lo (length x))) =
                   map (fun c => div (sub (c0 (f (vec (get h c)))) (c0 (f x))) delta) (seq lo (length x))).
      { rewrite map_map. apply map_ext_in. intros c Hc. rewrite (HK c Hc). reflexivity. }
      rewrite EG.
      split; [exact H1|]. split; [reflexivity|]. split; [reflexivity|]. split; [reflexivity|].
      split; [apply seq_NoDup|]. split; [apply seq_length|]. split.
      { intros i Hi. rewrite seq_nth by exact Hi. destruct (L4 i Hi) as (w & r & A1 & A2). rewrite A1.
        cbn. repeat split; try lia. intros Hr. rewrite (A2 Hr). apply gcv_nth. exact Hi. }
      split; [reflexivity|].
      intros Hall. f_equal.
      assert (EV : map (fun c => vec (get h c)) (seq lo (length x)) = gcv x).
      { rewrite <- (gcv_length x). apply map_seq_nth with (d := []). intros k Hk. rewrite gcv_length in Hk.
        destruct (L4 k Hk) as (w & r & A1 & A2). rewrite Forall_forall in Hall.
        assert (Hr : d_fail T (get h (lo + k)) = 0) by (apply Hall; apply in_seq; lia).
        rewrite A1 in Hr |- *. cbn in Hr |- *. apply A2. exact Hr. }
      rewrite <- (map_map (fun c => vec (get h c)) (fun w => div (sub (c0 (f w)) (c0 (f x))) delta)).
      rewrite EV. unfold g_child_vecs. rewrite map_map. reflexivity.
    Qed.
  End Failures.
End EvaluatorsProofs.
