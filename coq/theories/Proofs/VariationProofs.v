(* Proofs for Model/Variation.v (property C08; the position lemmas are reused by C18).
   Everything in section VarP holds for every type with a strict weak order `ltb`, hence for
   binary64 with Python's `<` (Base/FloatInst.v), whatever the arithmetic operators, the random
   draws and the pre-clip oracle values are. *)
From Coq Require Import List Bool ZArith QArith Qround Qabs Lia Lqa.
From Artap Require Import Base.Ord Model.Variation.
Import ListNotations.

Section VarP.
  Context {T : Type} (ltb : T -> T -> bool) (HO : SWO ltb).

  (* x lies in the closed interval of the parameter p = (lb, ub) *)
  Definition inside (p : T * T) (x : T) : Prop := ltb x (fst p) = false /\ ltb (snd p) x = false.
  (* lb <= ub *)
  Definition wf (p : T * T) : Prop := ltb (snd p) (fst p) = false.
  (* the interval of p is contained in the interval of w *)
  Definition within (p w : T * T) : Prop := ltb (fst p) (fst w) = false /\ ltb (snd w) (snd p) = false.
  Definition in_box (params : list (T * T)) (v : list T) : Prop := Forall2 inside params v.
  (* params: the declared box (used by clip); outer: a box containing it (the declared box widened
     by the rounding precision of the generators) *)
  Definition boxes (params outer : list (T * T)) : Prop :=
    Forall2 (fun p w => wf p /\ within p w) params outer.

  Lemma boxes_refl params : Forall wf params -> boxes params params.
  Proof.
    induction 1 as [|p ps Hp _ IH]; constructor; [|exact IH].
    split; [exact Hp|]. split; apply (lt_irrefl _ HO).
  Qed.

  Theorem clip_in_box : forall v lo hi, ltb hi lo = false ->
    ltb (clip ltb v lo hi) lo = false /\ ltb hi (clip ltb v lo hi) = false /\
    (clip ltb v lo hi = v \/ clip ltb v lo hi = lo \/ clip ltb v lo hi = hi).
  Proof.
    intros v lo hi Hb. unfold clip, pmax, pmin.
    destruct (ltb hi v) eqn:E1.
    - destruct (ltb lo hi) eqn:E2.
      + split; [exact Hb|]. split; [apply (lt_irrefl _ HO)|]. right; right; reflexivity.
      + split; [apply (lt_irrefl _ HO)|]. split; [exact Hb|]. right; left; reflexivity.
    - destruct (ltb lo v) eqn:E2.
      + split; [apply (lt_asym _ HO _ _ E2)|]. split; [exact E1|]. left; reflexivity.
      + split; [apply (lt_irrefl _ HO)|]. split; [exact Hb|]. right; left; reflexivity.
  Qed.

  Lemma clip_inside p v : wf p -> inside p (clip ltb v (fst p) (snd p)).
  Proof. intros Hw. destruct (clip_in_box v _ _ Hw) as (A & B & _). split; assumption. Qed.

  Lemma inside_widen p w x : within p w -> inside p x -> inside w x.
  Proof.
    intros [A B] [C D]. split.
    - eapply (lt_negtrans _ HO); eassumption.
    - eapply (lt_negtrans _ HO); eassumption.
  Qed.

  Lemma F2_length {A B} (R : A -> B -> Prop) l1 l2 : Forall2 R l1 l2 -> length l1 = length l2.
  Proof. induction 1; cbn; congruence. Qed.

  Lemma in_box_length params v : in_box params v -> length v = length params.
  Proof. intros F. symmetry. eapply F2_length; exact F. Qed.

  (* --- the three mutators -------------------------------------------------------------- *)
  Lemma mutate_with_in_box k prob : forall params outer parent tape child,
    boxes params outer -> in_box outer parent ->
    mutate_with ltb k prob params parent tape = Some child ->
    length child = length parent /\ in_box outer child.
  Proof.
    induction params as [|[lb ub] ps IH]; intros outer parent tape child HB HP HM.
    - inversion HB; subst. inversion HP; subst. cbn in HM.
      destruct tape; [|discriminate]. inversion HM; subst. split; [reflexivity|constructor].
    - inversion HB as [|p w ps' ws [Hwf Hin] HB']; subst.
      inversion HP as [|w' x ws' xs Hx HP']; subst.
      cbn in HM. destruct tape as [|[u|?] t1]; try discriminate.
      destruct (ltb u prob).
      + destruct (skip_draws k t1) as [[|[?|pre] t2]|]; try discriminate.
        destruct (mutate_with ltb k prob ps xs t2) as [l|] eqn:E; [|discriminate].
        cbn in HM. inversion HM; subst.
        destruct (IH _ _ _ _ HB' HP' E) as [L B]. split; [cbn; congruence|].
        constructor; [|exact B]. eapply inside_widen; [exact Hin|].
        exact (clip_inside (lb, ub) pre Hwf).
      + destruct (mutate_with ltb k prob ps xs t1) as [l|] eqn:E; [|discriminate].
        cbn in HM. inversion HM; subst.
        destruct (IH _ _ _ _ HB' HP' E) as [L B]. split; [cbn; congruence|].
        constructor; assumption.
  Qed.

  Theorem pm_in_box_outer prob params outer parent tape child :
    boxes params outer -> in_box outer parent ->
    pm_mutate ltb prob params parent tape = Some child ->
    length child = length parent /\ in_box outer child.
  Proof. apply mutate_with_in_box. Qed.

  Theorem uniform_in_box_outer prob params outer parent tape child :
    boxes params outer -> in_box outer parent ->
    uniform_mutate ltb prob params parent tape = Some child ->
    length child = length parent /\ in_box outer child.
  Proof. apply mutate_with_in_box. Qed.

  Theorem nonuniform_in_box_outer prob params outer parent tape child :
    boxes params outer -> in_box outer parent ->
    nonuniform_mutate ltb prob params parent tape = Some child ->
    length child = length parent /\ in_box outer child.
  Proof. apply mutate_with_in_box. Qed.

  Theorem pm_in_box prob params parent tape child :
    Forall wf params -> in_box params parent ->
    pm_mutate ltb prob params parent tape = Some child ->
    length child = length parent /\ in_box params child.
  Proof. intros W. apply mutate_with_in_box, boxes_refl, W. Qed.

  Theorem uniform_in_box prob params parent tape child :
    Forall wf params -> in_box params parent ->
    uniform_mutate ltb prob params parent tape = Some child ->
    length child = length parent /\ in_box params child.
  Proof. intros W. apply mutate_with_in_box, boxes_refl, W. Qed.

  Theorem nonuniform_in_box prob params parent tape child :
    Forall wf params -> in_box params parent ->
    nonuniform_mutate ltb prob params parent tape = Some child ->
    length child = length parent /\ in_box params child.
  Proof. intros W. apply mutate_with_in_box, boxes_refl, W. Qed.

  (* --- SBX ------------------------------------------------------------------------------- *)
  Section SBX.
    Variable far : T -> T -> bool.
    Variable half : T.

    Lemma sbx_loop_in_box : forall params outer x1 x2 tape c1 c2,
      boxes params outer -> in_box outer x1 -> in_box outer x2 ->
      sbx_loop ltb far half params x1 x2 tape = Some (c1, c2) ->
      length c1 = length x1 /\ length c2 = length x2 /\ in_box outer c1 /\ in_box outer c2.
    Proof.
      induction params as [|[lb ub] ps IH]; intros outer x1 x2 tape c1 c2 HB H1 H2 HM.
      - inversion HB; subst. cbn in HM. destruct tape; [|discriminate].
        inversion HM; subst. repeat split; assumption.
      - inversion HB as [|p w ps' ws [Hwf Hin] HB']; subst.
        inversion H1 as [|w1 a ws1 x1' Ha H1']; subst.
        inversion H2 as [|w2 b ws2 x2' Hb H2']; subst.
        cbn in HM. destruct tape as [|[r|?] t1]; try discriminate.
        assert (KEEP : forall t, ocons2 a b (sbx_loop ltb far half ps x1' x2' t) = Some (c1, c2) ->
                  length c1 = length (a :: x1') /\ length c2 = length (b :: x2') /\
                  in_box (w :: ws) c1 /\ in_box (w :: ws) c2).
        { intros t HK. destruct (sbx_loop ltb far half ps x1' x2' t) as [[l1 l2]|] eqn:E; [|discriminate].
          cbn in HK. inversion HK; subst.
          destruct (IH _ _ _ _ _ _ HB' H1' H2' E) as (L1 & L2 & B1 & B2).
          repeat split; try (cbn; congruence); constructor; assumption. }
        destruct (ltb half r); [exact (KEEP _ HM)|].
        destruct (far a b); [|exact (KEEP _ HM)].
        destruct t1 as [|[?|?] [|[?|p1] [|[?|p2] [|[s|?] t2]]]]; try discriminate.
        pose proof (inside_widen _ _ _ Hin (clip_inside (lb, ub) p1 Hwf)) as I1.
        pose proof (inside_widen _ _ _ Hin (clip_inside (lb, ub) p2 Hwf)) as I2.
        cbn [fst snd] in I1, I2.
        destruct (ltb half s);
          (destruct (sbx_loop ltb far half ps x1' x2' t2) as [[l1 l2]|] eqn:E; [|discriminate];
           cbn in HM; inversion HM; subst;
           destruct (IH _ _ _ _ _ _ HB' H1' H2' E) as (L1 & L2 & B1 & B2);
           repeat split; try (cbn; congruence); constructor; assumption).
    Qed.

    Theorem sbx_in_box_outer prob params outer p1 p2 tape c1 c2 :
      boxes params outer -> in_box outer p1 -> in_box outer p2 ->
      sbx_cross ltb far half prob params p1 p2 tape = Some (c1, c2) ->
      length c1 = length p1 /\ length c2 = length p2 /\ in_box outer c1 /\ in_box outer c2.
    Proof.
      intros HB H1 H2 HM. unfold sbx_cross in HM.
      destruct tape as [|[r0|?] t]; try discriminate.
      destruct (ltb prob r0).
      - destruct t; [|discriminate]. inversion HM; subst. repeat split; assumption.
      - eapply sbx_loop_in_box; eassumption.
    Qed.

    Theorem sbx_in_box prob params p1 p2 tape c1 c2 :
      Forall wf params -> in_box params p1 -> in_box params p2 ->
      sbx_cross ltb far half prob params p1 p2 tape = Some (c1, c2) ->
      length c1 = length p1 /\ length c2 = length p2 /\ in_box params c1 /\ in_box params c2.
    Proof. intros W. apply sbx_in_box_outer, boxes_refl, W. Qed.
  End SBX.

  (* --- swarm position update --------------------------------------------------------------- *)
  Section Position.
    Variable add : T -> T -> T.
    Variable bounce : T -> T.

    (* the complete case analysis of one coordinate, for every position and velocity *)
    Lemma position_coord_spec lb ub x v : ltb ub lb = false ->
      let r := position_coord ltb add bounce lb ub x v in
      inside (lb, ub) (fst r) /\
      (ltb ub (add x v) = true -> r = (ub, bounce v)) /\
      (ltb (add x v) lb = true -> r = (lb, bounce v)) /\
      (ltb ub (add x v) = false -> ltb (add x v) lb = false -> r = (add x v, v)).
    Proof.
      intros Hb. unfold position_coord, inside. cbn [fst snd].
      destruct (ltb ub (add x v)) eqn:E1.
      - rewrite Hb. cbn [fst snd]. rewrite Hb, (lt_irrefl _ HO).
        repeat split; try reflexivity; try discriminate.
        intros E2. pose proof (lt_trans _ HO _ _ _ E1 E2). congruence.
      - destruct (ltb (add x v) lb) eqn:E2; cbn [fst snd].
        + rewrite (lt_irrefl _ HO), Hb. repeat split; try reflexivity; discriminate.
        + rewrite E1, E2. repeat split; try reflexivity; discriminate.
    Qed.

    Theorem position_in_box : forall params xs vs xs' vs',
      Forall wf params -> length xs = length params ->
      position_update ltb add bounce params xs vs = Some (xs', vs') ->
      in_box params xs' /\ length vs' = length vs.
    Proof.
      induction params as [|[lb ub] ps IH]; intros xs vs xs' vs' W L HM.
      - destruct xs; [|discriminate]. cbn in HM. inversion HM; subst. split; [constructor|reflexivity].
      - destruct xs as [|x xs]; [discriminate|]. cbn in HM.
        destruct vs as [|v vs]; [discriminate|].
        inversion W as [|p ps' Hw W']; subst.
        pose proof (position_coord_spec lb ub x v Hw) as [I _].
        destruct (position_coord ltb add bounce lb ub x v) as [x2 v2].
        destruct (position_update ltb add bounce ps xs vs) as [[l1 l2]|] eqn:E; [|discriminate].
        cbn in HM. inversion HM; subst. cbn in L.
        destruct (IH _ _ _ _ W' (eq_add_S _ _ L) E) as [B LV].
        split; [constructor; assumption | cbn; congruence].
    Qed.
  End Position.

  (* --- closure: whatever finite composition of the modelled operators produced a vector, it is
     in the (outer) box.  This is the shape of every vector the five algorithms submit for
     evaluation: an initial / re-rolled design (in the outer box by gen_vector_in_box), a particle
     moved by update_position, or a result of SBX / a mutator applied to earlier such vectors. *)
  Section Closure.
    Variable far : T -> T -> bool.
    Variable half : T.
    Variable add : T -> T -> T.
    Variables bounce1 bounce2 : T -> T.
    Variables params outer : list (T * T).

    Inductive derived : list T -> Prop :=
    | D_init v : in_box outer v -> derived v
    | D_mut k prob p tape c : derived p -> mutate_with ltb k prob params p tape = Some c -> derived c
    | D_sbx1 prob p1 p2 tape c1 c2 : derived p1 -> derived p2 ->
        sbx_cross ltb far half prob params p1 p2 tape = Some (c1, c2) -> derived c1
    | D_sbx2 prob p1 p2 tape c1 c2 : derived p1 -> derived p2 ->
        sbx_cross ltb far half prob params p1 p2 tape = Some (c1, c2) -> derived c2
    | D_pos1 x v x' v' : derived x ->
        position_update ltb add bounce1 params x v = Some (x', v') -> derived x'
    | D_pos2 x v x' v' : derived x ->
        position_update ltb add bounce2 params x v = Some (x', v') -> derived x'.

    Theorem derived_in_box : boxes params outer -> forall v, derived v -> in_box outer v.
    Proof.
      intros HB v D. induction D as [v I | k prob p tape c _ IH HM | prob p1 p2 tape c1 c2 _ IH1 _ IH2 HM
                                     | prob p1 p2 tape c1 c2 _ IH1 _ IH2 HM | x v x' v' _ IH HM | x v x' v' _ IH HM].
      - exact I.
      - exact (proj2 (mutate_with_in_box _ _ _ _ _ _ _ HB IH HM)).
      - exact (proj1 (proj2 (proj2 (sbx_in_box_outer _ _ _ _ _ _ _ _ _ _ HB IH1 IH2 HM)))).
      - exact (proj2 (proj2 (proj2 (sbx_in_box_outer _ _ _ _ _ _ _ _ _ _ HB IH1 IH2 HM)))).
      - assert (W : Forall wf params /\ Forall2 within params outer).
        { clear -HB. induction HB as [|p w ps ws [A B] _ [IH1 IH2]]; split; constructor; assumption. }
        destruct W as [W WI].
        assert (L : length x = length params).
        { rewrite (in_box_length _ _ IH). symmetry. eapply F2_length; exact HB. }
        destruct (position_in_box _ _ _ _ _ _ _ W L HM) as [B _].
        clear -B WI HO. revert x' B. induction WI as [|p w ps ws Hw _ IHW]; intros x' B; inversion B; subst; constructor.
        + eapply inside_widen; eassumption.
        + apply IHW; assumption.
      - assert (W : Forall wf params /\ Forall2 within params outer).
        { clear -HB. induction HB as [|p w ps ws [A B] _ [IH1 IH2]]; split; constructor; assumption. }
        destruct W as [W WI].
        assert (L : length x = length params).
        { rewrite (in_box_length _ _ IH). symmetry. eapply F2_length; exact HB. }
        destruct (position_in_box _ _ _ _ _ _ _ W L HM) as [B _].
        clear -B WI HO. revert x' B. induction WI as [|p w ps ws Hw _ IHW]; intros x' B; inversion B; subst; constructor.
        + eapply inside_widen; eassumption.
        + apply IHW; assumption.
    Qed.
  End Closure.

  Theorem run_in_box far half add bounce1 bounce2 params outer (evaluated : list T -> Prop) :
    boxes params outer ->
    (forall v, evaluated v -> derived far half add bounce1 bounce2 params outer v) ->
    forall v, evaluated v -> in_box outer v.
  Proof. intros HB HD v Hv. eapply derived_in_box; [exact HB|exact (HD v Hv)]. Qed.
End VarP.

(* --- gen_number / gen_vector in Q ---------------------------------------------------------------- *)
Local Open Scope Q_scope.

Lemma round_half_even_near y : Qabs (inject_Z (round_half_even y) - y) <= 1 # 2.
Proof.
  unfold round_half_even.
  pose proof (Qfloor_le y) as A. pose proof (Qlt_floor y) as B.
  rewrite inject_Z_plus in B. change (inject_Z 1) with 1 in B.
  apply Qabs_Qle_condition.
  destruct (Qcompare_spec (y - inject_Z (Qfloor y)) (1 # 2)) as [E|E|E].
  - destruct (Z.even (Qfloor y)); [|rewrite inject_Z_plus; change (inject_Z 1) with 1]; split; lra.
  - split; lra.
  - rewrite inject_Z_plus; change (inject_Z 1) with 1. split; lra.
Qed.

Lemma default_precision_pos : 0 < default_precision.
Proof. reflexivity. Qed.

Lemma effective_precision_pos p : 0 <= p -> 0 < effective_precision p.
Proof.
  intros Hp. unfold effective_precision. destruct (Qeq_bool p 0) eqn:E.
  - exact default_precision_pos.
  - apply Qeq_bool_neq in E. destruct (Qlt_le_dec 0 p) as [G|G]; [exact G|].
    exfalso. apply E. lra.
Qed.

(* the rounded number is within half a precision step of the un-rounded draw ... *)
Lemma gen_number_near r lb ub p : 0 <= p ->
  Qabs (gen_number r lb ub p - (r * (ub - lb) + lb)) <= effective_precision p / 2.
Proof.
  intros Hp. unfold gen_number.
  pose proof (effective_precision_pos p Hp) as Q0.
  set (q := effective_precision p) in *. set (x := r * (ub - lb) + lb).
  pose proof (round_half_even_near (x / q)) as N.
  set (k := inject_Z (round_half_even (x / q))) in *.
  assert (E : k * q - x == (k - x / q) * q) by (field; lra).
  rewrite E, Qabs_Qmult, (Qabs_pos q) by lra.
  apply Qle_trans with ((1 # 2) * q); [|apply Qle_lteq; right; field].
  apply Qmult_le_compat_r; [exact N|lra].
Qed.

(* ... and the draw is in [lb, ub], so the number is in the box up to half a step *)
Theorem gen_number_in_box r lb ub p : 0 <= r -> r < 1 -> lb <= ub -> 0 <= p ->
  lb - effective_precision p / 2 <= gen_number r lb ub p /\
  gen_number r lb ub p <= ub + effective_precision p / 2.
Proof.
  intros R0 R1 B Hp. pose proof (gen_number_near r lb ub p Hp) as N.
  apply Qabs_Qle_condition in N. destruct N as [N1 N2].
  assert (X0 : 0 <= r * (ub - lb)) by (apply Qmult_le_0_compat; lra).
  assert (X1 : r * (ub - lb) <= 1 * (ub - lb)) by (apply Qmult_le_compat_r; lra).
  split; lra.
Qed.

Definition q_inside (t : Q * Q * Q) (x : Q) : Prop :=
  let '(lb, ub, p) := t in
  lb - effective_precision p / 2 <= x /\ x <= ub + effective_precision p / 2.
Definition q_wf (t : Q * Q * Q) : Prop := let '(lb, ub, p) := t in lb <= ub /\ 0 <= p.

Theorem gen_vector_in_box : forall params draws v,
  Forall q_wf params -> Forall (fun r => 0 <= r /\ r < 1) draws ->
  gen_vector params draws = Some v ->
  length v = length params /\ Forall2 q_inside params v.
Proof.
  induction params as [|[[lb ub] p] ps IH]; intros draws v W D HG.
  - destruct draws; [|discriminate]. inversion HG; subst. split; [reflexivity|constructor].
  - destruct draws as [|r ds]; [discriminate|]. cbn in HG.
    destruct (gen_vector ps ds) as [l|] eqn:E; [|discriminate]. inversion HG; subst.
    inversion W as [|? ? Wq W']; subst. cbn in Wq. destruct Wq as [Wb Wp]. inversion D as [|? ? [R0 R1] D']; subst.
    destruct (IH _ _ W' D' E) as [L F]. split; [cbn; congruence|].
    constructor; [|exact F]. cbn. apply gen_number_in_box; assumption.
Qed.
