(* Proofs about Model/ParetoBench.v: the defining identities of DTLZ1-4, ZDT1 and the
   bi-objective test problem, for every number of objectives (induction / telescoping). *)
From Coq Require Import Reals List Arith Lia Lra.
From Artap Require Import Model.ParetoBench.
Import ListNotations.
Local Open Scope R_scope.

(* ------------------------------------------------------------------ sums *)
Lemma sum_cons : forall a l, sum (a :: l) = a + sum l.
Proof. reflexivity. Qed.

Lemma fold_left_Rplus_acc : forall l a, fold_left Rplus l a = a + sum l.
Proof.
  induction l as [|b l IH]; intros a; cbn [fold_left].
  - unfold sum; simpl; lra.
  - rewrite IH, sum_cons. lra.
Qed.

Lemma pysum_sum : forall l, pysum l = sum l.
Proof. intros l. unfold pysum. rewrite fold_left_Rplus_acc. lra. Qed.

Lemma sum_scale : forall (A : Type) (f : A -> R) c l,
  sum (map (fun i => c * f i) l) = c * sum (map f l).
Proof.
  intros A f c l. induction l as [|a l IH]; cbn [map].
  - unfold sum; simpl; lra.
  - rewrite !sum_cons, IH. lra.
Qed.

Lemma sum_sq_scale : forall (A : Type) (f : A -> R) c l,
  sum_sq (map (fun i => c * f i) l) = c ^ 2 * sum_sq (map f l).
Proof.
  intros A f c l. unfold sum_sq. induction l as [|a l IH]; cbn [map].
  - unfold sum; simpl; lra.
  - rewrite !sum_cons, IH. ring.
Qed.

Lemma sum_nonneg : forall l, all_nonneg l -> 0 <= sum l.
Proof.
  induction 1 as [|a l Ha _ IH].
  - unfold sum; simpl; lra.
  - rewrite sum_cons. lra.
Qed.

Lemma all_nonneg_map : forall (A : Type) (f : A -> R) l, (forall a, 0 <= f a) -> all_nonneg (map f l).
Proof. intros A f l Hf. induction l; simpl; constructor; auto. Qed.

(* ------------------------------------------------------------------ the two loops *)
Lemma mul_loop_S : forall t n a, mul_loop t (S n) a = mul_loop t n a * t n.
Proof. intros t n a. unfold mul_loop. rewrite seq_S, fold_left_app. reflexivity. Qed.

Lemma mul_loop_0 : forall t a, mul_loop t 0 a = a.
Proof. reflexivity. Qed.

Lemma mul_loop_scale : forall t n a, mul_loop t n a = a * mul_loop t n 1.
Proof.
  intros t n a. induction n as [|n IH].
  - rewrite !mul_loop_0. lra.
  - rewrite !mul_loop_S, IH. ring.
Qed.

Lemma mul_loop_nonneg : forall t n, (forall j, 0 <= t j) -> 0 <= mul_loop t n 1.
Proof.
  intros t n Ht. induction n as [|n IH].
  - rewrite mul_loop_0. lra.
  - rewrite mul_loop_S. apply Rmult_le_pos; auto.
Qed.

Lemma skipn_nth_cons : forall (x : list R) n d, (n < length x)%nat ->
  skipn n x = nth n x d :: skipn (S n) x.
Proof.
  induction x as [|a x IH]; intros n d Hn; simpl in Hn; [lia|].
  destruct n as [|n]; [reflexivity|].
  change (skipn (S n) (a :: x)) with (skipn n x).
  change (nth (S n) (a :: x) d) with (nth n x d).
  change (skipn (S (S n)) (a :: x)) with (skipn (S n) x).
  apply IH. lia.
Qed.

Lemma tail_loop_S : forall term k x a,
  tail_loop term (S k) x a = tail_loop term k x a + term (nth (length x - k - 1) x 0).
Proof. intros. unfold tail_loop. rewrite seq_S, fold_left_app. reflexivity. Qed.

(* the g loop of DTLZII-IV adds the terms of the last k variables (from the back) *)
Lemma tail_loop_lastn : forall term k x a, (k <= length x)%nat ->
  tail_loop term k x a = a + sum (map term (lastn k x)).
Proof.
  intros term k x a. induction k as [|k IH]; intros Hk.
  - unfold tail_loop, lastn. simpl. rewrite Nat.sub_0_r, skipn_all. unfold sum; simpl; lra.
  - rewrite tail_loop_S, IH by lia. unfold lastn.
    rewrite (skipn_nth_cons x (length x - S k) 0) by lia.
    replace (S (length x - S k)) with (length x - k)%nat by lia.
    replace (length x - k - 1)%nat with (length x - S k)%nat by lia.
    cbn [map]. rewrite sum_cons. lra.
Qed.

Lemma lastn_length : forall k (x : list R), (k <= length x)%nat -> length (lastn k x) = k.
Proof. intros k x Hk. unfold lastn. rewrite skipn_length. lia. Qed.

(* ------------------------------------------------------------------ telescoping *)
Section Shape.
  Variables c s : nat -> R.

  (* objective i of m, up to the common factor: c_0 ... c_{m-i-2} * s_{m-i-1}  (no s for i = 0) *)
  Definition shape (m i : nat) : R :=
    mul_loop c (m - i - 1) 1 * (if (0 <? i)%nat then s (m - i - 1) else 1).

  Lemma shape_seq : forall (f : nat -> R) N,
    map f (seq 0 (S N)) = f 0%nat :: map (fun i => f (S i)) (seq 0 N).
  Proof. intros f N. simpl. rewrite <- seq_shift, map_map. reflexivity. Qed.

  Lemma shape_tail : forall N i, shape (S N) (S i) = mul_loop c (N - i - 1) 1 * s (N - i - 1)%nat.
  Proof. intros N i. unfold shape. reflexivity. Qed.

  Lemma shape_head : forall N, shape (S N) 0 = mul_loop c N 1.
  Proof. intros N. unfold shape. simpl. rewrite Nat.sub_0_r. lra. Qed.

  Lemma tele_lin : (forall n, c n + s n = 1) -> forall N,
    mul_loop c N 1 + sum (map (fun i => mul_loop c (N - i - 1) 1 * s (N - i - 1)%nat) (seq 0 N)) = 1.
  Proof.
    intros Hcs. induction N as [|N IH].
    - simpl. rewrite mul_loop_0. unfold sum; simpl; lra.
    - rewrite shape_seq, sum_cons.
      cbn beta.
      change (fun i => mul_loop c (S N - S i - 1) 1 * s (S N - S i - 1)%nat)
        with (fun i => mul_loop c (N - i - 1) 1 * s (N - i - 1)%nat).
      replace (S N - 0 - 1)%nat with N by lia.
      rewrite mul_loop_S. specialize (Hcs N).
      replace (c N) with (1 - s N) by lra. lra.
  Qed.

  Lemma tele_sq : (forall n, c n ^ 2 + s n ^ 2 = 1) -> forall N,
    mul_loop c N 1 ^ 2 +
    sum_sq (map (fun i => mul_loop c (N - i - 1) 1 * s (N - i - 1)%nat) (seq 0 N)) = 1.
  Proof.
    intros Hcs. unfold sum_sq. induction N as [|N IH].
    - simpl. rewrite mul_loop_0. unfold sum; simpl; lra.
    - rewrite shape_seq. simpl map at 1. rewrite sum_cons.
      cbn beta.
      change (fun i => mul_loop c (S N - S i - 1) 1 * s (S N - S i - 1)%nat)
        with (fun i => mul_loop c (N - i - 1) 1 * s (N - i - 1)%nat).
      rewrite !Nat.sub_0_r.
      rewrite mul_loop_S. specialize (Hcs N).
      set (P := mul_loop c N 1) in *.
      set (T := sum _) in *.
      replace ((P * c N) ^ 2 + (P * s N * (P * s N) + T))
        with (P ^ 2 * (c N ^ 2 + s N ^ 2) + T) by ring.
      rewrite Hcs. lra.
  Qed.

  Lemma shape_sum : (forall n, c n + s n = 1) -> forall m, (1 <= m)%nat ->
    sum (map (shape m) (seq 0 m)) = 1.
  Proof.
    intros Hcs m Hm. destruct m as [|N]; [lia|].
    rewrite shape_seq, sum_cons, shape_head.
    rewrite (map_ext _ _ (shape_tail N)). apply tele_lin, Hcs.
  Qed.

  Lemma shape_sum_sq : (forall n, c n ^ 2 + s n ^ 2 = 1) -> forall m, (1 <= m)%nat ->
    sum_sq (map (shape m) (seq 0 m)) = 1.
  Proof.
    intros Hcs m Hm. destruct m as [|N]; [lia|].
    rewrite shape_seq. unfold sum_sq at 1. simpl map at 1. rewrite sum_cons, shape_head.
    rewrite (map_ext _ _ (shape_tail N)).
    replace (mul_loop c N 1 * mul_loop c N 1) with (mul_loop c N 1 ^ 2) by ring.
    apply tele_sq, Hcs.
  Qed.

  Lemma shape_nonneg : (forall j, 0 <= c j) -> (forall j, 0 <= s j) -> forall m i, 0 <= shape m i.
  Proof.
    intros Hc Hs m i. unfold shape. apply Rmult_le_pos.
    - apply mul_loop_nonneg, Hc.
    - destruct (0 <? i)%nat; [apply Hs | lra].
  Qed.
End Shape.

(* ------------------------------------------------------------------ distance functions *)
Lemma g_sphere_nonneg : forall xm, 0 <= g_sphere xm.
Proof.
  intros xm. unfold g_sphere. apply sum_nonneg, all_nonneg_map. intros a. apply pow2_ge_0.
Qed.

Lemma g_multimodal_nonneg : forall xm, 0 <= g_multimodal xm.
Proof.
  intros xm. unfold g_multimodal.
  assert (0 <= INR (length xm) + sum (map (fun y => (y - 0.5) ^ 2 - cos (20 * PI * (y - 0.5))) xm)); [|lra].
  induction xm as [|a xm IH].
  - simpl. unfold sum; simpl; lra.
  - cbn [length map]. rewrite S_INR, sum_cons.
    pose proof (pow2_ge_0 (a - 0.5)). pose proof (COS_bound (20 * PI * (a - 0.5))) as [_ Hc]. lra.
Qed.

Lemma g_sphere_half : forall xm, Forall (fun y => y = 0.5) xm -> g_sphere xm = 0.
Proof.
  intros xm Hx. unfold g_sphere. induction Hx as [|a xm Ha _ IH].
  - reflexivity.
  - cbn [map]. rewrite sum_cons, IH, Ha. lra.
Qed.

Lemma g_multimodal_half : forall xm, Forall (fun y => y = 0.5) xm -> g_multimodal xm = 0.
Proof.
  intros xm Hx. unfold g_multimodal.
  assert (INR (length xm) + sum (map (fun y => (y - 0.5) ^ 2 - cos (20 * PI * (y - 0.5))) xm) = 0) as E; [|rewrite E; lra].
  induction Hx as [|a xm Ha _ IH].
  - simpl. unfold sum; simpl; lra.
  - cbn [length map]. rewrite S_INR, sum_cons, Ha.
    replace (20 * PI * (0.5 - 0.5)) with 0 by lra. rewrite cos_0. lra.
Qed.

(* the code's g of DTLZI is the multimodal distance function of the last k = n - m + 1 variables *)
Lemma dtlz1_g_spec : forall m k x, (1 <= m)%nat -> (1 <= k)%nat -> length x = (m + k - 1)%nat ->
  dtlz1_g m x = g_multimodal (lastn k x).
Proof.
  intros m k x Hm Hk Hlen. unfold dtlz1_g, g_multimodal.
  replace (length x - m + 1)%nat with k by lia.
  fold (lastn k x). rewrite lastn_length by lia. rewrite pysum_sum.
  f_equal. f_equal. f_equal. apply map_ext. intros a. unfold dtlz1_gterm. ring.
Qed.

Lemma dtlz2_gm_spec : forall x, (10 <= length x)%nat -> tail_loop sq_term 10 x 0 = g_sphere (lastn 10 x).
Proof. intros x Hx. rewrite tail_loop_lastn by lia. unfold g_sphere, sq_term. lra. Qed.

Lemma dtlz3_gm_spec : forall x, (10 <= length x)%nat ->
  100 * tail_loop dtlz3_gterm 10 x 10 = g_multimodal (lastn 10 x).
Proof.
  intros x Hx. rewrite tail_loop_lastn by lia. unfold g_multimodal.
  rewrite lastn_length by lia. unfold dtlz3_gterm. simpl INR. lra.
Qed.

(* ------------------------------------------------------------------ box facts *)
Lemma nth_in_unit_box : forall x j, in_box 0 1 x -> 0 <= nth j x 0 <= 1.
Proof.
  intros x j Hx. destruct (nth_in_or_default j x 0) as [Hin | ->]; [|lra].
  unfold in_box in Hx. rewrite Forall_forall in Hx. apply Hx, Hin.
Qed.

Lemma cos_quarter_nonneg : forall y, 0 <= y <= 1 -> 0 <= cos (0.5 * y * PI).
Proof.
  intros y Hy. pose proof PI_RGT_0 as Hpi. apply cos_ge_0; nra.
Qed.

Lemma sin_quarter_nonneg : forall y, 0 <= y <= 1 -> 0 <= sin (y * PI / 2).
Proof.
  intros y Hy. pose proof PI_RGT_0 as Hpi. apply sin_ge_0; nra.
Qed.

Lemma pow_unit : forall y n, 0 <= y <= 1 -> 0 <= y ^ n <= 1.
Proof.
  intros y n Hy. split; [apply pow_le; lra|].
  rewrite <- (pow1 n). apply pow_incr. lra.
Qed.

Lemma cos2_sin2_quarter : forall a, cos (0.5 * a * PI) ^ 2 + sin (a * PI / 2) ^ 2 = 1.
Proof.
  intros a. replace (0.5 * a * PI) with (a * PI / 2) by lra.
  pose proof (sin2_cos2 (a * PI / 2)) as E. unfold Rsqr in E. lra.
Qed.

(* ------------------------------------------------------------------ DTLZ1 *)
Lemma dtlz1_shape : forall m x,
  dtlz1 m x = map (fun i => (0.5 * (1 + dtlz1_g m x)) *
                            shape (fun j => nth j x 0) (fun j => 1 - nth j x 0) m i) (seq 0 m).
Proof.
  intros m x. unfold dtlz1. apply map_ext. intros i. unfold dtlz1_obj, shape.
  rewrite mul_loop_scale. destruct (0 <? i)%nat; ring.
Qed.

Lemma dtlz1_sum : forall m k x, (1 <= m)%nat -> (1 <= k)%nat -> length x = (m + k - 1)%nat ->
  sum (dtlz1 m x) = (1 + g_multimodal (lastn k x)) / 2.
Proof.
  intros m k x Hm Hk Hlen. rewrite dtlz1_shape, sum_scale, shape_sum by (auto; intros; lra).
  rewrite (dtlz1_g_spec m k x) by auto. lra.
Qed.

Lemma dtlz1_nonneg : forall m k x, (1 <= m)%nat -> (1 <= k)%nat -> length x = (m + k - 1)%nat ->
  in_box 0 1 x -> all_nonneg (dtlz1 m x).
Proof.
  intros m k x Hm Hk Hlen Hbox. rewrite dtlz1_shape. apply all_nonneg_map. intros i.
  rewrite (dtlz1_g_spec m k x) by auto. pose proof (g_multimodal_nonneg (lastn k x)).
  apply Rmult_le_pos; [lra|]. apply shape_nonneg; intros j; pose proof (nth_in_unit_box x j Hbox); lra.
Qed.

(* ------------------------------------------------------------------ DTLZ2 / DTLZ3 / DTLZ4 *)
Lemma norm_of_scaled_shape : forall G (sh : nat -> R) m,
  0 <= G -> sum_sq (map sh (seq 0 m)) = 1 -> norm2 (map (fun i => G * sh i) (seq 0 m)) = G.
Proof.
  intros G sh m HG Hs. unfold norm2. rewrite sum_sq_scale, Hs, Rmult_1_r. apply sqrt_pow2, HG.
Qed.

Definition c2 (x : list R) (j : nat) : R := cos (0.5 * nth j x 0 * PI).
Definition s2 (x : list R) (j : nat) : R := sin (nth j x 0 * PI / 2).
Definition c4 (x : list R) (j : nat) : R := cos (0.5 * nth j x 0 ^ dtlz4_alpha * PI).
Definition s4 (x : list R) (j : nat) : R := sin (nth j x 0 ^ dtlz4_alpha * PI / 2).

Lemma dtlz2_shape : forall m x,
  dtlz2 m x = map (fun i => (1 + tail_loop sq_term 10 x 0) * shape (c2 x) (s2 x) m i) (seq 0 m).
Proof.
  intros m x. unfold dtlz2. apply map_ext. intros i. unfold dtlz2_obj, shape, c2, s2.
  destruct (0 <? i)%nat; ring.
Qed.

Lemma dtlz3_shape : forall m x,
  dtlz3 m x = map (fun i => (1 + 100 * tail_loop dtlz3_gterm 10 x 10) * shape (c2 x) (s2 x) m i) (seq 0 m).
Proof.
  intros m x. unfold dtlz3. apply map_ext. intros i. unfold dtlz3_obj, shape, c2, s2.
  destruct (0 <? i)%nat; ring.
Qed.

Lemma dtlz4_shape : forall m x,
  dtlz4 m x = map (fun i => (1 + tail_loop sq_term 10 x 0) * shape (c4 x) (s4 x) m i) (seq 0 m).
Proof.
  intros m x. unfold dtlz4. apply map_ext. intros i. unfold dtlz4_obj, shape, c4, s4.
  destruct (0 <? i)%nat; ring.
Qed.

Lemma dtlz2_sum_sq : forall m x, (1 <= m)%nat -> length x = (m + 9)%nat ->
  sum_sq (dtlz2 m x) = (1 + g_sphere (lastn 10 x)) ^ 2.
Proof.
  intros m x Hm Hlen. rewrite dtlz2_shape, sum_sq_scale, shape_sum_sq, dtlz2_gm_spec by
    (auto; try lia; intros; apply cos2_sin2_quarter). lra.
Qed.

Lemma dtlz2_norm : forall m x, (1 <= m)%nat -> length x = (m + 9)%nat ->
  norm2 (dtlz2 m x) = 1 + g_sphere (lastn 10 x).
Proof.
  intros m x Hm Hlen. rewrite dtlz2_shape, dtlz2_gm_spec by lia.
  apply norm_of_scaled_shape.
  - pose proof (g_sphere_nonneg (lastn 10 x)). lra.
  - apply shape_sum_sq; auto. intros. apply cos2_sin2_quarter.
Qed.

Lemma dtlz3_norm : forall m x, (1 <= m)%nat -> length x = (m + 9)%nat ->
  norm2 (dtlz3 m x) = 1 + g_multimodal (lastn 10 x).
Proof.
  intros m x Hm Hlen. rewrite dtlz3_shape, dtlz3_gm_spec by lia.
  apply norm_of_scaled_shape.
  - pose proof (g_multimodal_nonneg (lastn 10 x)). lra.
  - apply shape_sum_sq; auto. intros. apply cos2_sin2_quarter.
Qed.

Lemma dtlz4_norm : forall m x, (1 <= m)%nat -> length x = (m + 9)%nat ->
  norm2 (dtlz4 m x) = 1 + g_sphere (lastn 10 x).
Proof.
  intros m x Hm Hlen. rewrite dtlz4_shape, dtlz2_gm_spec by lia.
  apply norm_of_scaled_shape.
  - pose proof (g_sphere_nonneg (lastn 10 x)). lra.
  - apply shape_sum_sq; auto. intros. unfold c4, s4. apply cos2_sin2_quarter.
Qed.

Lemma dtlz2_nonneg : forall m x, (1 <= m)%nat -> length x = (m + 9)%nat -> in_box 0 1 x ->
  all_nonneg (dtlz2 m x).
Proof.
  intros m x Hm Hlen Hbox. rewrite dtlz2_shape, dtlz2_gm_spec by lia. apply all_nonneg_map. intros i.
  pose proof (g_sphere_nonneg (lastn 10 x)). apply Rmult_le_pos; [lra|].
  apply shape_nonneg; intros j; [apply cos_quarter_nonneg | apply sin_quarter_nonneg];
    apply nth_in_unit_box, Hbox.
Qed.

Lemma dtlz3_nonneg : forall m x, (1 <= m)%nat -> length x = (m + 9)%nat -> in_box 0 1 x ->
  all_nonneg (dtlz3 m x).
Proof.
  intros m x Hm Hlen Hbox. rewrite dtlz3_shape, dtlz3_gm_spec by lia. apply all_nonneg_map. intros i.
  pose proof (g_multimodal_nonneg (lastn 10 x)). apply Rmult_le_pos; [lra|].
  apply shape_nonneg; intros j; [apply cos_quarter_nonneg | apply sin_quarter_nonneg];
    apply nth_in_unit_box, Hbox.
Qed.

Lemma dtlz4_nonneg : forall m x, (1 <= m)%nat -> length x = (m + 9)%nat -> in_box 0 1 x ->
  all_nonneg (dtlz4 m x).
Proof.
  intros m x Hm Hlen Hbox. rewrite dtlz4_shape, dtlz2_gm_spec by lia. apply all_nonneg_map. intros i.
  pose proof (g_sphere_nonneg (lastn 10 x)). apply Rmult_le_pos; [lra|].
  apply shape_nonneg; intros j; [apply cos_quarter_nonneg | apply sin_quarter_nonneg];
    apply pow_unit, nth_in_unit_box, Hbox.
Qed.

(* ------------------------------------------------------------------ Pareto-optimal set *)
Lemma pareto_set_images : forall m x, (1 <= m)%nat -> length x = (m + 9)%nat ->
  Forall (fun y => y = 0.5) (lastn 10 x) ->
  sum (dtlz1 m x) = 0.5 /\ norm2 (dtlz2 m x) = 1 /\ norm2 (dtlz3 m x) = 1 /\ norm2 (dtlz4 m x) = 1.
Proof.
  intros m x Hm Hlen Hhalf.
  rewrite (dtlz1_sum m 10 x), dtlz2_norm, dtlz3_norm, dtlz4_norm by (auto; lia).
  rewrite g_sphere_half, g_multimodal_half by assumption. repeat split; lra.
Qed.

(* DTLZ1 with any k >= 1 *)
Lemma dtlz1_pareto_set_image : forall m k x, (1 <= m)%nat -> (1 <= k)%nat -> length x = (m + k - 1)%nat ->
  Forall (fun y => y = 0.5) (lastn k x) -> sum (dtlz1 m x) = 0.5.
Proof.
  intros m k x Hm Hk Hlen Hhalf. rewrite (dtlz1_sum m k x), g_multimodal_half by auto. lra.
Qed.

(* ------------------------------------------------------------------ ZDT1 *)
Lemma zdt1_g_spec : forall x, (2 <= length x)%nat -> zdt1_eval_g x = 1 + 9 * mean (tl x).
Proof.
  intros [|a t] Hlen; simpl in Hlen; [lia|]. unfold zdt1_eval_g, mean. cbn [tl nth length].
  rewrite pysum_sum, sum_cons, S_INR.
  assert (INR (length t) <> 0) as Hn by (apply not_0_INR; lia).
  field; repeat split; first [exact Hn | lra].
Qed.

Lemma zdt1_g_ge_1 : forall x, (2 <= length x)%nat -> in_box 0 1 x -> 1 <= 1 + 9 * mean (tl x).
Proof.
  intros [|a t] Hlen Hbox; simpl in Hlen; [lia|]. cbn [tl]. unfold mean.
  assert (0 < INR (length t)) as Hn by (apply lt_0_INR; lia).
  assert (0 <= sum t) as Hs.
  { apply sum_nonneg. inversion Hbox as [|? ? _ Ht]; subst.
    unfold all_nonneg. eapply Forall_impl; [|exact Ht]. simpl; intros; lra. }
  assert (0 <= sum t / INR (length t)); [|lra].
  unfold Rdiv. apply Rle_mult_inv_pos; assumption.
Qed.

Lemma zdt1_identity : forall x, (2 <= length x)%nat ->
  let g := 1 + 9 * mean (tl x) in
  nth 0 (zdt1 x) 0 = nth 0 x 0 /\
  nth 1 (zdt1 x) 0 = g * (1 - sqrt (nth 0 (zdt1 x) 0 / g)).
Proof.
  intros x Hlen g. unfold zdt1. cbn [nth]. rewrite zdt1_g_spec by assumption. fold g.
  unfold zdt1_eval_h. split; [reflexivity | ring].
Qed.

(* every division and square root of ZDT1 is well defined on the box *)
Lemma zdt1_well_defined : forall x, (2 <= length x)%nat -> in_box 0 1 x ->
  let g := 1 + 9 * mean (tl x) in 1 <= g /\ 0 <= nth 0 x 0 / g <= 1.
Proof.
  intros x Hlen Hbox g. pose proof (zdt1_g_ge_1 x Hlen Hbox) as Hg. fold g in Hg.
  pose proof (nth_in_unit_box x 0 Hbox) as Hx0.
  split; [exact Hg|]. split.
  - unfold Rdiv. apply Rle_mult_inv_pos; lra.
  - apply (Rmult_le_reg_r g); [lra|]. unfold Rdiv. rewrite Rmult_assoc, Rinv_l by lra. lra.
Qed.

Lemma zdt1_nonneg : forall x, (2 <= length x)%nat -> in_box 0 1 x -> all_nonneg (zdt1 x).
Proof.
  intros x Hlen Hbox. pose proof (zdt1_well_defined x Hlen Hbox) as [Hg [Hlo Hhi]].
  pose proof (nth_in_unit_box x 0 Hbox) as Hx0.
  unfold zdt1. rewrite zdt1_g_spec by assumption. unfold zdt1_eval_h.
  set (g := 1 + 9 * mean (tl x)) in *.
  unfold all_nonneg. apply Forall_cons; [lra|]. apply Forall_cons; [|apply Forall_nil].
  apply Rmult_le_pos; [|lra].
  assert (sqrt (nth 0 x 0 / g) <= 1); [|lra].
  rewrite <- sqrt_1. apply sqrt_le_1; lra.
Qed.

(* ------------------------------------------------------------------ bi-objective problem *)
Definition biobj_box (x : list R) : Prop :=
  exists x1 x2, x = [x1; x2] /\ 0.1 <= x1 <= 1 /\ 0 <= x2 <= 5.

Lemma biobjective_identity : forall x, biobj_box x ->
  nth 0 x 0 <> 0 /\ nth 0 (biobj x) 0 * nth 1 (biobj x) 0 = 1 + nth 1 x 0.
Proof.
  intros x (x1 & x2 & -> & H1 & H2). unfold biobj. cbn [nth].
  split; [lra | field; lra].
Qed.

Lemma biobjective_nonneg : forall x, biobj_box x -> all_nonneg (biobj x).
Proof.
  intros x (x1 & x2 & -> & H1 & H2). unfold biobj. cbn [nth].
  unfold all_nonneg. apply Forall_cons; [lra|]. apply Forall_cons; [|apply Forall_nil].
  unfold Rdiv. apply Rle_mult_inv_pos; lra.
Qed.

(* ------------------------------------------------------------------ finding F6 (documentation) *)
(* with the sine factor indexed x[m - i] (the code before the fix) the identity fails already for
   m = 2 at a corner of the box *)
Definition f6_point : list R := [0; 1; 0.5; 0.5; 0.5; 0.5; 0.5; 0.5; 0.5; 0.5; 0.5].

Lemma dtlz2_F6_values : sum_sq (dtlz2_F6 2 f6_point) = 3.125 /\ (1 + g_sphere (lastn 10 f6_point)) ^ 2 = 1.5625.
Proof.
  unfold dtlz2_F6, dtlz2_obj_F6, f6_point, sum_sq, sum, g_sphere, lastn, tail_loop, mul_loop, sq_term.
  cbn [map seq fold_left fold_right nth length Nat.sub Nat.ltb Nat.leb skipn].
  replace (0.5 * 0 * PI) with 0 by lra. replace (1 * PI / 2) with (PI / 2) by lra.
  rewrite cos_0, sin_PI2. split; [lra|]. unfold sum. cbn [fold_right]. lra.
Qed.

Lemma dtlz2_buggy_index_refuted : exists x, length x = (2 + 9)%nat /\ in_box 0 1 x /\
  norm2 (dtlz2_F6 2 x) <> 1 + g_sphere (lastn 10 x).
Proof.
  exists f6_point. split; [reflexivity|]. split.
  - unfold f6_point, in_box. repeat (apply Forall_cons; [lra|]). apply Forall_nil.
  - destruct dtlz2_F6_values as [E1 E2]. unfold norm2. intros E.
    assert (sqrt (sum_sq (dtlz2_F6 2 f6_point)) ^ 2 = 1.5625) as E3 by (rewrite E; exact E2).
    rewrite E1 in E3. rewrite pow2_sqrt in E3; lra.
Qed.

(* ------------------------------------------------------------------ summary lemmas *)
Lemma nonneg_on_box :
  (forall m k x, (1 <= m)%nat -> (1 <= k)%nat -> length x = (m + k - 1)%nat -> in_box 0 1 x ->
     all_nonneg (dtlz1 m x)) /\
  (forall m x, (1 <= m)%nat -> length x = (m + 9)%nat -> in_box 0 1 x ->
     all_nonneg (dtlz2 m x) /\ all_nonneg (dtlz3 m x) /\ all_nonneg (dtlz4 m x)) /\
  (forall x, (2 <= length x)%nat -> in_box 0 1 x -> all_nonneg (zdt1 x)) /\
  (forall x, biobj_box x -> all_nonneg (biobj x)).
Proof.
  split; [exact dtlz1_nonneg|]. split; [|split; [exact zdt1_nonneg | exact biobjective_nonneg]].
  intros m x Hm Hlen Hbox. auto using dtlz2_nonneg, dtlz3_nonneg, dtlz4_nonneg.
Qed.

Lemma objective_counts : forall m x,
  length (dtlz1 m x) = m /\ length (dtlz2 m x) = m /\ length (dtlz3 m x) = m /\ length (dtlz4 m x) = m /\
  length (zdt1 x) = 2%nat /\ length (biobj x) = 2%nat.
Proof.
  intros m x. unfold dtlz1, dtlz2, dtlz3, dtlz4. rewrite !map_length, !seq_length.
  repeat split; reflexivity.
Qed.

(* with dimension m + 9 the ten distance variables are exactly the variables after the m - 1
   position variables *)
Lemma lastn_distance_vars : forall m (x : list R), (1 <= m)%nat -> length x = (m + 9)%nat ->
  lastn 10 x = skipn (m - 1) x.
Proof. intros m x Hm Hlen. unfold lastn. f_equal. lia. Qed.
