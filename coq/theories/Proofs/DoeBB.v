(* C13, Box-Behnken: for every n >= 3 the coded design is duplicate-free and its rows are exactly
   the four +/-1 corners of every factor pair i < j with all other factors 0, plus one centre run.
   General proof (no bound on n). *)
From Coq Require Import List ZArith Bool Arith Lia.
From Artap Require Import Model.Doe Proofs.DoeLists Proofs.DoeFullfact.
Import ListNotations.
Local Open Scope nat_scope.

(* ---------------------------------------------------------------- upd --------------- *)
Lemma upd_length {A} i (v : A) l : length (upd i v l) = length l.
Proof. revert i. induction l as [|h t IH]; intros [|i]; simpl; try reflexivity. rewrite IH. reflexivity. Qed.

Lemma nth_upd_eq {A} i (v d : A) l : i < length l -> nth i (upd i v l) d = v.
Proof.
  revert i. induction l as [|h t IH]; intros [|i] L; simpl in *; try lia; [reflexivity|].
  apply IH. lia.
Qed.

Lemma nth_upd_neq {A} i k (v d : A) l : k <> i -> nth k (upd i v l) d = nth k l d.
Proof.
  revert i k. induction l as [|h t IH]; intros [|i] [|k] Ne; simpl; try reflexivity; try lia.
  apply IH. lia.
Qed.

Lemma nth_zero_row n k : nth k (repeat 0%Z n) 0%Z = 0%Z.
Proof. apply nth_repeat. Qed.

(* ---------------------------------------------------------------- corners ----------- *)
Definition corner (n i j : nat) (a b : Z) : list Z := upd j b (upd i a (repeat 0%Z n)).

Lemma ff2n_2 : ff2n 2 = [[-1; -1]; [1; -1]; [-1; 1]; [1; 1]]%Z.
Proof. reflexivity. Qed.

Lemma bb_block_corners n i j :
  bb_block n i j = [corner n i j (-1) (-1); corner n i j 1 (-1); corner n i j (-1) 1; corner n i j 1 1].
Proof. unfold bb_block. rewrite ff2n_2. reflexivity. Qed.

Lemma corner_length n i j a b : length (corner n i j a b) = n.
Proof. unfold corner. rewrite !upd_length, repeat_length. reflexivity. Qed.

Lemma corner_i n i j a b : i < j < n -> nth i (corner n i j a b) 0%Z = a.
Proof.
  intros H. unfold corner. rewrite nth_upd_neq by lia. apply nth_upd_eq. rewrite repeat_length. lia.
Qed.

Lemma corner_j n i j a b : i < j < n -> nth j (corner n i j a b) 0%Z = b.
Proof. intros H. unfold corner. apply nth_upd_eq. rewrite upd_length, repeat_length. lia. Qed.

Lemma corner_other n i j a b k : k <> i -> k <> j -> nth k (corner n i j a b) 0%Z = 0%Z.
Proof. intros Hi Hj. unfold corner. rewrite !nth_upd_neq by assumption. apply nth_zero_row. Qed.

Definition pm1 (z : Z) : Prop := z = (-1)%Z \/ z = 1%Z.

(* the declarative description of a row of the design for n factors *)
Definition bb_corner_row (n : nat) (row : list Z) : Prop :=
  exists i j, i < j < n /\ pm1 (nth i row 0%Z) /\ pm1 (nth j row 0%Z) /\
              forall k, k <> i -> k <> j -> nth k row 0%Z = 0%Z.
Definition bb_centre_row (n : nat) (row : list Z) : Prop := forall k, nth k row 0%Z = 0%Z.
Definition bb_spec_row (n : nat) (row : list Z) : Prop :=
  length row = n /\ (bb_corner_row n row \/ bb_centre_row n row).

Lemma in_block n i j row : i < j < n ->
  (In row (bb_block n i j) <->
   length row = n /\ pm1 (nth i row 0%Z) /\ pm1 (nth j row 0%Z) /\
   forall k, k <> i -> k <> j -> nth k row 0%Z = 0%Z).
Proof.
  intros H. rewrite bb_block_corners. split.
  - intros I. simpl in I.
    destruct I as [<-|[<-|[<-|[<-|[]]]]];
      (split; [apply corner_length|]); rewrite corner_i, corner_j by exact H;
      (split; [unfold pm1; auto|]); (split; [unfold pm1; auto|]);
      intros k Hi Hj; apply corner_other; assumption.
  - intros (L & A & B & Z0).
    assert (row = corner n i j (nth i row 0%Z) (nth j row 0%Z)) as E.
    { apply (nth_ext _ _ 0%Z 0%Z); [rewrite corner_length; exact L|]. intros k Lk.
      destruct (Nat.eq_dec k i) as [->|Ni]; [rewrite corner_i by exact H; reflexivity|].
      destruct (Nat.eq_dec k j) as [->|Nj]; [rewrite corner_j by exact H; reflexivity|].
      rewrite corner_other by assumption. apply Z0; assumption. }
    rewrite E. destruct A as [-> | ->], B as [-> | ->]; simpl; auto.
Qed.

(* the factor pairs in loop order *)
Definition bb_pairs_rows (n : nat) : list (list Z) :=
  flat_map (fun i => flat_map (fun j => bb_block n i j) (seq (i + 1) (n - (i + 1)))) (seq 0 (n - 1)).

Lemma bb_rows_split n center : bb_rows n center = bb_pairs_rows n ++ repeat (repeat 0%Z n) center.
Proof. reflexivity. Qed.

Lemma in_pairs_rows n row :
  In row (bb_pairs_rows n) <-> length row = n /\ bb_corner_row n row.
Proof.
  unfold bb_pairs_rows. rewrite in_flat_map. split.
  - intros (i & Ii & I). apply in_flat_map in I. destruct I as (j & Ij & I).
    apply in_seq in Ii. apply in_seq in Ij. assert (i < j < n) as H by lia.
    apply (in_block n i j row H) in I. destruct I as (L & A & B & Z0).
    split; [exact L|]. exists i, j. auto.
  - intros (L & i & j & H & A & B & Z0). exists i. split; [apply in_seq; lia|].
    apply in_flat_map. exists j. split; [apply in_seq; lia|].
    apply (in_block n i j row H). auto.
Qed.

Lemma pm1_nonzero z : pm1 z -> z <> 0%Z.
Proof. intros [-> | ->]; discriminate. Qed.

(* a row lies in the block of one pair only: the pair is the support of the row *)
Lemma block_pair_unique n i j i' j' row : i < j < n -> i' < j' < n ->
  In row (bb_block n i j) -> In row (bb_block n i' j') -> i = i' /\ j = j'.
Proof.
  intros H H' I I'. apply (in_block n i j row H) in I. apply (in_block n i' j' row H') in I'.
  destruct I as (_ & A & B & Z0). destruct I' as (_ & A' & B' & Z0').
  apply pm1_nonzero in A, B, A', B'.
  assert (i = i' \/ i = j') as Hi.
  { destruct (Nat.eq_dec i i'); [auto|]. destruct (Nat.eq_dec i j'); [auto|]. exfalso. apply A. apply Z0'; assumption. }
  assert (j = i' \/ j = j') as Hj.
  { destruct (Nat.eq_dec j i'); [auto|]. destruct (Nat.eq_dec j j'); [auto|]. exfalso. apply B. apply Z0'; assumption. }
  assert (i' = i \/ i' = j) as Hi'.
  { destruct (Nat.eq_dec i' i); [auto|]. destruct (Nat.eq_dec i' j); [auto|]. exfalso. apply A'. apply Z0; assumption. }
  lia.
Qed.

Lemma block_NoDup n i j : i < j < n -> NoDup (bb_block n i j).
Proof.
  intros H. rewrite bb_block_corners.
  assert (forall a b a' b', corner n i j a b = corner n i j a' b' -> a = a' /\ b = b') as Inj.
  { intros a b a' b' E. split.
    - rewrite <- (corner_i n i j a b H), E. apply corner_i. exact H.
    - rewrite <- (corner_j n i j a b H), E. apply corner_j. exact H. }
  repeat constructor; simpl; intuition;
    match goal with E : corner _ _ _ _ _ = corner _ _ _ _ _ |- _ => apply Inj in E; destruct E; discriminate end.
Qed.

Lemma pairs_rows_NoDup n : NoDup (bb_pairs_rows n).
Proof.
  unfold bb_pairs_rows. apply NoDup_flat_map_disj.
  - apply seq_NoDup.
  - intros i Ii. apply in_seq in Ii. apply NoDup_flat_map_disj.
    + apply seq_NoDup.
    + intros j Ij. apply in_seq in Ij. apply block_NoDup. lia.
    + intros j j' row Ij Ij' I I'. apply in_seq in Ij. apply in_seq in Ij'.
      apply (block_pair_unique n i j i j' row); try lia; assumption.
  - intros i i' row Ii Ii' I I'. apply in_seq in Ii. apply in_seq in Ii'.
    apply in_flat_map in I. destruct I as (j & Ij & I). apply in_flat_map in I'. destruct I' as (j' & Ij' & I').
    apply in_seq in Ij. apply in_seq in Ij'.
    apply (block_pair_unique n i j i' j' row); try lia; assumption.
Qed.

(* run count: 4 * C(n, 2) *)
Lemma sum_down k : 2 * list_sum (map (fun i => k - i) (seq 0 k)) = k * (k + 1).
Proof.
  induction k as [|k IH]; [reflexivity|].
  cbn [seq]. rewrite <- seq_shift. cbn [map]. rewrite map_map. unfold list_sum in *. cbn [fold_right].
  rewrite (map_ext (fun x => S k - S x) (fun i => k - i)) by (intros; lia).
  lia.
Qed.

Lemma list_sum_scale {A} c (f : A -> nat) l :
  list_sum (map (fun i => c * f i) l) = c * list_sum (map f l).
Proof.
  induction l as [|a l IH]; [simpl; lia|]. cbn [map]. unfold list_sum in *. cbn [fold_right].
  rewrite IH. ring.
Qed.

Lemma block_length n i j : length (bb_block n i j) = 4.
Proof. rewrite bb_block_corners. reflexivity. Qed.

Lemma pairs_rows_length n : length (bb_pairs_rows n) = 2 * n * (n - 1).
Proof.
  unfold bb_pairs_rows. rewrite flat_map_len.
  rewrite (map_ext _ (fun i => 4 * ((n - 1) - i))).
  2:{ intros i. rewrite flat_map_len. rewrite (map_ext _ (fun _ => 4)) by (intros; apply block_length).
      replace (n - 1 - i) with (length (seq (i + 1) (n - (i + 1)))) by (rewrite seq_length; lia).
      generalize (seq (i + 1) (n - (i + 1))) as l. induction l; simpl in *; lia. }
  pose proof (sum_down (n - 1)) as Hs.
  pose proof (list_sum_scale 4 (fun i => n - 1 - i)) as Hm.
  rewrite Hm. remember (list_sum (map (fun i => n - 1 - i) (seq 0 (n - 1)))) as X eqn:EX. clear EX Hm.
  destruct n as [|n]; [simpl in *; lia|]. replace (S n - 1) with n in * by lia. nia.
Qed.

(* ---------------------------------------------------------------- the theorem ------- *)
Theorem bb_structure : forall n, 3 <= n ->
  exists x, bbdesign n 1 = Ok x /\
    NoDup x /\
    length x = 2 * n * (n - 1) + 1 /\
    (forall row, In row x <-> bb_spec_row n row) /\
    (forall row, In row x -> bb_centre_row n row -> row = repeat 0%Z n).
Proof.
  intros n Hn. exists (bb_rows n 1). split.
  - unfold bbdesign. destruct (n <? 3) eqn:E; [apply Nat.ltb_lt in E; lia|reflexivity].
  - rewrite bb_rows_split. simpl repeat.
    assert (forall row, length row = n -> bb_centre_row n row -> row = repeat 0%Z n) as Hc.
    { intros row L C. apply (nth_ext _ _ 0%Z 0%Z); [rewrite repeat_length; exact L|].
      intros k _. rewrite nth_zero_row. apply C. }
    split; [|split; [|split]].
    + apply NoDup_app_intro; [apply pairs_rows_NoDup|apply NoDup_singleton|].
      intros row I [<-|[]]. apply in_pairs_rows in I. destruct I as (_ & i & j & H & A & _).
      rewrite nth_zero_row in A. apply pm1_nonzero in A. apply A. reflexivity.
    + rewrite app_length, pairs_rows_length. simpl. lia.
    + intros row. rewrite in_app_iff, in_pairs_rows. unfold bb_spec_row. split.
      * intros [[L C]|[<-|[]]]; [split; [exact L|left; exact C]|].
        split; [apply repeat_length|]. right. intros k. apply nth_zero_row.
      * intros (L & [C|C]); [left; split; assumption|]. right. left. symmetry. apply Hc; assumption.
    + intros row I C. apply in_app_iff in I. destruct I as [I|[<-|[]]]; [|reflexivity].
      apply in_pairs_rows in I. destruct I as [L _]. apply Hc; assumption.
Qed.

(* ---------------------------------------------------------------- level values ------ *)
Section Levels.
  Context {T : Type}.

  Definition bb_level (z : Z) : nat := Z.to_nat (z + 1).

  Lemma bb_index_lt row : forall (fl : list (list T)),
    length row = length fl -> (forall k, pm1 (nth k row 0%Z) \/ nth k row 0%Z = 0%Z) ->
    Forall (fun l => length l = 3) fl ->
    Forall2 lt (map bb_level row) (map (@length T) fl).
  Proof.
    induction row as [|x row IH]; intros fl L E F; destruct fl as [|l fl]; try discriminate; simpl.
    - constructor.
    - inversion F as [|? ? Hl F']; subst. constructor.
      + rewrite Hl. destruct (E 0) as [[Ex|Ex]|Ex]; simpl in Ex; rewrite Ex; vm_compute; lia.
      + apply IH; [simpl in L; lia|intros k; apply (E (S k))|exact F'].
  Qed.

  Lemma spec_row_entries n row : bb_spec_row n row -> forall k, pm1 (nth k row 0%Z) \/ nth k row 0%Z = 0%Z.
  Proof.
    intros (L & [(i & j & H & A & B & Z0)|C]) k; [|right; apply C].
    destruct (Nat.eq_dec k i) as [->|Ni]; [left; exact A|].
    destruct (Nat.eq_dec k j) as [->|Nj]; [left; exact B|]. right. apply Z0; assumption.
  Qed.

  (* BoxBehnkenGenerator on n >= 3 three-level factors [low, mid, high]: every run takes in factor k
     the level low / mid / high for the code -1 / 0 / +1 of a coded design with the structure above *)
  Theorem bb_levels (fl : list (list T)) :
    3 <= length fl -> Forall (fun l => length l = 3) fl ->
    exists x rows,
      bbdesign (length fl) 1 = Ok x /\
      build_box_behnken fl = Ok rows /\
      length rows = 2 * length fl * (length fl - 1) + 1 /\
      Forall2 (fun code r => select_row (map bb_level code) fl = Ok r) x rows /\
      forall r, In r rows -> Forall2 (@In T) r fl.
  Proof.
    intros Hn F. destruct (bb_structure _ Hn) as (x & Ex & Nx & Lx & Hx & _). exists x.
    destruct (construct_df_ok (map (map bb_level) x) fl) as (rows & Erows).
    { intros row I. apply in_map_iff in I. destruct I as (code & <- & Ic). apply Hx in Ic.
      apply select_row_ok. apply bb_index_lt; [apply Ic| |exact F]. eapply spec_row_entries. exact Ic. }
    pose proof (construct_df_rel _ _ _ Erows) as Rel.
    exists rows. split; [exact Ex|].
    split; [unfold build_box_behnken; rewrite Ex; exact Erows|].
    split; [rewrite <- (Forall2_len _ _ _ Rel), map_length; exact Lx|].
    assert (Forall2 (fun code r => select_row (map bb_level code) fl = Ok r) x rows) as Rel'.
    { clear -Rel. remember (map (map bb_level) x) as y eqn:Ey. revert x Ey.
      induction Rel as [|row r y rows Er Rel IH]; intros x Ey; destruct x as [|code x]; try discriminate;
        [constructor|]. inversion Ey; subst. constructor; [exact Er|]. apply IH. reflexivity. }
    split; [exact Rel'|].
    intros r Ir. destruct (Forall2_In_r _ _ _ _ Rel' Ir) as (code & Ic & Er).
    eapply select_row_In; [exact Er|]. rewrite map_length. apply Hx in Ic. apply Ic.
  Qed.
End Levels.
