(* Further facts about the archive model: Archive.remove keeps the invariant, and
   truncate stated through a feature with a strict weak order (Python's `<` on floats). *)
From Coq Require Import List Arith Bool Lia Permutation.
From Artap Require Import Base.Ord Base.StableSort Model.Archive Proofs.ArchiveProofs.
Import ListNotations.

Section Remove.
  Context {C : Type} (ieq : C -> C -> bool).

  Lemma remove_first_some s : forall l r, remove_first ieq s l = Some r ->
    exists l1 y l2, l = l1 ++ y :: l2 /\ r = l1 ++ l2 /\ ieq y s = true /\ forall z, In z l1 -> ieq z s = false.
  Proof.
    induction l as [|y l IH]; cbn; [discriminate|]. intros r.
    destruct (ieq y s) eqn:E.
    - intros [= <-]. exists [], y, l. repeat split; auto. intros z [].
    - destruct (remove_first ieq s l) as [r'|]; [|discriminate]. intros [= <-].
      destruct (IH r' eq_refl) as (l1 & y' & l2 & -> & -> & Hy & Hn).
      exists (y :: l1), y', l2. repeat split; auto. intros z [<-|Hz]; auto.
  Qed.

  Lemma remove_first_none s : forall l, remove_first ieq s l = None -> forall z, In z l -> ieq z s = false.
  Proof.
    induction l as [|y l IH]; cbn; [intros _ z []|].
    destruct (ieq y s) eqn:E; [discriminate|].
    destruct (remove_first ieq s l); [discriminate|]. intros _ z [<-|Hz]; auto.
  Qed.

  (* remove deletes the first member equal to the solution and nothing else; reports whether it did *)
  Theorem remove_spec a s :
    (exists l1 y l2, a = l1 ++ y :: l2 /\ ieq y s = true /\ (forall z, In z l1 -> ieq z s = false) /\
                     archive_remove ieq a s = (l1 ++ l2, true)) \/
    ((forall z, In z a -> ieq z s = false) /\ archive_remove ieq a s = (a, false)).
  Proof.
    unfold archive_remove. destruct (remove_first ieq s a) as [r|] eqn:E.
    - left. destruct (remove_first_some s a r E) as (l1 & y & l2 & -> & -> & Hy & Hn).
      exists l1, y, l2. auto.
    - right. split; [apply remove_first_none; assumption | reflexivity].
  Qed.

  Section Inv.
    Variables (ceq dom : C -> C -> bool) (wf : C -> Prop).
    Theorem remove_keeps_invariant a s : Inv ceq dom wf a -> Inv ceq dom wf (fst (archive_remove ieq a s)).
    Proof.
      intros I. destruct (remove_spec a s) as [(l1 & y & l2 & -> & _ & _ & ->)|[_ ->]]; [|exact I].
      destruct I as (W & P). unfold Inv. cbn [fst]. split.
      - apply Forall_app in W as (W1 & W2). inversion W2; subst. apply Forall_app. auto.
      - apply pairwise_app in P as (P1 & P2 & P3). cbn in P2. destruct P2 as (_ & P2).
        apply pairwise_app. split; [exact P1 | split; [exact P2 |]]. intros u v Hu Hv. apply P3; [assumption | right; assumption].
    Qed.
  End Inv.
End Remove.

Section TruncateKey.
  Context {C K : Type} (kltb : K -> K -> bool) (HK : SWO kltb) (key : C -> K).
  (* sorted(key = feature): x is not after y iff not (key y < key x) *)
  Definition key_leb_of (x y : C) : bool := negb (kltb (key y) (key x)).

  Theorem truncate_keeps_largest_key a size :
    let t := archive_truncate key_leb_of a size true in
    exists dropped, Permutation (t ++ dropped) a /\ length t = Nat.min size (length a) /\
      forall k d, In k t -> In d dropped -> kltb (key k) (key d) = false.
  Proof.
    cbn zeta.
    assert (Tot : forall x y, key_leb_of x y = true \/ key_leb_of y x = true).
    { intros x y. apply (leb_total kltb HK (key x) (key y)). }
    assert (Tr : forall x y z, key_leb_of x y = true -> key_leb_of y z = true -> key_leb_of x z = true).
    { intros x y z. apply (leb_trans kltb HK (key x) (key y) (key z)). }
    destruct (truncate_keeps_largest key_leb_of Tot Tr a size) as (E & P & L & Hk).
    exists (skipn size (rev (ssort key_leb_of a))). rewrite E. repeat split; auto.
    intros k d Hk' Hd. specialize (Hk k d Hk' Hd). unfold key_leb_of in Hk.
    apply negb_true_iff in Hk. exact Hk.
  Qed.
End TruncateKey.
