(* Proofs about the quality-indicator model (Model/Indicators.v). *)
From Coq Require Import List ZArith QArith Qreals Reals Bool Lia Lra Lqa.
From Artap Require Import Base.QInst Model.Indicators.
Import ListNotations.

(* ================================================================== *)
(* additive epsilon indicator (Q) *)
Section Eps.
Local Open Scope Q_scope.

Lemma pymax_spec a b : a <= pymax a b /\ b <= pymax a b /\ (pymax a b = a \/ pymax a b = b).
Proof.
  unfold pymax. destruct (Qltb a b) eqn:E.
  - apply Qltb_spec in E. repeat split; [lra|lra|now right].
  - apply Qltb_false in E. repeat split; [lra|lra|now left].
Qed.

Lemma pymin_spec a b : pymin a b <= a /\ pymin a b <= b /\ (pymin a b = a \/ pymin a b = b).
Proof.
  unfold pymin. destruct (Qltb b a) eqn:E.
  - apply Qltb_spec in E. repeat split; [lra|lra|now right].
  - apply Qltb_false in E. repeat split; [lra|lra|now left].
Qed.

Lemma fold_pymax_spec : forall xs x,
  let m := fold_left pymax xs x in In m (x :: xs) /\ forall y, In y (x :: xs) -> y <= m.
Proof.
  induction xs as [|z xs IH]; intros x; cbn [fold_left].
  - cbn. split; [now left|]. intros y [<-|[]]. lra.
  - specialize (IH (pymax x z)). cbn zeta in IH. destruct IH as [A B].
    destruct (pymax_spec x z) as [P1 [P2 P3]]. split.
    + destruct A as [A|A]; [|right; now right].
      rewrite <- A. destruct P3 as [->| ->]; [now left|right; now left].
    + intros y [<-|[<-|Hy]].
      * specialize (B _ (or_introl eq_refl)). lra.
      * specialize (B _ (or_introl eq_refl)). lra.
      * apply B. now right.
Qed.

Lemma maxdiff_spec c r : diffs c r <> [] ->
  In (maxdiff c r) (diffs c r) /\ forall y, In y (diffs c r) -> y <= maxdiff c r.
Proof.
  unfold maxdiff. destruct (diffs c r) as [|x xs]; [congruence|]. intros _.
  apply fold_pymax_spec.
Qed.

Lemma in_combine_map {A} (f : A -> A) : forall (r : list A) x y,
  In (x, y) (combine (map f r) r) -> x = f y.
Proof.
  induction r as [|a r IH]; intros x y Hi; cbn in Hi; [contradiction|].
  destruct Hi as [E|Hi]; [congruence|now apply IH].
Qed.

Lemma diffs_shift_nonempty d r : r <> [] -> diffs (map (Qplus d) r) r <> [].
Proof. destruct r; [congruence|]. intros _. cbn. discriminate. Qed.

(* the reference point shifted by d is exactly d away from itself *)
Lemma maxdiff_shift_self d r : r <> [] -> maxdiff (map (Qplus d) r) r == d.
Proof.
  intros NE. destruct (maxdiff_spec _ _ (diffs_shift_nonempty d r NE)) as [A _].
  unfold diffs in A. apply in_map_iff in A. destruct A as [[x y] [E Hi]].
  apply in_combine_map in Hi. cbn in E. rewrite <- E, Hi. ring.
Qed.

Lemma maxdiff_self r : maxdiff r r == 0.
Proof.
  destruct (diffs r r) as [|x xs] eqn:D.
  - unfold maxdiff. rewrite D. reflexivity.
  - assert (NE : diffs r r <> []) by (rewrite D; discriminate).
    destruct (maxdiff_spec _ _ NE) as [A _].
    unfold diffs in A. apply in_map_iff in A. destruct A as [[a b] [E Hi]].
    rewrite <- (map_id r) in Hi at 1. apply (in_combine_map (fun z => z)) in Hi.
    cbn in E. rewrite <- E, Hi. ring.
Qed.

(* the first coordinate difference is a lower bound of the maximum *)
Lemma maxdiff_ge_head a c b r : a - b <= maxdiff (a :: c) (b :: r).
Proof.
  assert (NE : diffs (a :: c) (b :: r) <> []) by (cbn; discriminate).
  destruct (maxdiff_spec _ _ NE) as [_ B]. apply B. cbn. now left.
Qed.

(* inner loop *)
Lemma eps_inner_fold (r : list Q) : forall comp j0,
  exists j,
    fold_left (fun acc c => match acc with
                            | PInf => Fin (maxdiff c r)
                            | Fin j => Fin (pymin (maxdiff c r) j)
                            end) comp (Fin j0) = Fin j /\
    j <= j0 /\ (forall c, In c comp -> j <= maxdiff c r) /\
    (j = j0 \/ exists c, In c comp /\ j = maxdiff c r).
Proof.
  induction comp as [|c comp IH]; intros j0; cbn [fold_left].
  - exists j0. repeat split; [lra|intros c []|now left].
  - destruct (IH (pymin (maxdiff c r) j0)) as [j [E [A [B C]]]].
    destruct (pymin_spec (maxdiff c r) j0) as [P1 [P2 P3]].
    exists j. repeat split; [exact E|lra| |].
    + intros c' [<-|Hc]; [lra|now apply B].
    + destruct C as [C|[c' [Hc C]]].
      * destruct P3 as [P3|P3]; [right; exists c; split; [now left|congruence]|left; congruence].
      * right. exists c'. split; [now right|assumption].
Qed.

Lemma eps_inner_spec r comp : comp <> [] ->
  exists j, eps_inner r comp = Fin j /\
    (exists c, In c comp /\ j = maxdiff c r) /\ (forall c, In c comp -> j <= maxdiff c r).
Proof.
  destruct comp as [|c comp]; [congruence|]. intros _. unfold eps_inner. cbn [fold_left].
  destruct (eps_inner_fold r comp (maxdiff c r)) as [j [E [A [B C]]]].
  exists j. repeat split; [exact E| |].
  - destruct C as [C|[c' [Hc C]]]; [exists c; split; [now left|assumption]|exists c'; split; [now right|assumption]].
  - intros c' [<-|Hc]; [assumption|now apply B].
Qed.

Lemma eps_inner_nil r : eps_inner r [] = PInf.
Proof. reflexivity. Qed.

(* outer loop *)
Lemma eps_outer_fold (comp : list (list Q)) : comp <> [] -> forall ref e0,
  exists e,
    fold_left (fun eps r => match eps, eps_inner r comp with
                            | Fin e, Fin j => Fin (pymax e j)
                            | _, _ => PInf
                            end) ref (Fin e0) = Fin e /\
    e0 <= e /\
    (forall r, In r ref -> exists c, In c comp /\ maxdiff c r <= e) /\
    (e = e0 \/ exists r, In r ref /\ forall c, In c comp -> e <= maxdiff c r).
Proof.
  intros NE. induction ref as [|r ref IH]; intros e0; cbn [fold_left].
  - exists e0. repeat split; [lra|intros r []|now left].
  - destruct (eps_inner_spec r comp NE) as [j [Ej [[cj [Hcj Jc]] Jmin]]]. rewrite Ej.
    destruct (IH (pymax e0 j)) as [e [E [A [B C]]]].
    destruct (pymax_spec e0 j) as [P1 [P2 P3]].
    exists e. repeat split; [exact E|lra| |].
    + intros r' [<-|Hr]; [exists cj; split; [assumption|rewrite <- Jc; lra]|now apply B].
    + destruct C as [C|[r' [Hr C]]].
      * destruct P3 as [P3|P3]; [left; congruence|].
        right. exists r. split; [now left|]. intros c Hc. rewrite C, P3. now apply Jmin.
      * right. exists r'. split; [now right|assumption].
Qed.

(* max-min-max characterisation: the value is the least e >= 0 such that every reference
   point r has a computed point c with max_i (c_i - r_i) <= e *)
Theorem eps_add_spec ref comp : comp <> [] ->
  exists e, epsilon_add ref comp = Fin e /\ 0 <= e /\
    (forall r, In r ref -> exists c, In c comp /\ maxdiff c r <= e) /\
    (e == 0 \/ exists r, In r ref /\ forall c, In c comp -> e <= maxdiff c r).
Proof.
  intros NE. destruct (eps_outer_fold comp NE ref 0) as [e [E [A [B C]]]].
  exists e. repeat split; [exact E|exact A|exact B|].
  destruct C as [C|C]; [left; rewrite C; reflexivity|now right].
Qed.

Theorem eps_add_empty_computed ref : ref <> [] -> epsilon_add ref [] = PInf.
Proof.
  destruct ref as [|r ref]; [congruence|]. intros _. unfold epsilon_add. cbn [fold_left eps_inner].
  induction ref; cbn; [reflexivity|assumption].
Qed.

Theorem eps_add_nonneg : forall ref comp,
  match epsilon_add ref comp with Fin e => 0 <= e | PInf => True end.
Proof.
  intros ref comp. unfold epsilon_add.
  assert (G : forall ref acc, match acc with Fin e => 0 <= e | PInf => True end ->
     match fold_left (fun eps r => match eps, eps_inner r comp with
                                   | Fin e, Fin j => Fin (pymax e j)
                                   | _, _ => PInf
                                   end) ref acc with Fin e => 0 <= e | PInf => True end).
  { clear ref. induction ref as [|r ref IH]; intros acc Ha; cbn [fold_left]; [exact Ha|].
    apply IH. destruct acc as [e|]; [|exact I]. destruct (eps_inner r comp) as [j|]; [|exact I].
    destruct (pymax_spec e j) as [P _]. lra. }
  apply G. lra.
Qed.

(* every reference point is among the computed points (in particular: identical sets, in any
   order, with any multiplicities): the indicator is exactly 0 *)
Theorem eps_add_identical_zero : forall ref comp, incl ref comp ->
  exists e, epsilon_add ref comp = Fin e /\ e == 0.
Proof.
  intros ref comp I. destruct ref as [|r0 ref].
  - exists 0. split; reflexivity.
  - assert (NE : comp <> []).
    { intros ->. exact (I r0 (or_introl eq_refl)). }
    destruct (eps_add_spec (r0 :: ref) comp NE) as [e [E [A [_ C]]]].
    exists e. split; [exact E|]. destruct C as [C|[r [Hr C]]]; [exact C|].
    specialize (C r (I r Hr)). rewrite maxdiff_self in C. lra.
Qed.

Lemma exists_min_head : forall (l : list (list Q)), l <> [] ->
  exists x, In x l /\ forall y, In y l -> hd 0 x <= hd 0 y.
Proof.
  induction l as [|a l IH]; [congruence|]. intros _. destruct l as [|b l].
  - exists a. split; [now left|]. intros y [<-|[]]. lra.
  - destruct IH as [x [Hx M]]; [discriminate|].
    destruct (Qlt_le_dec (hd 0 a) (hd 0 x)) as [L|L].
    + exists a. split; [now left|]. intros y [<-|Hy]; [lra|]. specialize (M y Hy). lra.
    + exists x. split; [now right|]. intros y [<-|Hy]; [lra|now apply M].
Qed.

(* the computed set is the reference set shifted by d >= 0 in every coordinate *)
Theorem eps_add_shift : forall ref d, ref <> [] -> (forall p, In p ref -> p <> []) -> 0 <= d ->
  exists e, epsilon_add ref (map (map (Qplus d)) ref) = Fin e /\ e == d.
Proof.
  intros ref d NE NEP Hd.
  assert (NEC : map (map (Qplus d)) ref <> []) by (destruct ref; [congruence|discriminate]).
  destruct (eps_add_spec ref _ NEC) as [e [E [A [B C]]]].
  exists e. split; [exact E|].
  assert (UP : e <= d).
  { destruct C as [C|[r [Hr C]]]; [lra|].
    specialize (C (map (Qplus d) r) (in_map _ _ _ Hr)).
    rewrite (maxdiff_shift_self d r (NEP r Hr)) in C. exact C. }
  assert (LO : d <= e).
  { destruct (exists_min_head ref NE) as [rm [Hrm M]].
    destruct (B rm Hrm) as [c [Hc Le]]. apply in_map_iff in Hc. destruct Hc as [r' [<- Hr']].
    specialize (M r' Hr'). pose proof (NEP rm Hrm) as N1. pose proof (NEP r' Hr') as N2.
    destruct rm as [|b rm]; [congruence|]. destruct r' as [|a r']; [congruence|].
    cbn [map hd] in *. pose proof (maxdiff_ge_head (d + a) (map (Qplus d) r') b rm). lra. }
  lra.
Qed.
End Eps.

(* ================================================================== *)
(* generational distance (R) *)
Section GD.
Local Open Scope R_scope.

(* d is the distance from c to a nearest reference point *)
Definition is_nearest (ref : list (list R)) (c : list R) (d : R) : Prop :=
  (exists r, In r ref /\ d = dist r c) /\ forall r, In r ref -> d <= dist r c.

(* min over the reference points, the way the column minimum is accumulated *)
Definition mind (ref : list (list R)) (c : list R) : R :=
  match ref with
  | [] => 0
  | r :: rs => fold_left Rmin (map (fun r' => dist r' c) rs) (dist r c)
  end.

Lemma map2_map {A} (f g : A -> R) (l : list A) :
  map2 Rmin (map f l) (map g l) = map (fun c => Rmin (f c) (g c)) l.
Proof. induction l as [|a l IH]; cbn; [reflexivity|now rewrite IH]. Qed.

Lemma colmin_fold (comp : list (list R)) : forall (rs : list (list R)) (f : list R -> R),
  fold_left (map2 Rmin) (map (fun r' => map (fun c => dist r' c) comp) rs) (map f comp) =
  map (fun c => fold_left Rmin (map (fun r' => dist r' c) rs) (f c)) comp.
Proof.
  induction rs as [|r rs IH]; intros f; cbn [map fold_left]; [reflexivity|].
  rewrite map2_map. apply (IH (fun c => Rmin (f c) (dist r c))).
Qed.

Lemma colmin_cdist ref comp : ref <> [] -> colmin (cdist ref comp) = map (mind ref) comp.
Proof.
  destruct ref as [|r rs]; [congruence|]. intros _. unfold colmin, cdist. cbn [map].
  apply (colmin_fold comp rs (fun c => dist r c)).
Qed.

Lemma fold_Rmin_spec : forall l x,
  let m := fold_left Rmin l x in In m (x :: l) /\ forall y, In y (x :: l) -> m <= y.
Proof.
  induction l as [|z l IH]; intros x; cbn [fold_left].
  - cbn. split; [now left|]. intros y [<-|[]]. Lra.lra.
  - specialize (IH (Rmin x z)). cbn zeta in IH. destruct IH as [A B]. split.
    + destruct A as [A|A]; [|right; now right]. rewrite <- A.
      unfold Rmin. destruct (Rle_dec x z); [now left|right; now left].
    + intros y [<-|[<-|Hy]].
      * specialize (B _ (or_introl eq_refl)). pose proof (Rmin_l x z). Lra.lra.
      * specialize (B _ (or_introl eq_refl)). pose proof (Rmin_r x z). Lra.lra.
      * apply B. now right.
Qed.

Lemma mind_nearest ref c : ref <> [] -> is_nearest ref c (mind ref c).
Proof.
  destruct ref as [|r rs]; [congruence|]. intros _. unfold mind, is_nearest.
  destruct (fold_Rmin_spec (map (fun r' => dist r' c) rs) (dist r c)) as [A B]. split.
  - destruct A as [A|A]; [exists r; split; [now left|now symmetry]|].
    apply in_map_iff in A. destruct A as [r' [E Hr]]. exists r'. split; [now right|now symmetry].
  - intros r' [<-|Hr]; [apply B; now left|]. apply B. right. apply in_map_iff. now exists r'.
Qed.

Lemma is_nearest_unique ref c d1 d2 : is_nearest ref c d1 -> is_nearest ref c d2 -> d1 = d2.
Proof.
  intros [[r1 [H1 E1]] M1] [[r2 [H2 E2]] M2].
  specialize (M1 r2 H2). specialize (M2 r1 H1). Lra.lra.
Qed.

(* GD = (1/n) * sum over the computed points of the distance to a nearest reference point *)
Theorem gd_mean_min_distance : forall ref comp, ref <> [] ->
  exists ds, Forall2 (is_nearest ref) comp ds /\ gd ref comp = rsum ds / INR (length comp).
Proof.
  intros ref comp NE. exists (map (mind ref) comp). split.
  - induction comp as [|c comp IH]; cbn; constructor; [now apply mind_nearest|exact IH].
  - unfold gd. now rewrite colmin_cdist.
Qed.

Lemma rsum_cons a l : rsum (a :: l) = a + rsum l.
Proof. reflexivity. Qed.

Lemma rsum_nonneg l : (forall x, In x l -> 0 <= x) -> 0 <= rsum l.
Proof.
  induction l as [|a l IH]; intros P; [cbn; Lra.lra|]. rewrite rsum_cons.
  pose proof (P a (or_introl eq_refl)). assert (0 <= rsum l) by (apply IH; intros; apply P; now right). Lra.lra.
Qed.

Lemma rsum_zero l : (forall x, In x l -> 0 <= x) -> (rsum l = 0 <-> forall x, In x l -> x = 0).
Proof.
  induction l as [|a l IH]; intros P.
  - cbn. split; [intros _ x []|reflexivity].
  - rewrite rsum_cons. pose proof (P a (or_introl eq_refl)) as Pa.
    assert (Pl : forall x, In x l -> 0 <= x) by (intros; apply P; now right).
    pose proof (rsum_nonneg l Pl). specialize (IH Pl). split.
    + intros E x [<-|Hx]; [Lra.lra|]. apply IH; [Lra.lra|assumption].
    + intros Z. rewrite (Z a (or_introl eq_refl)).
      assert (rsum l = 0) by (apply IH; intros; apply Z; now right). Lra.lra.
Qed.

Lemma sqdist_cons x a y b : sqdist (x :: a) (y :: b) = (x - y) * (x - y) + sqdist a b.
Proof. reflexivity. Qed.

Lemma sqdist_nonneg a b : 0 <= sqdist a b.
Proof.
  unfold sqdist. apply rsum_nonneg. intros x Hx. apply in_map_iff in Hx.
  destruct Hx as [[u v] [<- _]]. cbn [fst snd]. exact (Rle_0_sqr (u - v)).
Qed.

Lemma dist_nonneg a b : 0 <= dist a b.
Proof. apply sqrt_pos. Qed.

Lemma sqdist_zero : forall a b, length a = length b -> (sqdist a b = 0 <-> a = b).
Proof.
  induction a as [|x a IH]; intros [|y b] L; cbn in L; try discriminate.
  - unfold sqdist. cbn. tauto.
  - injection L as L. specialize (IH b L). rewrite sqdist_cons.
    pose proof (sqdist_nonneg a b) as N. split.
    + intros E. pose proof (Rle_0_sqr (x - y)) as Sq. unfold Rsqr in Sq.
      assert (Z : (x - y) * (x - y) = 0) by Lra.lra.
      assert (x = y) by (apply Rmult_integral in Z; destruct Z; Lra.lra). subst y. f_equal. apply IH. Lra.lra.
    + intros E. injection E as -> ->. assert (Z : sqdist b b = 0) by (apply IH; reflexivity).
      rewrite Z. ring.
Qed.

Lemma dist_zero a b : length a = length b -> (dist a b = 0 <-> a = b).
Proof.
  intros L. unfold dist. rewrite <- (sqdist_zero a b L). split.
  - intros E. apply sqrt_eq_0; [apply sqdist_nonneg|exact E].
  - intros ->. apply sqrt_0.
Qed.

(* GD is zero exactly when every computed point is a reference point *)
Theorem gd_zero_iff_subset : forall (m : nat) ref comp, ref <> [] -> comp <> [] ->
  (forall p, In p ref -> length p = m) -> (forall p, In p comp -> length p = m) ->
  (gd ref comp = 0 <-> forall c, In c comp -> In c ref).
Proof.
  intros m ref comp NR NC LR LC. unfold gd. rewrite (colmin_cdist ref comp NR).
  assert (Npos : 0 < INR (length comp)).
  { apply lt_0_INR. destruct comp; [congruence|cbn; lia]. }
  assert (NN : forall x, In x (map (mind ref) comp) -> 0 <= x).
  { intros x Hx. apply in_map_iff in Hx. destruct Hx as [c [<- _]].
    destruct (mind_nearest ref c NR) as [[r [_ ->]] _]. apply dist_nonneg. }
  split.
  - intros E c Hc.
    assert (S0 : rsum (map (mind ref) comp) = 0).
    { unfold Rdiv in E. apply Rmult_integral in E. destruct E as [E|E]; [exact E|].
      exfalso. apply Rinv_neq_0_compat in E; [exact E|Lra.lra]. }
    pose proof (proj1 (rsum_zero _ NN) S0 (mind ref c) (in_map _ _ _ Hc)) as Z.
    destruct (mind_nearest ref c NR) as [[r [Hr E']] _]. rewrite Z in E'. symmetry in E'.
    apply dist_zero in E'; [now subst|]. rewrite (LR r Hr), (LC c Hc). reflexivity.
  - intros Sub.
    assert (S0 : rsum (map (mind ref) comp) = 0).
    { apply (rsum_zero _ NN). intros x Hx. apply in_map_iff in Hx. destruct Hx as [c [<- Hc]].
      destruct (mind_nearest ref c NR) as [[r [_ E']] M].
      specialize (M c (Sub c Hc)). assert (Z : dist c c = 0) by (now apply dist_zero).
      rewrite Z in M. rewrite E' in *. pose proof (dist_nonneg r c). Lra.lra. }
    rewrite S0. unfold Rdiv. ring.
Qed.

(* ---- the exact rational companion ---- *)
Definition embed (l : list (list Q)) : list (list R) := map (map Q2R) l.

Lemma Q2R_sqdist : forall a b, Q2R (sqdistQ a b) = sqdist (map Q2R a) (map Q2R b).
Proof.
  induction a as [|x a IH]; intros [|y b]; unfold sqdistQ, sqdist in *; cbn; try (unfold Q2R; cbn; Lra.lra).
  rewrite Q2R_plus, Q2R_mult, Q2R_minus. cbn in IH. rewrite IH. reflexivity.
Qed.

Lemma sqrt_pymin a b : sqrt (Q2R (pymin a b)) = Rmin (sqrt (Q2R a)) (sqrt (Q2R b)).
Proof.
  unfold pymin. destruct (Qltb b a) eqn:E.
  - apply Qltb_spec in E. apply Qlt_Rlt in E.
    rewrite Rmin_right; [reflexivity|]. apply sqrt_le_1_alt. Lra.lra.
  - apply Qltb_false in E. apply Qle_Rle in E.
    rewrite Rmin_left; [reflexivity|]. now apply sqrt_le_1_alt.
Qed.

Lemma mind_minsq1 ref c : mind (embed ref) (map Q2R c) = sqrt (Q2R (minsq1 ref c)).
Proof.
  destruct ref as [|r rs]; [cbn; unfold Q2R; cbn; rewrite Rmult_0_l; now rewrite sqrt_0|].
  unfold mind, minsq1, embed. cbn [map].
  assert (G : forall rs q, fold_left Rmin (map (fun r' => dist r' (map Q2R c)) (map (map Q2R) rs)) (sqrt (Q2R q)) =
                          sqrt (Q2R (fold_left (fun m r' => pymin m (sqdistQ r' c)) rs q))).
  { clear. induction rs as [|r rs IH]; intros q; cbn [map fold_left]; [reflexivity|].
    rewrite <- IH. f_equal. rewrite sqrt_pymin. unfold dist. now rewrite Q2R_sqdist. }
  unfold dist at 2. rewrite <- Q2R_sqdist. apply G.
Qed.

(* for rational points the real-valued model is the mean of the square roots of the exact
   minimal squared distances that the executable companion computes *)
Theorem gd_rational_bridge : forall ref comp, ref <> [] ->
  gd (embed ref) (embed comp) =
  rsum (map (fun q => sqrt (Q2R q)) (minsq ref comp)) / INR (length comp).
Proof.
  intros ref comp NE. unfold gd. rewrite colmin_cdist.
  - unfold embed at 2 3. rewrite map_length. f_equal. f_equal.
    unfold minsq. rewrite !map_map. apply map_ext. intros c. apply mind_minsq1.
  - destruct ref; [congruence|discriminate].
Qed.
End GD.

(* ================================================================== *)
(* soundness of the executable enclosure of gd (what the correspondence evaluates) *)
Section Encl.
Local Open Scope R_scope.

Lemma IZR_pow4 p : IZR (4 ^ Zpos p) = IZR (2 ^ Zpos p) * IZR (2 ^ Zpos p).
Proof. rewrite <- mult_IZR. f_equal. change 4%Z with (2 * 2)%Z. now rewrite Z.pow_mul_l. Qed.

Lemma IZR_den p b : IZR (Zpos (b * 2 ^ p)) = IZR (Zpos b) * IZR (2 ^ Zpos p).
Proof. rewrite <- mult_IZR. f_equal. rewrite Pos2Z.inj_mul, Pos2Z.inj_pow. reflexivity. Qed.

Lemma sqrt_enclosure p q : (0 <= q)%Q ->
  Q2R (sqrt_lo p q) <= sqrt (Q2R q) <= Q2R (sqrt_hi p q).
Proof.
  destruct q as [a b]. intros Hq. unfold Qle in Hq. cbn in Hq. rewrite Z.mul_1_r in Hq.
  unfold sqrt_lo, sqrt_hi. cbn [Qnum Qden].
  set (N := (a * Zpos b * 4 ^ Zpos p)%Z).
  assert (N0 : (0 <= N)%Z) by (unfold N; apply Z.mul_nonneg_nonneg; [apply Z.mul_nonneg_nonneg|]; lia).
  destruct (Z.sqrt_spec N N0) as [Lo Hi]. set (s := Z.sqrt N) in *.
  assert (s0 : (0 <= s)%Z) by apply Z.sqrt_nonneg.
  unfold Q2R. cbn [Qnum Qden]. rewrite IZR_den, plus_IZR.
  set (A := IZR a). set (B := IZR (Zpos b)). set (P := IZR (2 ^ Zpos p)). set (S := IZR s).
  assert (A0 : 0 <= A) by (apply IZR_le; assumption).
  assert (B0 : 0 < B) by (apply IZR_lt; lia).
  assert (P0 : 0 < P) by (apply IZR_lt; apply Z.pow_pos_nonneg; lia).
  assert (S0 : 0 <= S) by (apply IZR_le; assumption).
  assert (NR : IZR N = A * B * (P * P)) by (unfold N; rewrite !mult_IZR, IZR_pow4; reflexivity).
  assert (LoR : S * S <= A * B * (P * P)) by (rewrite <- NR; unfold S; rewrite <- mult_IZR; apply IZR_le; exact Lo).
  assert (HiR : A * B * (P * P) < (S + 1) * (S + 1)).
  { rewrite <- NR. replace (S + 1) with (IZR (Z.succ s)) by (rewrite succ_IZR; reflexivity).
    rewrite <- mult_IZR. apply IZR_lt. exact Hi. }
  clear NR. clearbody A B P S.
  assert (BP : 0 < B * P) by (apply Rmult_lt_0_compat; assumption).
  assert (D0 : 0 < / (B * P)) by (apply Rinv_0_lt_compat; assumption).
  assert (EQ : A * / B = (A * B * (P * P)) * (/ (B * P) * / (B * P))) by (field; repeat split; Lra.lra).
  split.
  - rewrite <- (sqrt_square (S * / (B * P))) by (apply Rmult_le_pos; Lra.lra).
    apply sqrt_le_1_alt. rewrite EQ.
    replace (S * / (B * P) * (S * / (B * P))) with (S * S * (/ (B * P) * / (B * P))) by ring.
    apply Rmult_le_compat_r; [|exact LoR]. apply Rmult_le_pos; Lra.lra.
  -     rewrite <- (sqrt_square ((S + 1) * / (B * P))) by (apply Rmult_le_pos; Lra.lra).
    apply sqrt_le_1_alt. rewrite EQ.
    replace ((S + 1) * / (B * P) * ((S + 1) * / (B * P))) with ((S + 1) * (S + 1) * (/ (B * P) * / (B * P))) by ring.
    apply Rmult_le_compat_r; [apply Rmult_le_pos; Lra.lra|Lra.lra].
Qed.

Lemma Q2R_qsum l : Q2R (qsum l) = rsum (map Q2R l).
Proof.
  induction l as [|a l IH]; cbn; [unfold Q2R; cbn; Lra.lra|]. rewrite Q2R_plus. unfold qsum in IH. now rewrite IH.
Qed.

Lemma rsum_le (f g : Q -> R) l : (forall x, In x l -> f x <= g x) -> rsum (map f l) <= rsum (map g l).
Proof.
  induction l as [|a l IH]; intros P; cbn; [Lra.lra|].
  pose proof (P a (or_introl eq_refl)). assert (rsum (map f l) <= rsum (map g l)) by (apply IH; intros; apply P; now right).
  unfold rsum in *. Lra.lra.
Qed.

Lemma sqdistQ_nonneg a b : (0 <= sqdistQ a b)%Q.
Proof.
  apply Rle_Qle. rewrite Q2R_sqdist. replace (Q2R 0) with 0 by (unfold Q2R; cbn; Lra.lra). apply sqdist_nonneg.
Qed.

Lemma minsq1_nonneg ref c : (0 <= minsq1 ref c)%Q.
Proof.
  destruct ref as [|r rs]; cbn; [apply Qle_refl|].
  assert (G : forall rs q, (0 <= q)%Q -> (0 <= fold_left (fun m r' => pymin m (sqdistQ r' c)) rs q)%Q).
  { clear. induction rs as [|r rs IH]; intros q Hq; cbn; [exact Hq|]. apply IH.
    destruct (pymin_spec q (sqdistQ r c)) as [_ [_ [-> | ->]]]; [exact Hq|apply sqdistQ_nonneg]. }
  apply G, sqdistQ_nonneg.
Qed.

Theorem gd_enclosure_sound : forall p ref comp, ref <> [] -> comp <> [] ->
  Q2R (fst (gd_enclosure p ref comp)) <= gd (embed ref) (embed comp) <= Q2R (snd (gd_enclosure p ref comp)).
Proof.
  intros p ref comp NR NC. rewrite (gd_rational_bridge ref comp NR).
  unfold gd_enclosure. cbn [fst snd].
  assert (Npos : 0 < INR (length comp)) by (apply lt_0_INR; destruct comp; [congruence|cbn; lia]).
  assert (NQ : Q2R (inject_Z (Z.of_nat (length comp))) = INR (length comp)).
  { unfold Q2R, inject_Z. cbn. rewrite INR_IZR_INZ. Lra.lra. }
  assert (NZ : ~ (inject_Z (Z.of_nat (length comp)) == 0)%Q).
  { intros E. apply Qeq_eqR in E. rewrite NQ in E. unfold Q2R in E. cbn in E. Lra.lra. }
  rewrite !Q2R_div by exact NZ. rewrite NQ, !Q2R_qsum, !map_map.
  assert (INV : 0 < / INR (length comp)) by (apply Rinv_0_lt_compat; exact Npos).
  unfold Rdiv. split; apply Rmult_le_compat_r; try Lra.lra; apply rsum_le; intros q Hq;
    (assert (Q0 : (0 <= q)%Q) by (unfold minsq in Hq; apply in_map_iff in Hq; destruct Hq as [c [<- _]]; apply minsq1_nonneg));
    apply (sqrt_enclosure p q Q0).
Qed.

Lemma qsum_red_eq l : (qsum_red l == qsum l)%Q.
Proof.
  induction l as [|a l IH]; [reflexivity|].
  change (qsum_red (a :: l)) with (Qred (a + qsum_red l)). change (qsum (a :: l)) with (a + qsum l)%Q.
  rewrite Qred_correct, IH. reflexivity.
Qed.

Lemma gd_enclosure_red_eq p ref comp :
  (fst (gd_enclosure_red p ref comp) == fst (gd_enclosure p ref comp))%Q /\
  (snd (gd_enclosure_red p ref comp) == snd (gd_enclosure p ref comp))%Q.
Proof. unfold gd_enclosure_red, gd_enclosure. cbn [fst snd]. rewrite !qsum_red_eq. split; reflexivity. Qed.

Theorem gd_enclosure_red_sound : forall p ref comp, ref <> [] -> comp <> [] ->
  Q2R (fst (gd_enclosure_red p ref comp)) <= gd (embed ref) (embed comp) <= Q2R (snd (gd_enclosure_red p ref comp)).
Proof.
  intros p ref comp NR NC. destruct (gd_enclosure_red_eq p ref comp) as [E1 E2].
  rewrite (Qeq_eqR _ _ E1), (Qeq_eqR _ _ E2). apply gd_enclosure_sound; assumption.
Qed.
End Encl.
