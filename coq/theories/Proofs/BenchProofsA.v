(* C15 - proofs, group A: benchmarks whose clauses follow by hand from sums of squares, |cos| <= 1 and
   exp(-t) <= 1 (no Interval): Rosenbrock, Sphere, Ackley, Rastrigin, Griewank, Zakharov, Booth, Alpine,
   XinSheYang 1, XinSheYang 3, Perm.  Every dimension, every point of the declared box. *)
From Coq Require Import Reals List Lia Lra Psatz.
From Artap Require Import Model.Bench Proofs.BenchLemmas.
Import ListNotations.
Local Open Scope R_scope.

(* ---------------------------------------------------------------- Rosenbrock *)
Lemma rosenbrock_cons2 : forall a b t,
  rosenbrock (a :: b :: t) = ((1 - a) * (1 - a) + (b - a ^ 2) * (b - a ^ 2) * 100) + rosenbrock (b :: t).
Proof. reflexivity. Qed.

Lemma rosenbrock_nonneg : forall x, 0 <= rosenbrock x.
Proof.
  induction x as [|a t IH]; [simpl; lra |].
  destruct t as [|b t]; [simpl; lra |].
  rewrite rosenbrock_cons2.
  pose proof (Rle_0_sqr (1 - a)) as A. pose proof (Rle_0_sqr (b - a ^ 2)) as B. unfold Rsqr in A, B. lra.
Qed.

Lemma rosenbrock_opt_exact : forall n, rosenbrock (repeat 1 n) = 0.
Proof.
  induction n as [|n IH]; [reflexivity |].
  destruct n as [|n]; [reflexivity |].
  change (repeat 1 (S (S n))) with (1 :: 1 :: repeat 1 n). rewrite rosenbrock_cons2.
  change (1 :: repeat 1 n) with (repeat 1 (S n)). rewrite IH. ring.
Qed.

Lemma rosenbrock_opt_value : opt_value_stmt rosenbrock_b.
Proof.
  intros n Hn. simpl. split; [apply in_boxes_cube_repeat; lra | apply value_exact, rosenbrock_opt_exact].
Qed.

Lemma rosenbrock_opt_bound : opt_bound_stmt rosenbrock_b.
Proof. intros n x Hn Hx. simpl. apply nb_min, rosenbrock_nonneg. Qed.

(* ---------------------------------------------------------------- Sphere *)
Lemma sphere_nonneg : forall x, 0 <= sphere x.
Proof. intros x. apply sum_map_nonneg. intros c. apply pow2_ge_0. Qed.

Lemma sphere_opt_exact : forall n, sphere (repeat 0 n) = 0.
Proof. intros n. unfold sphere. rewrite sum_map_repeat. ring. Qed.

Lemma sphere_opt_value : opt_value_stmt sphere_b.
Proof. intros n Hn. simpl. split; [apply in_boxes_cube_repeat; lra | apply value_exact, sphere_opt_exact]. Qed.

Lemma sphere_opt_bound : opt_bound_stmt sphere_b.
Proof. intros n x Hn Hx. simpl. apply nb_min, sphere_nonneg. Qed.

(* ---------------------------------------------------------------- Ackley *)
Lemma dimR_pos : forall x, (1 <= length x)%nat -> 0 < dimR x.
Proof. intros x L. unfold dimR. apply lt_0_INR. lia. Qed.

(* denominators and sqrt arguments of the formula *)
Lemma ackley_well_defined : forall x, (1 <= length x)%nat ->
  dimR x <> 0 /\ 0 <= sum_map (fun c => c ^ 2) x / dimR x.
Proof.
  intros x L. pose proof (dimR_pos x L) as P. split; [lra |].
  apply Rmult_le_pos; [apply sum_map_nonneg; intros c; apply pow2_ge_0 | left; apply Rinv_0_lt_compat; exact P].
Qed.

Lemma ackley_nonneg : forall x, (1 <= length x)%nat -> 0 <= ackley x.
Proof.
  intros x L. pose proof (dimR_pos x L) as P. unfold ackley.
  assert (exp (- (2 / 10) * sqrt (sum_map (fun c => c ^ 2) x / dimR x)) <= 1) as E1.
  { apply exp_le_1. pose proof (sqrt_pos (sum_map (fun c => c ^ 2) x / dimR x)). nra. }
  assert (exp (sum_map (fun c => cos (2 * PI * c)) x / dimR x) <= exp 1) as E2.
  { apply exp_le_mono.
    assert (sum_map (fun c => cos (2 * PI * c)) x <= INR (length x) * 1) as U.
    { apply sum_map_upper. apply Forall_forall. intros c _. apply COS_bound. }
    fold (dimR x) in U. apply Rmult_le_reg_r with (dimR x); [exact P |].
    unfold Rdiv. rewrite Rmult_assoc, Rinv_l by lra. lra. }
  lra.
Qed.

Lemma ackley_opt_exact : forall n, (1 <= n)%nat -> ackley (repeat 0 n) = 0.
Proof.
  intros n L. unfold ackley, dimR. rewrite repeat_length, !sum_map_repeat.
  assert (0 < INR n) as P by (apply lt_0_INR; lia).
  replace (INR n * 0 ^ 2 / INR n) with 0 by (field; lra).
  replace (INR n * cos (2 * PI * 0) / INR n) with 1 by (rewrite Rmult_0_r, cos_0; field; lra).
  rewrite sqrt_0, Rmult_0_r, exp_0. ring.
Qed.

Lemma ackley_opt_value : opt_value_stmt ackley_b.
Proof.
  intros n Hn. simpl. split; [apply in_boxes_cube_repeat; lra | apply value_exact, ackley_opt_exact; exact Hn].
Qed.

Lemma ackley_opt_bound : opt_bound_stmt ackley_b.
Proof.
  intros n x Hn Hx. simpl in *. apply in_boxes_cube in Hx. destruct Hx as [L _].
  apply nb_min, ackley_nonneg. unfold any_dim in Hn. lia.
Qed.

(* ---------------------------------------------------------------- Rastrigin *)
Lemma rastrigin_nonneg : forall x, 0 <= rastrigin x.
Proof.
  intros x. unfold rastrigin, dimR.
  assert (INR (length x) * (-10) <= sum_map (fun c => c ^ 2 - 10 * cos (2 * PI * c)) x) as U.
  { apply sum_map_lower. apply Forall_forall. intros c _.
    pose proof (COS_bound (2 * PI * c)). pose proof (pow2_ge_0 c). lra. }
  lra.
Qed.

Lemma rastrigin_opt_exact : forall n, rastrigin (repeat 0 n) = 0.
Proof.
  intros n. unfold rastrigin, dimR. rewrite repeat_length, sum_map_repeat, Rmult_0_r, cos_0. ring.
Qed.

Lemma rastrigin_opt_value : opt_value_stmt rastrigin_b.
Proof. intros n Hn. simpl. split; [apply in_boxes_cube_repeat; lra | apply value_exact, rastrigin_opt_exact]. Qed.

Lemma rastrigin_opt_bound : opt_bound_stmt rastrigin_b.
Proof. intros n x Hn Hx. simpl. apply nb_min, rastrigin_nonneg. Qed.

(* ---------------------------------------------------------------- Griewank *)
Lemma griewank_well_defined : forall i : nat, 0 <= INR (S i) /\ sqrt (INR (S i)) <> 0.
Proof.
  intros i. pose proof (INR_S_pos i) as P. split; [lra |].
  pose proof (sqrt_lt_R0 _ P). lra.
Qed.

Lemma griewank_nonneg : forall x, 0 <= griewank x.
Proof.
  intros x. unfold griewank.
  assert (0 <= sum_map (fun c => c ^ 2 / 4000) x) as A.
  { apply sum_map_nonneg. intros c. pose proof (pow2_ge_0 c). lra. }
  assert (Rabs (prod_idx (fun i c => cos (c / sqrt (INR (S i)))) 0 x) <= 1) as B.
  { apply prod_idx_abs_le1. intros j c. apply Rabs_le. apply COS_bound. }
  pose proof (Rle_abs (prod_idx (fun i c => cos (c / sqrt (INR (S i)))) 0 x)). lra.
Qed.

Lemma griewank_opt_exact : forall n, griewank (repeat 0 n) = 0.
Proof.
  intros n. unfold griewank. rewrite sum_map_repeat, prod_idx_repeat_one.
  - unfold Rdiv. ring.
  - intros j. unfold Rdiv. rewrite Rmult_0_l. apply cos_0.
Qed.

Lemma griewank_opt_value : opt_value_stmt griewank_b.
Proof. intros n Hn. simpl. split; [apply in_boxes_cube_repeat; lra | apply value_exact, griewank_opt_exact]. Qed.

Lemma griewank_opt_bound : opt_bound_stmt griewank_b.
Proof. intros n x Hn Hx. simpl. apply nb_min, griewank_nonneg. Qed.

(* ---------------------------------------------------------------- Zakharov *)
Lemma zakharov_nonneg : forall x, 0 <= zakharov x.
Proof.
  intros x. unfold zakharov. cbv zeta.
  assert (0 <= sum_map (fun c => c ^ 2) x) as A by (apply sum_map_nonneg; intros c; apply pow2_ge_0).
  pose proof (pow2_ge_0 (sum_idx (fun i c => 1 / 2 * INR (S i) * c) 0 x)). lra.
Qed.

Lemma zakharov_opt_exact : forall n, zakharov (repeat 0 n) = 0.
Proof.
  intros n. unfold zakharov. cbv zeta. rewrite sum_map_repeat, sum_idx_repeat_zero; [ring | intros j; ring].
Qed.

Lemma zakharov_opt_value : opt_value_stmt zakharov_b.
Proof. intros n Hn. simpl. split; [apply in_boxes_cube_repeat; lra | apply value_exact, zakharov_opt_exact]. Qed.

Lemma zakharov_opt_bound : opt_bound_stmt zakharov_b.
Proof. intros n x Hn Hx. simpl. apply nb_min, zakharov_nonneg. Qed.

(* ---------------------------------------------------------------- Booth *)
Lemma booth_nonneg : forall x, 0 <= booth x.
Proof.
  intros x. unfold booth. destruct x as [|a [|b t]]; try lra.
  pose proof (pow2_ge_0 (a + 2 * b - 7)). pose proof (pow2_ge_0 (2 * a + b - 5)). lra.
Qed.

Lemma booth_opt_exact : booth [1; 3] = 0.
Proof. unfold booth. ring. Qed.

Lemma booth_opt_value : opt_value_stmt booth_b.
Proof.
  intros n Hn. simpl. split; [apply in_boxes_2_intro; lra | apply value_exact, booth_opt_exact].
Qed.

Lemma booth_opt_bound : opt_bound_stmt booth_b.
Proof. intros n x Hn Hx. simpl. apply nb_min, booth_nonneg. Qed.

(* ---------------------------------------------------------------- Alpine *)
Lemma alpine_nonneg : forall x, 0 <= alpine x.
Proof. intros x. apply sum_map_nonneg. intros c. apply Rabs_pos. Qed.

Lemma alpine_opt_exact : forall n, alpine (repeat 0 n) = 0.
Proof.
  intros n. unfold alpine. rewrite sum_map_repeat.
  replace (0 * sin 0 + 1 / 10 * 0) with 0 by ring. rewrite Rabs_R0. ring.
Qed.

Lemma alpine_opt_value : opt_value_stmt alpine_b.
Proof. intros n Hn. simpl. split; [apply in_boxes_cube_repeat; lra | apply value_exact, alpine_opt_exact]. Qed.

Lemma alpine_opt_bound : opt_bound_stmt alpine_b.
Proof. intros n x Hn Hx. simpl. apply nb_min, alpine_nonneg. Qed.

(* ---------------------------------------------------------------- XinSheYang (1) *)
Lemma xsy1_nonneg : forall x, 0 <= xsy1 x.
Proof.
  intros x. unfold xsy1. cbv zeta. apply Rmult_le_pos; [apply Rabs_pos | apply exp_pos_le].
Qed.

Lemma xsy1_opt_exact : forall n, xsy1 (repeat 0 n) = 0.
Proof. intros n. unfold xsy1. cbv zeta. rewrite last_repeat, Rabs_R0. ring. Qed.

Lemma xsy1_opt_value : opt_value_stmt xsy1_b.
Proof.
  intros n Hn. simpl. pose proof PI_RGT_0.
  split; [apply in_boxes_cube_repeat; lra | apply value_exact, xsy1_opt_exact].
Qed.

Lemma xsy1_opt_bound : opt_bound_stmt xsy1_b.
Proof. intros n x Hn Hx. simpl. apply nb_min, xsy1_nonneg. Qed.

(* ---------------------------------------------------------------- XinSheYang3 (draws are an oracle tape in [0,1]) *)
Definition draws_ok (eps : list R) : Prop := Forall (fun e => 0 <= e <= 1) eps.

Lemma xsy3_well_defined : forall i : nat, INR (S i) <> 0.
Proof. intros i. pose proof (INR_S_pos i). lra. Qed.

Lemma xsy3_loop_nonneg : forall x eps i f1, draws_ok eps -> 0 <= f1 -> 0 <= xsy3_loop i eps x f1.
Proof.
  induction x as [|c x IH]; intros eps i f1 He Hf; destruct eps as [|e eps]; simpl; try exact Hf.
  inversion He as [|e' eps' Hee Het]. subst.
  apply IH; [exact Het | apply Rmult_le_pos; [lra | apply Rabs_pos]].
Qed.

Lemma xsy3_loop_opt : forall n eps i f1, f1 = 0 ->
  xsy3_loop i eps (map (fun j => 1 / INR (S j)) (seq i n)) f1 = 0.
Proof.
  induction n as [|n IH]; intros eps i f1 Hf; destruct eps as [|e eps]; simpl; try exact Hf.
  apply IH. unfold Rminus. rewrite Rplus_opp_r, Rabs_R0. ring.
Qed.

Lemma xsy3_opt_exact : forall eps n, xsy3 eps (inv_seq n) = 0.
Proof. intros eps n. unfold xsy3, inv_seq. apply xsy3_loop_opt. reflexivity. Qed.

Lemma inv_seq_in_cube : forall lb ub n, lb <= 0 -> 1 <= ub -> in_boxes (cube lb ub n) (inv_seq n).
Proof.
  intros lb ub n Hl Hu. unfold inv_seq. apply in_boxes_cube_map_seq. intros j.
  pose proof (inv_S_bounds j). lra.
Qed.

Lemma xsy3_opt_value : forall eps, opt_value_stmt (xsy3_b eps).
Proof.
  intros eps n Hn. simpl. split; [apply inv_seq_in_cube; lra | apply value_exact, xsy3_opt_exact].
Qed.

Lemma xsy3_opt_bound : forall eps, draws_ok eps -> opt_bound_stmt (xsy3_b eps).
Proof.
  intros eps He n x Hn Hx. simpl. apply nb_min. unfold xsy3. apply xsy3_loop_nonneg; [exact He | lra].
Qed.

(* ---------------------------------------------------------------- Perm *)
Lemma perm_well_defined : forall (i j : nat), INR (S j) ^ i <> 0.
Proof. intros i j. apply pow_nonzero. pose proof (INR_S_pos j). lra. Qed.

Lemma perm_inner_nonneg : forall i x, 0 <= perm_inner i x.
Proof.
  intros i x. unfold perm_inner. apply sum_idx_nonneg. intros j d.
  apply Rmult_le_pos; [pose proof (INR_S_pos j); lra | apply pow2_ge_0].
Qed.

Lemma perm_outer_nonneg : forall k x, 0 <= perm_outer k x.
Proof. induction k; intros x; simpl; [lra | pose proof (IHk x); pose proof (perm_inner_nonneg (S k) x); lra]. Qed.

Lemma inv_pow : forall a (i : nat), a <> 0 -> (1 / a) ^ i = 1 / a ^ i.
Proof.
  intros a i Ha. induction i; simpl; [field | rewrite IHi; field; split; [apply pow_nonzero |]; exact Ha].
Qed.

Lemma perm_inner_opt : forall i n, perm_inner i (inv_seq n) = 0.
Proof.
  intros i n. unfold perm_inner, inv_seq. apply sum_idx_map_seq_zero. intros j.
  rewrite inv_pow by (pose proof (INR_S_pos j); lra).
  unfold Rminus. rewrite Rplus_opp_r. ring.
Qed.

Lemma perm_outer_opt : forall k n, perm_outer k (inv_seq n) = 0.
Proof. induction k; intros n; simpl; [reflexivity | rewrite IHk, perm_inner_opt; ring]. Qed.

Lemma perm_opt_exact : forall n, perm (inv_seq n) = 0.
Proof. intros n. unfold perm. apply perm_outer_opt. Qed.

Lemma perm_opt_value : opt_value_stmt perm_b.
Proof.
  intros n Hn. simpl. unfold any_dim in Hn.
  assert (1 <= INR n) as L by (change 1 with (INR 1); apply le_INR; exact Hn).
  split; [apply inv_seq_in_cube; lra | apply value_exact, perm_opt_exact].
Qed.

Lemma perm_opt_bound : opt_bound_stmt perm_b.
Proof. intros n x Hn Hx. simpl. apply nb_min. unfold perm. apply perm_outer_nonneg. Qed.
