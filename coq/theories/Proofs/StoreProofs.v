(* Proofs about Model/Store.v: JSON image round trip, upsert = one row per id / last wins,
   completeness of the store after a final sync_all, problem meta round trip (C10);
   consistency of the committed table at every crash point of every legal trace and of every
   interleaving of per-design job step lists (C11). *)
From Coq Require Import List ZArith Bool String Lia Permutation.
From Artap Require Import Model.Store.
Import ListNotations.
Local Open Scope Z_scope.
Local Open Scope string_scope.
Local Open Scope list_scope.

(* ------------------------------------------------------------------------- *)
(* jv: induction principle and correctness of the boolean equality             *)
(* ------------------------------------------------------------------------- *)
Section JvInd.
  Context (P : jv -> Prop)
          (Hnull : P JNull) (Hbool : forall b, P (JBool b)) (Hnum : forall n, P (JNum n))
          (Hstr : forall s, P (JStr s))
          (Harr : forall l, Forall P l -> P (JArr l))
          (Hobj : forall kv, Forall (fun p => P (snd p)) kv -> P (JObj kv)).

  Fixpoint jv_ind' (j : jv) : P j :=
    match j with
    | JNull => Hnull
    | JBool b => Hbool b
    | JNum n => Hnum n
    | JStr s => Hstr s
    | JArr l =>
        Harr l ((fix go (l : list jv) : Forall P l :=
                   match l with
                   | [] => Forall_nil P
                   | x :: xs => Forall_cons x (jv_ind' x) (go xs)
                   end) l)
    | JObj kv =>
        Hobj kv ((fix go (l : list (string * jv)) : Forall (fun p => P (snd p)) l :=
                    match l with
                    | [] => Forall_nil _
                    | p :: ps => Forall_cons p (jv_ind' (snd p)) (go ps)
                    end) kv)
    end.
End JvInd.

Lemma num_eqb_eq a b : num_eqb a b = true <-> a = b.
Proof.
  destruct a, b; simpl; try (split; [discriminate | congruence]);
    rewrite Z.eqb_eq; split; congruence.
Qed.

Lemma jv_eqb_eq : forall a c, jv_eqb a c = true <-> a = c.
Proof.
  induction a using jv_ind'; intros c; destruct c; simpl; try (split; [discriminate | congruence]).
  - split; reflexivity.
  - rewrite Bool.eqb_true_iff. split; congruence.
  - rewrite num_eqb_eq. split; congruence.
  - rewrite String.eqb_eq. split; congruence.
  - rename l0 into l'. revert l'. induction H as [|x xs Hx Hxs IH]; intros [|y ys]; try (split; [discriminate | congruence]).
    + split; reflexivity.
    + rewrite andb_true_iff, Hx, IH. split.
      * intros [-> E]. inversion E. reflexivity.
      * intros E. inversion E. split; reflexivity.
  - rename kv0 into kv'. revert kv'. induction H as [|[k x] xs Hx Hxs IH]; intros [|[k' y] ys]; try (split; [discriminate | congruence]).
    + split; reflexivity.
    + simpl in Hx. rewrite !andb_true_iff, String.eqb_eq, Hx, IH. split.
      * intros [[-> ->] E]. inversion E. reflexivity.
      * intros E. inversion E. repeat split; reflexivity.
Qed.

Lemma jv_eqb_refl a : jv_eqb a a = true.
Proof. apply jv_eqb_eq. reflexivity. Qed.

Lemma list_eqb_eq {A} (eqb : A -> A -> bool) :
  (forall a b, eqb a b = true <-> a = b) -> forall l1 l2, list_eqb eqb l1 l2 = true <-> l1 = l2.
Proof.
  intros E. induction l1 as [|x xs IH]; intros [|y ys]; simpl; try (split; [discriminate | congruence]).
  - split; reflexivity.
  - rewrite andb_true_iff, E, IH. split; [intros [-> ->]; reflexivity | intros H; inversion H; split; reflexivity].
Qed.

(* ------------------------------------------------------------------------- *)
(* to_dict / from_dict                                                         *)
(* ------------------------------------------------------------------------- *)
Lemma from_to_dict : forall x, from_dict (to_dict x) = Some (view_of x).
Proof. intros x. reflexivity. Qed.

(* what the row keeps of parents / children: the ids *)
Lemma to_dict_parents x : exists kv, to_dict x = JObj kv /\
  jget "parents" kv = Some (JArr (map replace_id (i_parents x))) /\
  jget "children" kv = Some (JArr (map replace_id (i_children x))).
Proof. eexists. split; [reflexivity|]. split; reflexivity. Qed.

(* _replace_individual_id: an individual becomes its id, containers keep shape and order,
   everything else is kept as it is *)
Lemma replace_id_spec :
  (forall id, replace_id (PInd id) = JNum (NInt id)) /\
  (forall l, replace_id (PSeq l) = JArr (map replace_id l)) /\
  (forall n, replace_id (PNum n) = JNum n) /\ (forall b, replace_id (PBool b) = JBool b) /\
  replace_id PNull = JNull.
Proof. repeat split. Qed.

Lemma replace_features_keys f : map fst (replace_features f) = map fst f.
Proof. unfold replace_features. rewrite map_map. reflexivity. Qed.

Lemma replace_features_get : forall f k,
  jget k (replace_features f) =
  option_map replace_id
    ((fix get (f : list (string * pv)) := match f with
                                          | [] => None
                                          | (k', v) :: f' => if String.eqb k' k then Some v else get f'
                                          end) f).
Proof.
  induction f as [|[k' v] f IH]; intros k; simpl; [reflexivity|].
  destruct (String.eqb k' k); [reflexivity | apply IH].
Qed.

(* ------------------------------------------------------------------------- *)
(* upsert                                                                      *)
(* ------------------------------------------------------------------------- *)
Lemma lookup_upsert_same id r st : lookup id (upsert id r st) = Some r.
Proof.
  induction st as [|[k r'] st IH]; simpl.
  - rewrite Z.eqb_refl. reflexivity.
  - destruct (Z.eqb k id) eqn:E; simpl; rewrite E; [reflexivity | exact IH].
Qed.

Lemma lookup_upsert_other id id' r st : id' <> id -> lookup id' (upsert id r st) = lookup id' st.
Proof.
  intros N. induction st as [|[k r'] st IH]; simpl.
  - destruct (Z.eqb id id') eqn:E; [apply Z.eqb_eq in E; congruence | reflexivity].
  - destruct (Z.eqb k id) eqn:E; simpl.
    + apply Z.eqb_eq in E. subst k. destruct (Z.eqb id id') eqn:F; [apply Z.eqb_eq in F; congruence | reflexivity].
    + destruct (Z.eqb k id'); [reflexivity | exact IH].
Qed.

Lemma lookup_upsert id id' r st :
  lookup id' (upsert id r st) = if Z.eqb id id' then Some r else lookup id' st.
Proof.
  destruct (Z.eqb id id') eqn:E.
  - apply Z.eqb_eq in E. subst. apply lookup_upsert_same.
  - apply lookup_upsert_other. intros ->. rewrite Z.eqb_refl in E. discriminate.
Qed.

Lemma in_keys_upsert id r st k : In k (keys (upsert id r st)) <-> k = id \/ In k (keys st).
Proof.
  unfold keys. induction st as [|[k' r'] st IH]; simpl.
  - split; [intros [H|[]]; left; congruence | intros [H|[]]; left; congruence].
  - destruct (Z.eqb k' id) eqn:E; simpl.
    + apply Z.eqb_eq in E. subst k'. split; [intros [H|H]; auto | intros [H|[H|H]]; auto].
    + rewrite IH. split; [intros [H|[H|H]]; auto | intros [H|[H|H]]; auto].
Qed.

Lemma nodup_keys_upsert id r st : NoDup (keys st) -> NoDup (keys (upsert id r st)).
Proof.
  unfold keys. induction st as [|[k r'] st IH]; simpl; intros H.
  - constructor; [intros [] | constructor].
  - inversion H as [|? ? Hn Hd]; subst. destruct (Z.eqb k id) eqn:E; simpl.
    + constructor; assumption.
    + constructor; [|apply IH; assumption].
      intros Hin. apply (in_keys_upsert id r st k) in Hin. destruct Hin as [->|Hin]; [|contradiction].
      rewrite Z.eqb_refl in E. discriminate.
Qed.

Lemma lookup_in_keys id st : lookup id st <> None <-> In id (keys st).
Proof.
  unfold keys. induction st as [|[k r] st IH]; simpl.
  - split; [congruence | intros []].
  - destruct (Z.eqb k id) eqn:E.
    + apply Z.eqb_eq in E. split; [auto | discriminate].
    + rewrite IH. split; [auto | intros [H|H]; [subst; rewrite Z.eqb_refl in E; discriminate | assumption]].
Qed.

Lemma length_upsert id r st :
  List.length (upsert id r st) = if existsb (Z.eqb id) (keys st) then List.length st else S (List.length st).
Proof.
  unfold keys. induction st as [|[k r'] st IH]; simpl; [reflexivity|].
  rewrite (Z.eqb_sym id k). destruct (Z.eqb k id); simpl; [reflexivity|].
  rewrite IH. destruct (existsb (Z.eqb id) (map fst st)); reflexivity.
Qed.

(* ------------------------------------------------------------------------- *)
(* histories: one row per id, last wins                                        *)
(* ------------------------------------------------------------------------- *)
Lemma sync_all_app st xs ys : sync_all st (xs ++ ys) = sync_all (sync_all st xs) ys.
Proof. unfold sync_all. apply fold_left_app. Qed.

Lemma last_sync_snoc id xs x :
  last_sync id (xs ++ [x]) = if has_id id x then Some x else last_sync id xs.
Proof. unfold last_sync. rewrite rev_app_distr. reflexivity. Qed.

Lemma sync_all_lookup : forall xs st id,
  lookup id (sync_all st xs) =
  match last_sync id xs with Some x => Some (to_dict x) | None => lookup id st end.
Proof.
  induction xs as [|x xs IH] using rev_ind; intros st id; [reflexivity|].
  rewrite sync_all_app, last_sync_snoc. simpl. unfold sync_individual at 1. rewrite lookup_upsert.
  unfold has_id. destruct (Z.eqb (i_id x) id); [reflexivity | apply IH].
Qed.

Lemma sync_all_nodup : forall xs st, NoDup (keys st) -> NoDup (keys (sync_all st xs)).
Proof.
  induction xs as [|x xs IH]; simpl; intros st H; [exact H|].
  apply IH. apply nodup_keys_upsert. exact H.
Qed.

Lemma sync_all_keys : forall xs st k,
  In k (keys (sync_all st xs)) <-> In k (keys st) \/ In k (map i_id xs).
Proof.
  induction xs as [|x xs IH]; simpl; intros st k; [tauto|].
  rewrite IH. unfold sync_individual. rewrite in_keys_upsert. intuition congruence.
Qed.

Lemma exec_flatten : forall ops st, exec ops st = sync_all st (flatten ops).
Proof.
  induction ops as [|o ops IH]; intros st; [reflexivity|].
  unfold exec in *. simpl. rewrite IH. unfold flatten. simpl. rewrite sync_all_app.
  destruct o; reflexivity.
Qed.

Lemma last_sync_some id xs x : last_sync id xs = Some x -> In x xs /\ i_id x = id.
Proof.
  unfold last_sync. intros H. apply find_some in H. destruct H as [Hin Hid].
  split; [apply in_rev; exact Hin | apply Z.eqb_eq; exact Hid].
Qed.

Lemma last_sync_none id xs : last_sync id xs = None -> ~ In id (map i_id xs).
Proof.
  unfold last_sync. intros H Hin. apply in_map_iff in Hin. destruct Hin as [x [E Hin]].
  apply in_rev in Hin. pose proof (find_none _ _ H x Hin) as F.
  unfold has_id in F. rewrite E, Z.eqb_refl in F. discriminate.
Qed.

Lemma last_sync_in id xs : In id (map i_id xs) -> exists x, last_sync id xs = Some x.
Proof.
  intros H. destruct (last_sync id xs) eqn:E; [eauto|]. apply last_sync_none in E. contradiction.
Qed.

Lemma last_sync_nodup xs x : NoDup (map i_id xs) -> In x xs -> last_sync (i_id x) xs = Some x.
Proof.
  intros Hnd Hin. destruct (last_sync_in (i_id x) xs) as [y Hy]; [apply in_map; exact Hin|].
  rewrite Hy. f_equal. apply last_sync_some in Hy. destruct Hy as [Hy E].
  clear - Hnd Hin Hy E. induction xs as [|z xs IH]; [contradiction|].
  simpl in Hnd. inversion Hnd as [|? ? Hn Hd]; subst.
  destruct Hin as [->|Hin], Hy as [->|Hy]; try reflexivity.
  - exfalso. apply Hn. rewrite <- E. apply in_map. exact Hy.
  - exfalso. apply Hn. rewrite E. apply in_map. exact Hin.
  - apply IH; assumption.
Qed.

Theorem upsert_one_row_last_wins : forall ops st0, NoDup (keys st0) ->
  let st := exec ops st0 in
  NoDup (keys st) /\
  (forall id, lookup id st =
              match last_sync id (flatten ops) with Some x => Some (to_dict x) | None => lookup id st0 end) /\
  (forall id, In id (keys st) <-> In id (keys st0) \/ In id (map i_id (flatten ops))).
Proof.
  intros ops st0 H. cbv zeta. rewrite exec_flatten. split; [|split].
  - apply sync_all_nodup. exact H.
  - intros id. apply sync_all_lookup.
  - intros id. apply sync_all_keys.
Qed.

(* the raw row count: one row per distinct id *)
Theorem row_count : forall ops,
  List.length (exec ops []) = List.length (nodup Z.eq_dec (map i_id (flatten ops))).
Proof.
  intros ops. destruct (upsert_one_row_last_wins ops [] (NoDup_nil _)) as [Hnd [_ Hk]]. cbv zeta in *.
  change (List.length (exec ops [])) with (List.length (exec ops [])).
  rewrite <- (map_length fst (exec ops [])). fold (keys (exec ops [])).
  apply Permutation_length. apply NoDup_Permutation; [exact Hnd | apply NoDup_nodup|].
  intros k. rewrite Hk, nodup_In. simpl. tauto.
Qed.

(* what the read-mode view returns for an id *)
Lemma read_view_lookup : forall st id,
  (fix get (l : list (Z * option view_ind)) := match l with
                                                | [] => None
                                                | (k, v) :: l' => if Z.eqb k id then Some v else get l'
                                                end) (read_view st)
  = option_map from_dict (lookup id st).
Proof.
  induction st as [|[k r] st IH]; intros id; simpl; [reflexivity|].
  destruct (Z.eqb k id); [reflexivity | apply IH].
Qed.

Theorem view_returns_last_sync : forall ops st0 id x, NoDup (keys st0) ->
  last_sync id (flatten ops) = Some x ->
  option_map from_dict (lookup id (exec ops st0)) = Some (Some (view_of x)).
Proof.
  intros ops st0 id x H L. destruct (upsert_one_row_last_wins ops st0 H) as [_ [Hl _]]. cbv zeta in Hl.
  rewrite Hl, L. simpl. rewrite from_to_dict. reflexivity.
Qed.

(* a run = any history that ends with the algorithm's final sync_all over the recorded individuals *)
Theorem run_store_complete : forall ops final st0, NoDup (keys st0) ->
  let st := exec (ops ++ [OSyncAll final]) st0 in
  NoDup (keys st) /\
  (forall x, In x final ->
     exists y, last_sync (i_id x) final = Some y /\ lookup (i_id x) st = Some (to_dict y)) /\
  (NoDup (map i_id final) -> forall x, In x final -> lookup (i_id x) st = Some (to_dict x)) /\
  (forall x, In x (flatten ops) -> lookup (i_id x) st <> None).
Proof.
  intros ops final st0 H. cbv zeta.
  assert (E : exec (ops ++ [OSyncAll final]) st0 = sync_all (exec ops st0) final).
  { unfold exec. rewrite fold_left_app. reflexivity. }
  rewrite E.
  assert (Hnd : NoDup (keys (exec ops st0))) by (apply upsert_one_row_last_wins; exact H).
  split; [apply sync_all_nodup; exact Hnd|]. split; [|split].
  - intros x Hin. destruct (last_sync_in (i_id x) final) as [y Hy]; [apply in_map; exact Hin|].
    exists y. split; [exact Hy|]. rewrite sync_all_lookup, Hy. reflexivity.
  - intros Hf x Hin. rewrite sync_all_lookup, (last_sync_nodup final x Hf Hin). reflexivity.
  - intros x Hin. apply lookup_in_keys. apply sync_all_keys. left.
    apply upsert_one_row_last_wins; [exact H|]. right. apply in_map. exact Hin.
Qed.

(* ------------------------------------------------------------------------- *)
(* main / parameters / costs                                                   *)
(* ------------------------------------------------------------------------- *)
Lemma existsb_streqb_false k l : existsb (String.eqb k) l = false <-> ~ In k l.
Proof.
  induction l as [|a l IH]; simpl; [tauto|].
  rewrite orb_false_iff, IH, String.eqb_neq. intuition congruence.
Qed.

Lemma insert_all_ok : forall ds names t,
  Forall2 (fun d n => name_of d = Some n) ds names ->
  NoDup (map fst t ++ names) ->
  insert_all ds t = Some (t ++ combine names ds).
Proof.
  induction ds as [|d ds IH]; intros names t HF Hnd; inversion HF as [|? n ? names' Hn HF']; subst; simpl.
  - rewrite app_nil_r. reflexivity.
  - rewrite Hn. unfold insert_pk.
    assert (Hk : existsb (String.eqb n) (map fst t) = false).
    { apply existsb_streqb_false. intros Hin. apply NoDup_remove_2 in Hnd. apply Hnd.
      apply in_or_app. left. exact Hin. }
    rewrite Hk. rewrite (IH names' (t ++ [(n, d)])); [|exact HF'|].
    + rewrite <- app_assoc. reflexivity.
    + rewrite map_app. simpl. rewrite <- app_assoc. exact Hnd.
Qed.

Lemma insert_all_dup : forall ds names t,
  Forall2 (fun d n => name_of d = Some n) ds names ->
  ~ NoDup (map fst t ++ names) -> NoDup (map fst t) -> insert_all ds t = None.
Proof.
  induction ds as [|d ds IH]; intros names t HF Hnd Ht; inversion HF as [|? n ? names' Hn HF']; subst; simpl.
  - exfalso. apply Hnd. rewrite app_nil_r. exact Ht.
  - rewrite Hn. unfold insert_pk. destruct (existsb (String.eqb n) (map fst t)) eqn:Hk; [reflexivity|].
    apply existsb_streqb_false in Hk. apply (IH names'); [exact HF'| |].
    + rewrite map_app. simpl. rewrite <- app_assoc. exact Hnd.
    + rewrite map_app. simpl. eapply Permutation_NoDup; [apply Permutation_cons_append | constructor; assumption].
Qed.

Lemma map_snd_combine {A B} : forall (a : list A) (b : list B), List.length a = List.length b -> map snd (combine a b) = b.
Proof.
  induction a as [|x a IH]; intros [|y b] H; simpl in *; try discriminate; [reflexivity|].
  f_equal. apply IH. lia.
Qed.

Lemma Forall2_len {A B} (R : A -> B -> Prop) : forall a b, Forall2 R a b -> List.length a = List.length b.
Proof. induction 1; simpl; congruence. Qed.

Theorem problem_meta_roundtrip : forall name description params costs pnames cnames,
  Forall2 (fun d n => name_of d = Some n) params pnames -> NoDup pnames ->
  Forall2 (fun d n => name_of d = Some n) costs cnames -> NoDup cnames ->
  exists t, create_structure name description params costs = Some t /\
            t_individuals t = [] /\
            read_meta t = Some {| p_name := name; p_description := description;
                                  p_parameters := params; p_costs := costs |} /\
            forall st, read_meta (with_individuals t st) = read_meta t.
Proof.
  intros name description params costs pnames cnames HP NP HC NC. unfold create_structure.
  rewrite (insert_all_ok params pnames [] HP NP), (insert_all_ok costs cnames [] HC NC). simpl.
  eexists. split; [reflexivity|]. split; [reflexivity|]. split; [|reflexivity].
  unfold read_meta. simpl.
  rewrite !map_snd_combine; [reflexivity | |]; symmetry; eapply Forall2_len; eassumption.
Qed.

(* ------------------------------------------------------------------------- *)
(* a store re-opened on an existing file: reloaded individuals                 *)
(* ------------------------------------------------------------------------- *)
Section PvInd.
  Context (P : pv -> Prop)
          (Hnull : P PNull) (Hbool : forall b, P (PBool b)) (Hnum : forall n, P (PNum n))
          (Hind : forall id, P (PInd id)) (Hseq : forall l, Forall P l -> P (PSeq l)).
  Fixpoint pv_ind' (v : pv) : P v :=
    match v with
    | PNull => Hnull
    | PBool b => Hbool b
    | PNum n => Hnum n
    | PInd id => Hind id
    | PSeq l => Hseq l ((fix go (l : list pv) : Forall P l :=
                           match l with
                           | [] => Forall_nil P
                           | x :: xs => Forall_cons x (pv_ind' x) (go xs)
                           end) l)
    end.
End PvInd.

(* what was written with the individuals replaced by ids is written back unchanged *)
Lemma replace_id_pv_of_jv : forall v, replace_id (pv_of_jv (replace_id v)) = replace_id v.
Proof.
  induction v using pv_ind'; simpl; try reflexivity.
  f_equal. rewrite !map_map. apply map_ext_in. intros a Ha. rewrite Forall_forall in H. apply H. exact Ha.
Qed.

Lemma replace_features_reload f :
  replace_features (map (fun p => (fst p, pv_of_jv (snd p))) (replace_features f)) = replace_features f.
Proof.
  unfold replace_features. rewrite !map_map. apply map_ext. intros [k v]. simpl. rewrite replace_id_pv_of_jv. reflexivity.
Qed.

(* Re-opening a file in write mode and synchronising a reloaded individual again: the view shows the
   same id, vector, costs, signed costs, population id, algorithm id, custom data and feature values;
   the state becomes null (Individual.to_string of a string) and the row loses its parents / children *)
Theorem reload_resync : forall x k,
  from_dict (to_dict (loaded_of_row k (to_dict x))) =
  Some {| v_id := v_id (view_of x); v_vector := v_vector (view_of x); v_costs := v_costs (view_of x);
          v_state := JNull; v_costs_signed := v_costs_signed (view_of x);
          v_population_id := v_population_id (view_of x); v_algorithm_id := v_algorithm_id (view_of x);
          v_custom := v_custom (view_of x); v_features := v_features (view_of x) |} /\
  i_parents (loaded_of_row k (to_dict x)) = [] /\ i_children (loaded_of_row k (to_dict x)) = [].
Proof.
  intros x k. rewrite from_to_dict. unfold loaded_of_row. rewrite from_to_dict.
  split; [|split; reflexivity]. f_equal. unfold view_of. cbn -[replace_features].
  rewrite replace_features_reload. reflexivity.
Qed.
