(* Proofs about Model/Samplers.v (property C12).  All statements are over exact rationals and
   hold for every sample count, every parameter count and every oracle tape meeting the stated
   hypotheses (draws in [0,1), index arrays that are permutations). *)
From Coq Require Import List ZArith QArith Qround Qabs Bool Arith Lia ZifyBool Lqa Permutation SetoidList.
From Artap Require Import Model.Samplers.
Import ListNotations.
Local Open Scope Q_scope.

(* ------------------------------------------------------------------------------------------ *)
(* Specification vocabulary                                                                     *)
(* ------------------------------------------------------------------------------------------ *)
Definition count {A : Type} (f : A -> bool) (l : list A) : nat := length (filter f l).

(* the s-th of N equal-width strata of [lo, hi):  [lo + s*w, lo + (s+1)*w)  with w = (hi-lo)/N *)
Definition stratum_lo (N : nat) (lo hi : Q) (s : nat) : Q := lo + qn s * ((hi - lo) / qn N).
Definition in_stratum (N : nat) (lo hi : Q) (s : nat) (x : Q) : Prop :=
  stratum_lo N lo hi s <= x /\ x < stratum_lo N lo hi (S s).
Definition in_stratumb (N : nat) (lo hi : Q) (s : nat) (x : Q) : bool :=
  Qle_bool (stratum_lo N lo hi s) x && negb (Qle_bool (stratum_lo N lo hi (S s)) x).

Definition in_unit (u : Q) : Prop := 0 <= u /\ u < 1.
Definition rect (n : nat) (m : list (list Q)) : Prop := Forall (fun row => length row = n) m.

(* ------------------------------------------------------------------------------------------ *)
(* Small facts                                                                                  *)
(* ------------------------------------------------------------------------------------------ *)
Lemma qn_S k : qn (S k) == qn k + 1.
Proof. unfold qn. rewrite Nat2Z.inj_succ, <- Z.add_1_r, inject_Z_plus. reflexivity. Qed.

Lemma qn_0 : qn 0 == 0.
Proof. reflexivity. Qed.

Lemma qn_le a b : (a <= b)%nat -> qn a <= qn b.
Proof. intros L. unfold qn. rewrite <- Zle_Qle. lia. Qed.

Lemma qn_lt a b : (a < b)%nat -> qn a < qn b.
Proof. intros L. unfold qn. rewrite <- Zlt_Qlt. lia. Qed.

Lemma qn_pos a : (0 < a)%nat -> 0 < qn a.
Proof. intros L. apply (qn_lt 0 a L). Qed.

Lemma qn_nonneg a : 0 <= qn a.
Proof. apply (qn_le 0 a). lia. Qed.

Lemma qn_inj a b : qn a == qn b -> a = b.
Proof. unfold qn. rewrite inject_Z_injective. lia. Qed.

Lemma in_stratumb_spec N lo hi s x : in_stratumb N lo hi s x = true <-> in_stratum N lo hi s x.
Proof.
  unfold in_stratumb, in_stratum. rewrite andb_true_iff, negb_true_iff, Qle_bool_iff.
  split; intros [A B]; split; try exact A.
  - apply Qnot_le_lt. intro C. apply Qle_bool_iff in C. congruence.
  - destruct (Qle_bool (stratum_lo N lo hi (S s)) x) eqn:E; [|reflexivity].
    apply Qle_bool_iff in E. lra.
Qed.

Lemma nth_map {A B : Type} (f : A -> B) l k d d' : (k < length l)%nat -> nth k (map f l) d = f (nth k l d').
Proof.
  revert k. induction l as [|a l IH]; intros [|k] L; cbn in *; try lia; try reflexivity. apply IH. lia.
Qed.

Lemma nth_map_seq {A : Type} (g : nat -> A) a n j d : (j < n)%nat -> nth j (map g (seq a n)) d = g (a + j)%nat.
Proof.
  intros L. rewrite (nth_indep _ d (g 0%nat)) by (rewrite map_length, seq_length; exact L).
  rewrite map_nth, seq_nth by exact L. reflexivity.
Qed.

Lemma map_nth_seq {A : Type} (p : list A) d : map (fun i => nth i p d) (seq 0 (length p)) = p.
Proof.
  apply (nth_ext _ _ d d).
  - rewrite map_length, seq_length. reflexivity.
  - intros k L. rewrite map_length, seq_length in L. rewrite nth_map_seq by exact L. reflexivity.
Qed.

Lemma count_map {A B : Type} (f : B -> bool) (g : A -> B) l : count f (map g l) = count (fun a => f (g a)) l.
Proof. unfold count. induction l as [|a l IH]; cbn; [reflexivity|]. destruct (f (g a)); cbn; rewrite IH; reflexivity. Qed.

Lemma count_ext_in {A : Type} (f g : A -> bool) l : (forall a, In a l -> f a = g a) -> count f l = count g l.
Proof.
  unfold count. induction l as [|a l IH]; intros E; cbn; [reflexivity|].
  rewrite (E a (or_introl eq_refl)). destruct (g a); cbn; rewrite IH; auto; intros; apply E; right; assumption.
Qed.

Lemma count_perm {A : Type} (f : A -> bool) l l' : Permutation l l' -> count f l = count f l'.
Proof.
  unfold count. induction 1; cbn; try congruence.
  - destruct (f x); cbn; congruence.
  - destruct (f x), (f y); reflexivity.
Qed.

Lemma count_eqb_seq s a n : count (Nat.eqb s) (seq a n) = if (a <=? s)%nat && (s <? a + n)%nat then 1%nat else 0%nat.
Proof.
  unfold count. revert a. induction n as [|n IH]; intros a.
  - cbn [seq filter length]. destruct ((a <=? s)%nat && (s <? a + 0)%nat) eqn:E; [lia|reflexivity].
  - cbn [seq filter]. rewrite <- Nat.add_succ_comm. destruct (s =? a)%nat eqn:E0.
    + cbn [length]. rewrite IH. destruct ((S a <=? s)%nat && (s <? S a + n)%nat) eqn:E1; [lia|].
      destruct ((a <=? s)%nat && (s <? S a + n)%nat) eqn:E2; lia.
    + rewrite IH. destruct ((S a <=? s)%nat && (s <? S a + n)%nat) eqn:E1;
      destruct ((a <=? s)%nat && (s <? S a + n)%nat) eqn:E2; lia.
Qed.

(* ------------------------------------------------------------------------------------------ *)
(* Latin hypercube                                                                              *)
(* ------------------------------------------------------------------------------------------ *)
Lemma stratum_lo_mono N lo hi a b : (0 < N)%nat -> lo < hi -> (a <= b)%nat ->
  stratum_lo N lo hi a <= stratum_lo N lo hi b.
Proof.
  intros HN Hb L. unfold stratum_lo.
  assert (E : 0 <= (hi - lo) / qn N).
  { apply Qle_shift_div_l; [apply qn_pos; exact HN|]. lra. }
  pose proof (Qmult_le_compat_r _ _ _ (qn_le a b L) E). lra.
Qed.

Lemma stratum_disjoint N lo hi s t x : (0 < N)%nat -> lo < hi ->
  in_stratum N lo hi s x -> in_stratum N lo hi t x -> s = t.
Proof.
  intros HN Hb [A1 A2] [B1 B2].
  destruct (Nat.lt_trichotomy s t) as [L|[L|L]]; [|exact L|]; exfalso.
  - pose proof (stratum_lo_mono N lo hi (S s) t HN Hb L). lra.
  - pose proof (stratum_lo_mono N lo hi (S t) s HN Hb L). lra.
Qed.

(* a unit sample drawn for stratum t lands, after the affine map, in stratum t of [lo, hi) *)
Lemma lhs_point_in_stratum N lo hi t u : (0 < N)%nat -> lo < hi -> in_unit u ->
  in_stratum N lo hi t (scale lo hi (rdpoint N t u)).
Proof.
  intros HN Hb [U0 U1]. pose proof (qn_pos N HN) as PN.
  assert (E : 0 < (hi - lo) / qn N) by (apply Qlt_shift_div_l; [exact PN|lra]).
  assert (X : scale lo hi (rdpoint N t u) == lo + (qn t + u) * ((hi - lo) / qn N)).
  { unfold scale, rdpoint, cut. rewrite Qabs_pos by lra. rewrite qn_S. field. lra. }
  unfold in_stratum, stratum_lo. rewrite X, qn_S.
  set (e := (hi - lo) / qn N) in *.
  pose proof (Qmult_le_0_compat u e U0 (Qlt_le_weak _ _ E)) as P1.
  assert (P2 : 0 < (1 - u) * e) by (apply Qmult_lt_0_compat; lra).
  split; lra.
Qed.

Lemma lhs_entry N bs u perms i j : (i < N)%nat -> (j < length bs)%nat ->
  mat (build_lhs N bs u perms) i j =
    let r := nth i (nth j perms []) 0%nat in scale (blo bs j) (bhi bs j) (rdpoint N r (mat u r j)).
Proof.
  intros Li Lj. unfold mat at 1, build_lhs, scale_rows, lhs_classic.
  rewrite map_map. rewrite (nth_map_seq _ 0 N i []) by exact Li. cbn [plus].
  unfold scale_row. rewrite map_length, seq_length.
  rewrite (nth_map_seq _ 0 (length bs) j 0) by exact Lj. cbn [plus].
  rewrite (nth_map_seq _ 0 (length bs) j 0) by exact Lj. reflexivity.
Qed.

Lemma lhs_length N bs u perms : length (build_lhs N bs u perms) = N.
Proof. unfold build_lhs, scale_rows, lhs_classic. rewrite !map_length, seq_length. reflexivity. Qed.

Lemma lhs_dimension N bs u perms : rect (length bs) (build_lhs N bs u perms).
Proof.
  unfold rect, build_lhs, scale_rows, lhs_classic. rewrite map_map. apply Forall_forall.
  intros row I. apply in_map_iff in I. destruct I as [i [E _]]. subst row.
  unfold scale_row. rewrite !map_length, !seq_length. reflexivity.
Qed.

Lemma lhs_column N bs u perms j : (j < length bs)%nat -> length (nth j perms []) = N ->
  column j (build_lhs N bs u perms) =
    map (fun r => scale (blo bs j) (bhi bs j) (rdpoint N r (mat u r j))) (nth j perms []).
Proof.
  intros Lj Lp.
  assert (E : column j (build_lhs N bs u perms) = map (fun i => mat (build_lhs N bs u perms) i j) (seq 0 N)).
  { unfold column. apply (nth_ext _ _ 0 0).
    - rewrite !map_length, seq_length. apply lhs_length.
    - intros k L. rewrite map_length, lhs_length in L.
      rewrite nth_map_seq by exact L. cbn [plus]. unfold mat.
      rewrite (nth_map _ _ k 0 []) by (rewrite lhs_length; exact L). reflexivity. }
  rewrite E. rewrite <- (map_nth_seq (nth j perms []) 0%nat). rewrite Lp, map_map.
  apply map_ext_in. intros i I. apply in_seq in I. rewrite lhs_entry by lia. reflexivity.
Qed.

(* every sample sits in the stratum its permutation entry names *)
Lemma lhs_sample_stratum N bs u perms i j : (0 < N)%nat -> (i < N)%nat -> (j < length bs)%nat ->
  (forall r, (r < N)%nat -> in_unit (mat u r j)) -> blo bs j < bhi bs j ->
  (nth i (nth j perms []) 0 < N)%nat ->
  in_stratum N (blo bs j) (bhi bs j) (nth i (nth j perms []) 0%nat) (mat (build_lhs N bs u perms) i j).
Proof.
  intros HN Li Lj HU Hb Hr. rewrite lhs_entry by assumption. cbv zeta.
  apply lhs_point_in_stratum; auto.
Qed.

Theorem lhs_stratified : forall N bs u perms, (0 < N)%nat ->
  (forall i j, (i < N)%nat -> (j < length bs)%nat -> in_unit (mat u i j)) ->
  (forall j, (j < length bs)%nat -> Permutation (nth j perms []) (seq 0 N)) ->
  forall j, (j < length bs)%nat -> blo bs j < bhi bs j ->
  forall s, (s < N)%nat ->
    count (in_stratumb N (blo bs j) (bhi bs j) s) (column j (build_lhs N bs u perms)) = 1%nat.
Proof.
  intros N bs u perms HN HU HP j Lj Hb s Ls.
  pose proof (HP j Lj) as P.
  assert (Lp : length (nth j perms []) = N) by (rewrite (Permutation_length P); apply seq_length).
  rewrite lhs_column by assumption. rewrite count_map.
  rewrite (count_ext_in _ (Nat.eqb s)).
  - rewrite (count_perm _ _ _ P), count_eqb_seq.
    destruct (0 <=? s)%nat eqn:E1, (s <? 0 + N)%nat eqn:E2; cbn; try reflexivity; lia.
  - intros t I. assert (Lt : (t < N)%nat) by (apply (Permutation_in _ P), in_seq in I; lia).
    pose proof (lhs_point_in_stratum N (blo bs j) (bhi bs j) t (mat u t j) HN Hb (HU t j Lt Lj)) as S1.
    destruct (Nat.eqb_spec s t) as [->|NE].
    + apply in_stratumb_spec. exact S1.
    + destruct (in_stratumb N (blo bs j) (bhi bs j) s _) eqn:E; [|reflexivity].
      apply in_stratumb_spec in E. exfalso. apply NE.
      exact (stratum_disjoint N _ _ s t _ HN Hb E S1).
Qed.

(* ------------------------------------------------------------------------------------------ *)
(* Uniform grid                                                                                 *)
(* ------------------------------------------------------------------------------------------ *)
(* the i-th of k equally spaced levels of a parameter with bounds b = (lb, ub) *)
Definition level (k : nat) (b : Q * Q) (i : nat) : Q := fst b + qn i * ((snd b - fst b) / (qn k - 1)).
Definition is_level (k : nat) (b : Q * Q) (x : Q) : Prop := exists i, (i < k)%nat /\ x == level k b i.
Notation eqv := (eqlistA Qeq).

Lemma level_first k b : level k b 0 == fst b.
Proof. unfold level. rewrite qn_0. ring. Qed.

Lemma level_last k b : (2 <= k)%nat -> level k b (k - 1) == snd b.
Proof.
  intros L. unfold level. replace k with (S (k - 1)) at 2 by lia. rewrite qn_S.
  pose proof (qn_pos (k - 1) ltac:(lia)). field. lra.
Qed.

Lemma level_inj k b i j : (2 <= k)%nat -> fst b < snd b -> level k b i == level k b j -> i = j.
Proof.
  intros L Hb E. unfold level in E. apply qn_inj.
  assert (P : 0 < qn k - 1).
  { replace k with (S (k - 1)) by lia. rewrite qn_S. pose proof (qn_pos (k - 1) ltac:(lia)). lra. }
  assert (D : 0 < (snd b - fst b) / (qn k - 1)) by (apply Qlt_shift_div_l; [exact P|lra]).
  apply (Qmult_inj_r _ _ ((snd b - fst b) / (qn k - 1))); [lra|]. lra.
Qed.

Lemma levels_nth_eq k b i : fst b + qn i * ((snd b - fst b) / inject_Z (Z.of_nat k - 1)) == level k b i.
Proof.
  unfold level, qn. unfold Z.sub. rewrite inject_Z_plus, inject_Z_opp. reflexivity.
Qed.

Lemma levels_length k b : length (levels k b) = k.
Proof. unfold levels. rewrite map_length, seq_length. reflexivity. Qed.

Lemma levels_InA k b x : InA Qeq x (levels k b) <-> is_level k b x.
Proof.
  unfold levels, is_level. rewrite InA_alt. split.
  - intros [y [E I]]. apply in_map_iff in I. destruct I as [i [Ey I]]. apply in_seq in I.
    exists i. split; [lia|]. rewrite E, <- Ey. apply levels_nth_eq.
  - intros [i [L E]]. eexists. split; [|apply in_map_iff; exists i; split; [reflexivity|apply in_seq; lia]].
    rewrite E. symmetry. apply levels_nth_eq.
Qed.

Lemma NoDupA_map_inj {A : Type} (f : A -> Q) l :
  (forall a b, In a l -> In b l -> f a == f b -> a = b) -> NoDup l -> NoDupA Qeq (map f l).
Proof.
  induction l as [|a l IH]; intros Inj ND; cbn; [constructor|].
  inversion ND as [|? ? NI ND']; subst. constructor.
  - intro I. apply InA_alt in I. destruct I as [y [E I]]. apply in_map_iff in I. destruct I as [b [Eb Ib]].
    subst y. assert (a = b) by (apply Inj; [left; reflexivity|right; exact Ib|exact E]). subst b. exact (NI Ib).
  - apply IH; [|exact ND']. intros x y Ix Iy. apply Inj; right; assumption.
Qed.

Lemma levels_NoDupA k b : (2 <= k)%nat -> fst b < snd b -> NoDupA Qeq (levels k b).
Proof.
  intros L Hb. unfold levels. apply NoDupA_map_inj; [|apply seq_NoDup].
  intros i j _ _ E. rewrite !levels_nth_eq in E. exact (level_inj k b i j L Hb E).
Qed.

(* itertools.product: generic facts, up to Qeq on the entries *)
Lemma flat_map_cons_length (P : list (list Q)) l :
  length (flat_map (fun x => map (cons x) P) l) = (length l * length P)%nat.
Proof. induction l as [|x l IH]; cbn; [reflexivity|]. rewrite app_length, map_length, IH. reflexivity. Qed.

Lemma product_length ls : length (product ls) = fold_right (fun l a => (length l * a)%nat) 1%nat ls.
Proof. induction ls as [|l r IH]; cbn; [reflexivity|]. rewrite flat_map_cons_length, IH. reflexivity. Qed.

Lemma InA_map_cons x (P : list (list Q)) v :
  InA eqv v (map (cons x) P) <-> match v with [] => False | y :: w => y == x /\ InA eqv w P end.
Proof.
  induction P as [|p P IH]; cbn.
  - split; [intros H; inversion H|]. destruct v; [tauto|]. intros [_ H]. inversion H.
  - rewrite InA_cons, IH. destruct v as [|y w].
    + split; [intros [H|[]]; inversion H|tauto].
    + rewrite InA_cons. split.
      * intros [H|[H1 H2]]; [inversion H; subst; split; [assumption|left; assumption]|split; [assumption|right; assumption]].
      * intros [H1 [H2|H2]]; [left; constructor; assumption|right; split; assumption].
Qed.

Lemma InA_flat_map_cons (P : list (list Q)) l v :
  InA eqv v (flat_map (fun x => map (cons x) P) l) <->
  match v with [] => False | y :: w => InA Qeq y l /\ InA eqv w P end.
Proof.
  induction l as [|x l IH]; cbn.
  - split; [intros H; inversion H|]. destruct v; [tauto|]. intros [H _]. inversion H.
  - rewrite InA_app_iff, IH, InA_map_cons. destruct v as [|y w]; [tauto|]. rewrite InA_cons. tauto.
Qed.

Lemma product_InA ls v : InA eqv v (product ls) <-> Forall2 (fun l x => InA Qeq x l) ls v.
Proof.
  revert v. induction ls as [|l r IH]; intros v; cbn.
  - split.
    + intros H. inversion H as [? ? E|? ? H']; [inversion E; constructor|inversion H'].
    + intros H. inversion H. left. constructor.
  - rewrite InA_flat_map_cons. destruct v as [|y w].
    + split; [tauto|intros H; inversion H].
    + rewrite IH. split; [intros [A B]; constructor; assumption|intros H; inversion H; subst; split; assumption].
Qed.

Lemma NoDupA_map_cons x (P : list (list Q)) : NoDupA eqv P -> NoDupA eqv (map (cons x) P).
Proof.
  induction 1 as [|p P NI ND IH]; cbn; constructor; [|exact IH].
  intro I. apply InA_map_cons in I. destruct I as [_ I]. exact (NI I).
Qed.

Lemma NoDupA_flat_map_cons (P : list (list Q)) l :
  NoDupA Qeq l -> NoDupA eqv P -> NoDupA eqv (flat_map (fun x => map (cons x) P) l).
Proof.
  intros NDl NDP. induction NDl as [|x l NI ND IH]; cbn; [constructor|].
  apply NoDupA_app; [exact (eqlistA_equiv Q_Setoid)|apply NoDupA_map_cons; exact NDP|exact IH|].
  intros v I1 I2. apply InA_map_cons in I1. apply InA_flat_map_cons in I2.
  destruct v as [|y w]; [exact I1|]. destruct I1 as [E _]. destruct I2 as [I _].
  apply NI. rewrite <- E. exact I.
Qed.

Lemma product_NoDupA ls : Forall (NoDupA Qeq) ls -> NoDupA eqv (product ls).
Proof.
  induction 1 as [|l r ND _ IH]; cbn.
  - constructor; [intro H; inversion H|constructor].
  - apply NoDupA_flat_map_cons; assumption.
Qed.

Lemma product_dimension ls v : In v (product ls) -> length v = length ls.
Proof.
  revert v. induction ls as [|l r IH]; intros v; cbn.
  - intros [<-|[]]. reflexivity.
  - intros I. apply in_flat_map in I. destruct I as [x [_ I]]. apply in_map_iff in I.
    destruct I as [w [<- I]]. cbn. rewrite (IH w I). reflexivity.
Qed.

Theorem grid_complete : forall k bs, (2 <= k)%nat ->
  length (uniform_grid k bs) = (k ^ length bs)%nat /\
  (forall v, InA eqv v (uniform_grid k bs) <-> Forall2 (is_level k) bs v) /\
  (Forall (fun b => fst b < snd b) bs -> NoDupA eqv (uniform_grid k bs)).
Proof.
  intros k bs L. unfold uniform_grid. repeat split.
  - rewrite product_length. induction bs as [|b bs IH]; cbn; [reflexivity|].
    rewrite IH, levels_length. reflexivity.
  - rewrite product_InA. revert v. induction bs as [|b bs IH]; intros v; cbn; intros H; inversion H; subst; constructor.
    + apply levels_InA. assumption.
    + apply IH. assumption.
  - rewrite product_InA. revert v. induction bs as [|b bs IH]; intros v; cbn; intros H; inversion H; subst; constructor.
    + apply levels_InA. assumption.
    + apply IH. assumption.
  - intros Hb. apply product_NoDupA. induction Hb as [|b bs Hb _ IH]; cbn; constructor; [|exact IH].
    apply levels_NoDupA; assumption.
Qed.

Theorem grid_first_last : forall k b, (2 <= k)%nat -> level k b 0 == fst b /\ level k b (k - 1) == snd b.
Proof. intros k b L. split; [apply level_first|apply level_last; exact L]. Qed.

Lemma grid_dimension k bs : rect (length bs) (uniform_grid k bs).
Proof.
  apply Forall_forall. intros v I. unfold uniform_grid in I. rewrite (product_dimension _ _ I).
  apply map_length.
Qed.

(* ------------------------------------------------------------------------------------------ *)
(* Halton: the van der Corput loop computes the digit-reversal sum                              *)
(* ------------------------------------------------------------------------------------------ *)
(* k-th base-b digit of i, and  sum_{k<K} digit_k(i) / b^(k+1)  (the radical inverse of i as
   soon as i < b^K: all further digits are 0, see radical_inverse_stable) *)
Definition digit (b i k : nat) : nat := ((i / b ^ k) mod b)%nat.
Fixpoint qsum (f : nat -> Q) (K : nat) : Q :=
  match K with O => 0 | S K' => qsum f K' + f K' end.
Definition radical_inverse (b i K : nat) : Q := qsum (fun k => qn (digit b i k) / qn (b ^ S k)) K.

Lemma qn_mul a b : qn (a * b) == qn a * qn b.
Proof. unfold qn. rewrite Nat2Z.inj_mul, inject_Z_mult. reflexivity. Qed.

Lemma qsum_ext f g K : (forall k, (k < K)%nat -> f k == g k) -> qsum f K == qsum g K.
Proof.
  induction K as [|K IH]; intros E; cbn; [reflexivity|].
  rewrite IH, (E K) by (intros; try apply E; lia). reflexivity.
Qed.

Lemma qsum_shift f K : qsum f (S K) == f 0%nat + qsum (fun k => f (S k)) K.
Proof.
  induction K as [|K IH]; [cbn; ring|].
  change (qsum f (S (S K))) with (qsum f (S K) + f (S K)). rewrite IH. cbn. ring.
Qed.

Lemma qsum_scale c f K : qsum (fun k => c * f k) K == c * qsum f K.
Proof. induction K as [|K IH]; cbn; [ring|]. rewrite IH. ring. Qed.

Lemma qsum_zero f K : (forall k, (k < K)%nat -> f k == 0) -> qsum f K == 0.
Proof.
  induction K as [|K IH]; intros E; cbn; [reflexivity|].
  rewrite IH, (E K) by (intros; try apply E; lia). ring.
Qed.

Lemma radical_inverse_0 b K : (2 <= b)%nat -> radical_inverse b 0 K == 0.
Proof.
  intros Hb. apply qsum_zero. intros k _. unfold digit.
  rewrite Nat.div_0_l by (apply Nat.pow_nonzero; lia). rewrite Nat.mod_0_l by lia.
  unfold Qdiv. rewrite qn_0. ring.
Qed.

(* Horner step: peel the lowest digit *)
Lemma radical_inverse_step b i K : (2 <= b)%nat ->
  radical_inverse b i (S K) == (qn (i mod b) + radical_inverse b (i / b) K) / qn b.
Proof.
  intros Hb. pose proof (qn_pos b ltac:(lia)) as Pb. unfold radical_inverse. rewrite qsum_shift.
  assert (E : qsum (fun k => qn (digit b i (S k)) / qn (b ^ S (S k))) K ==
              qsum (fun k => (1 / qn b) * (qn (digit b (i / b) k) / qn (b ^ S k))) K).
  { apply qsum_ext. intros k _. unfold digit.
    rewrite Nat.div_div by (try apply Nat.pow_nonzero; lia).
    change (b ^ S (S k))%nat with (b * b ^ S k)%nat. change (b ^ S k)%nat with (b * b ^ k)%nat at 1.
    rewrite (qn_mul b (b ^ S k)).
    assert (0 < qn (b ^ S k)) by (apply qn_pos; apply Nat.neq_0_lt_0, Nat.pow_nonzero; lia).
    field. split; lra. }
  rewrite E, qsum_scale. unfold digit. rewrite Nat.pow_0_r, Nat.div_1_r, Nat.pow_1_r. field. lra.
Qed.

(* digits beyond the length of i are zero: the sum does not depend on K once i < b^K *)
Lemma radical_inverse_stable b i K : (2 <= b)%nat -> (i < b ^ K)%nat ->
  radical_inverse b i (S K) == radical_inverse b i K.
Proof.
  intros Hb L. unfold radical_inverse. cbn [qsum]. unfold digit at 2.
  rewrite (Nat.div_small i (b ^ K)) by exact L. rewrite Nat.mod_0_l by lia.
  unfold Qdiv. rewrite qn_0. ring.
Qed.

Lemma vdc_loop_spec b : (2 <= b)%nat -> forall fuel i K denom acc,
  (i < b ^ fuel)%nat -> (i < b ^ K)%nat -> 0 < denom ->
  vdc_loop fuel b i denom acc == acc + radical_inverse b i K / denom.
Proof.
  intros Hb. pose proof (qn_pos b ltac:(lia)) as Pb.
  induction fuel as [|f IH]; intros i K denom acc Lf LK Pd.
  - cbn in Lf. assert (i = 0)%nat by lia. subst i. cbn [vdc_loop].
    rewrite radical_inverse_0 by exact Hb. field. lra.
  - cbn [vdc_loop]. destruct (Nat.eqb_spec i 0) as [->|NZ].
    + rewrite radical_inverse_0 by exact Hb. field. lra.
    + destruct K as [|K]; [cbn in LK; lia|].
      assert (D1 : (i / b < b ^ f)%nat) by (apply Nat.div_lt_upper_bound; [lia|exact Lf]).
      assert (D2 : (i / b < b ^ K)%nat) by (apply Nat.div_lt_upper_bound; [lia|exact LK]).
      assert (Pd' : 0 < denom * qn b) by (apply Qmult_lt_0_compat; assumption).
      rewrite (IH (i / b)%nat K _ _ D1 D2 Pd'). rewrite radical_inverse_step by exact Hb.
      field. split; lra.
Qed.

Theorem vdc_radical_inverse b i K : (2 <= b)%nat -> (i < b ^ K)%nat -> vdc_at b i == radical_inverse b i K.
Proof.
  intros Hb L. unfold vdc_at. rewrite (vdc_loop_spec b Hb i i K 1 0); [field| |exact L|lra].
  apply Nat.pow_gt_lin_r. lia.
Qed.

(* the bases the code uses are >= 2, whatever the sieve does *)
Lemma lor_1_ge x : (4 <= x)%nat -> (2 <= Nat.lor x 1)%nat.
Proof.
  intros L. assert (E : (Nat.lor x 1 / 2 = x / 2)%nat).
  { change 2%nat with (2 ^ 1)%nat. rewrite <- !Nat.shiftr_div_pow2, Nat.shiftr_lor. cbn [Nat.shiftr Nat.div2 nat_rect].
    apply Nat.lor_0_r. }
  assert (2 <= x / 2)%nat by (apply Nat.div_le_lower_bound; lia).
  destruct (le_lt_dec 2 (Nat.lor x 1)) as [G|G]; [exact G|].
  rewrite (Nat.div_small _ 2) in E by exact G. lia.
Qed.

Lemma nonzero_from_ge idx l : Forall (fun x => (idx <= x)%nat) (nonzero_from idx l).
Proof.
  revert idx. induction l as [|b t IH]; intros idx; cbn; [constructor|].
  assert (F : Forall (fun x => (idx <= x)%nat) (nonzero_from (S idx) t)).
  { eapply Forall_impl; [|apply IH]. cbn. intros; lia. }
  destruct b; [constructor; [lia|exact F]|exact F].
Qed.

Lemma nonzero_from_tl_gt idx l : Forall (fun x => (idx < x)%nat) (tl (nonzero_from idx l)).
Proof.
  destruct l as [|b t]; cbn; [constructor|]. destruct b; cbn.
  - apply nonzero_from_ge.
  - pose proof (nonzero_from_ge (S idx) t) as F. destruct (nonzero_from (S idx) t); cbn; [constructor|].
    inversion F; assumption.
Qed.

Lemma primes_from_2_to_ge2 n : Forall (fun p => (2 <= p)%nat) (primes_from_2_to n).
Proof.
  unfold primes_from_2_to. constructor; [lia|]. constructor; [lia|].
  apply Forall_forall. intros p I. apply in_map_iff in I. destruct I as [idx [<- I]].
  match type of I with In _ (tl (nonzero_from 0 ?l)) => pose proof (nonzero_from_tl_gt 0 l) as F end.
  rewrite Forall_forall in F. specialize (F idx I).
  apply lor_1_ge. lia.
Qed.

Lemma halton_base_loop_spec fuel big dim base : halton_base_loop fuel big dim = Some base ->
  length base = dim /\ Forall (fun p => (2 <= p)%nat) base.
Proof.
  revert big. induction fuel as [|f IH]; intros big; cbn; [discriminate|].
  destruct (Nat.eqb_spec (length (firstn dim (primes_from_2_to big))) dim) as [E|NE].
  - intros H. inversion H; subst. split; [exact E|].
    apply Forall_forall. intros p I.
    assert (I' : In p (primes_from_2_to big)) by (rewrite <- (firstn_skipn dim); apply in_or_app; left; exact I).
    pose proof (primes_from_2_to_ge2 big) as F. rewrite Forall_forall in F. exact (F p I').
  - apply IH.
Qed.

Lemma halton_unit_rows N base : halton_unit N base = map (fun i => map (fun b => vdc_at b i) base) (seq 1 N).
Proof.
  unfold halton_unit. cbn [seq map tl]. apply map_ext_in. intros i I. apply in_seq in I.
  rewrite map_map. apply map_ext. intros b. unfold van_der_corput.
  rewrite (nth_map_seq _ 0 (S N) i 0) by lia. reflexivity.
Qed.

Lemma scale_rows_entry bs x i j : (j < length (nth i x []))%nat ->
  mat (scale_rows bs x) i j = scale (blo bs j) (bhi bs j) (mat x i j).
Proof.
  intros L. unfold mat, scale_rows.
  destruct (le_lt_dec (length x) i) as [G|G].
  - rewrite (nth_overflow x) in L by exact G. cbn in L. lia.
  - rewrite (nth_map _ _ i [] []) by exact G. unfold scale_row.
    rewrite (nth_map_seq _ 0 _ j 0) by exact L. reflexivity.
Qed.

Lemma scale_rows_rect bs x n : rect n x -> rect n (scale_rows bs x).
Proof.
  unfold rect, scale_rows. rewrite !Forall_forall. intros R row I. apply in_map_iff in I.
  destruct I as [w [<- I]]. unfold scale_row. rewrite map_length, seq_length. apply R. exact I.
Qed.

Theorem halton_radical_inverse : forall N bs base X,
  halton_base (length bs) = Some base -> build_halton N bs = Some X ->
  length X = N /\ rect (length bs) X /\
  forall i j K, (1 <= i <= N)%nat -> (j < length bs)%nat -> blo bs j <= bhi bs j ->
    (i < nth j base 0%nat ^ K)%nat ->
    mat X (i - 1) j == blo bs j + radical_inverse (nth j base 0%nat) i K * (bhi bs j - blo bs j).
Proof.
  intros N bs base X HB HX. unfold build_halton in HX. rewrite HB in HX. inversion HX; subst X; clear HX.
  destruct (halton_base_loop_spec _ _ _ _ HB) as [LB GE]. rewrite halton_unit_rows.
  assert (R : rect (length bs) (map (fun i => map (fun b => vdc_at b i) base) (seq 1 N))).
  { apply Forall_forall. intros row I. apply in_map_iff in I. destruct I as [i [<- _]].
    rewrite map_length. exact LB. }
  split; [unfold scale_rows; rewrite !map_length, seq_length; reflexivity|].
  split; [apply scale_rows_rect; exact R|].
  intros i j K Li Lj Hb LK.
  assert (Erow : nth (i - 1) (map (fun i0 => map (fun b => vdc_at b i0) base) (seq 1 N)) [] =
                 map (fun b => vdc_at b i) base).
  { rewrite (nth_map_seq _ 1 N (i - 1) []) by lia. replace (1 + (i - 1))%nat with i by lia. reflexivity. }
  rewrite scale_rows_entry by (rewrite Erow, map_length; lia).
  unfold mat. rewrite Erow. rewrite (nth_map _ _ j 0 0%nat) by lia.
  unfold scale. rewrite Qabs_pos by lra.
  rewrite vdc_radical_inverse with (K := K); [reflexivity| |exact LK].
  rewrite Forall_forall in GE. apply GE. apply nth_In. lia.
Qed.

(* ------------------------------------------------------------------------------------------ *)
(* Halton: the bases are the first primes (by kernel computation, up to 300 parameters)         *)
(* ------------------------------------------------------------------------------------------ *)
Definition prime (p : nat) : Prop := (2 <= p)%nat /\ forall d, (2 <= d < p)%nat -> (p mod d)%nat <> 0%nat.
(* l is the list of the first n primes: n entries, increasing, all prime, no prime skipped *)
Definition first_primes (n : nat) (l : list nat) : Prop :=
  length l = n /\ StronglySorted lt l /\ (forall p, In p l -> prime p) /\
  (forall p q, In p l -> prime q -> (q < p)%nat -> In q l).

Definition primeb (p : nat) : bool :=
  (2 <=? p)%nat && forallb (fun d => negb (p mod d =? 0)%nat) (seq 2 (Nat.sqrt p - 1)).

Lemma primeb_spec p : primeb p = true <-> prime p.
Proof.
  unfold primeb, prime. rewrite andb_true_iff, forallb_forall, Nat.leb_le. split.
  - intros [L F]. split; [exact L|]. intros d Hd Z.
    pose proof (Nat.sqrt_spec p ltac:(lia)) as [S1 S2].
    assert (Ed : (p = d * (p / d))%nat) by (apply Nat.div_exact; lia).
    set (e := (p / d)%nat) in *. clearbody e.
    assert (He : (2 <= e)%nat) by nia.
    destruct (le_lt_dec d (Nat.sqrt p)) as [G|G].
    + specialize (F d ltac:(apply in_seq; lia)). rewrite Z in F. discriminate.
    + assert (Ge : (e <= Nat.sqrt p)%nat) by nia.
      specialize (F e ltac:(apply in_seq; lia)).
      assert (Ze : (p mod e = 0)%nat) by (rewrite Ed at 1; apply Nat.mod_mul; lia).
      rewrite Ze in F. discriminate.
  - intros [L F]. split; [exact L|]. intros d I. apply in_seq in I.
    pose proof (Nat.sqrt_lt_lin p ltac:(lia)).
    destruct (Nat.eqb_spec (p mod d) 0) as [Z|NZ]; [|reflexivity]. exfalso. apply (F d); [lia|exact Z].
Qed.

Fixpoint sortedb (l : list nat) : bool :=
  match l with
  | a :: (b :: _) as t => (a <? b)%nat && sortedb t
  | _ => true
  end.

Lemma sortedb_spec l : sortedb l = true -> StronglySorted lt l.
Proof.
  intros H. apply Sorted_StronglySorted; [intros x y z; apply Nat.lt_trans|].
  induction l as [|a t IH]; [constructor|]. destruct t as [|b t'].
  - constructor; constructor.
  - cbn [sortedb] in H. apply andb_true_iff in H. destruct H as [H1 H2]. apply Nat.ltb_lt in H1.
    constructor; [apply IH; exact H2|constructor; exact H1].
Qed.

Definition check_first_primes (n : nat) (l : list nat) : bool :=
  (length l =? n)%nat && sortedb l && forallb primeb l &&
  forallb (fun q => implb (primeb q) (existsb (Nat.eqb q) l)) (seq 0 (list_max l)).

Lemma check_first_primes_sound n l : check_first_primes n l = true -> first_primes n l.
Proof.
  unfold check_first_primes, first_primes. rewrite !andb_true_iff, !forallb_forall, Nat.eqb_eq.
  intros [[[A B] C] D]. split; [|split; [|split]].
  - exact A.
  - apply sortedb_spec. exact B.
  - intros p I. apply primeb_spec, C. exact I.
  - intros p q Ip Pq L.
    assert (Lp : (p <= list_max l)%nat).
    { pose proof (proj1 (list_max_le l (list_max l)) (le_n _)) as F. rewrite Forall_forall in F. exact (F p Ip). }
    specialize (D q ltac:(apply in_seq; lia)). apply primeb_spec in Pq. rewrite Pq in D. cbn in D.
    apply existsb_exists in D. destruct D as [x [Ix E]]. apply Nat.eqb_eq in E. subst x. exact Ix.
Qed.

Lemma In_firstn {A : Type} (x : A) m l : In x (firstn m l) -> In x l.
Proof. intros I. rewrite <- (firstn_skipn m l). apply in_or_app. left. exact I. Qed.

Lemma firstn_sorted m l : StronglySorted lt l -> StronglySorted lt (firstn m l).
Proof.
  intros SS. revert m. induction SS as [|a t SS IH F]; intros [|m]; cbn; try constructor.
  - apply IH.
  - rewrite Forall_forall in *. intros x I. apply F. exact (In_firstn _ _ _ I).
Qed.

Lemma firstn_closed m l p q : StronglySorted lt l -> In p (firstn m l) -> In q l -> (q < p)%nat -> In q (firstn m l).
Proof.
  intros SS. revert m. induction SS as [|a t SS IH F]; intros [|m]; cbn; try tauto.
  rewrite Forall_forall in F. intros [->|Ip] [->|Iq] L; try tauto.
  - specialize (F q Iq). lia.
  - right. apply IH; assumption.
Qed.

Lemma first_primes_prefix n l m : first_primes n l -> (m <= n)%nat -> first_primes m (firstn m l).
Proof.
  intros [A [B [C D]]] L. split; [|split; [|split]].
  - apply firstn_length_le. lia.
  - apply firstn_sorted. exact B.
  - intros p I. apply C. exact (In_firstn _ _ _ I).
  - intros p q Ip Pq Lq. apply (firstn_closed m l p q B Ip); [|exact Lq].
    exact (D p q (In_firstn _ _ _ Ip) Pq Lq).
Qed.

(* halton() tries the sieve limits 10, 1010, 2010, ...; the three sieves that serve up to 304 parameters,
   evaluated once *)
Definition P10 : list nat := Eval vm_compute in primes_from_2_to 10.
Definition P1010 : list nat := Eval vm_compute in primes_from_2_to 1010.
Definition P2010 : list nat := Eval vm_compute in primes_from_2_to 2010.

Lemma P10_eq : primes_from_2_to 10 = P10.
Proof. vm_cast_no_check (eq_refl P10). Qed.
Lemma P1010_eq : primes_from_2_to 1010 = P1010.
Proof. vm_cast_no_check (eq_refl P1010). Qed.
Lemma P2010_eq : primes_from_2_to 2010 = P2010.
Proof. vm_cast_no_check (eq_refl P2010). Qed.

Lemma P10_prefix : P10 = firstn 4 P2010.
Proof. vm_cast_no_check (eq_refl P10). Qed.
Lemma P1010_prefix : P1010 = firstn 169 P2010.
Proof. vm_cast_no_check (eq_refl P1010). Qed.
Lemma P10_length : length P10 = 4%nat.
Proof. reflexivity. Qed.
Lemma P1010_length : length P1010 = 169%nat.
Proof. vm_cast_no_check (eq_refl 169%nat). Qed.
Lemma P2010_length : length P2010 = 304%nat.
Proof. vm_cast_no_check (eq_refl 304%nat). Qed.

Lemma P2010_first_primes : first_primes 304 P2010.
Proof. apply check_first_primes_sound. vm_cast_no_check (eq_refl true). Qed.

Lemma halton_base_loop_step fuel big dim :
  halton_base_loop (S fuel) big dim =
    if (length (firstn dim (primes_from_2_to big)) =? dim)%nat then Some (firstn dim (primes_from_2_to big))
    else halton_base_loop fuel (big + 1000) dim.
Proof. reflexivity. Qed.

(* the enlargement loop of halton(): which sieve serves which parameter count *)
Lemma halton_base_eq n : (n <= 304)%nat -> halton_base n = Some (firstn n P2010).
Proof.
  intros L. unfold halton_base. rewrite halton_base_loop_step, P10_eq, firstn_length, P10_length.
  destruct (Nat.eqb_spec (Nat.min n 4) n) as [E|NE].
  - rewrite P10_prefix, firstn_firstn. replace (Nat.min n 4) with n by lia. reflexivity.
  - replace n with (S (S (n - 2))) at 1 by lia.
    change (10 + 1000)%nat with 1010%nat.
    rewrite halton_base_loop_step, P1010_eq, firstn_length, P1010_length.
    destruct (Nat.eqb_spec (Nat.min n 169) n) as [E|NE2].
    + rewrite P1010_prefix, firstn_firstn. replace (Nat.min n 169) with n by lia. reflexivity.
    + change (1010 + 1000)%nat with 2010%nat.
      rewrite halton_base_loop_step, P2010_eq, firstn_length, P2010_length.
      destruct (Nat.eqb_spec (Nat.min n 304) n) as [E|NE3]; [reflexivity|lia].
Qed.

(* the sieve and the enlargement loop of halton() deliver the first n primes, n <= 300 *)
Theorem primes_correct : forall n, (n <= 300)%nat ->
  exists base, halton_base n = Some base /\ first_primes n base.
Proof.
  intros n L. exists (firstn n P2010). split.
  - apply halton_base_eq. lia.
  - exact (first_primes_prefix _ _ n P2010_first_primes ltac:(lia)).
Qed.

(* phi_b(i): the radical inverse of i in base b (i has at most i base-b digits) *)
Definition phi (b i : nat) : Q := radical_inverse b i i.

Lemma phi_stable b i K : (2 <= b)%nat -> (i < b ^ K)%nat -> radical_inverse b i K == phi b i.
Proof.
  intros Hb L. unfold phi.
  rewrite <- (vdc_radical_inverse b i K Hb L).
  apply vdc_radical_inverse; [exact Hb|]. apply Nat.pow_gt_lin_r. lia.
Qed.

(* Halton, assembled: for up to 300 parameters the generator succeeds, its bases are the first primes, and
   point i (counted from 1: the all-zero burn-in point is dropped), coordinate j is lb_j + phi_{p_j}(i) (ub_j - lb_j) *)
Theorem halton_points : forall N bs, (length bs <= 300)%nat ->
  exists base X, first_primes (length bs) base /\ build_halton N bs = Some X /\
    length X = N /\ rect (length bs) X /\
    forall i j, (1 <= i <= N)%nat -> (j < length bs)%nat -> blo bs j <= bhi bs j ->
      mat X (i - 1) j == blo bs j + phi (nth j base 0%nat) i * (bhi bs j - blo bs j).
Proof.
  intros N bs L. destruct (primes_correct (length bs) L) as [base [HB FP]].
  assert (HX : build_halton N bs = Some (scale_rows bs (halton_unit N base))) by (unfold build_halton; rewrite HB; reflexivity).
  exists base, (scale_rows bs (halton_unit N base)). split; [exact FP|]. split; [exact HX|].
  destruct (halton_radical_inverse N bs base _ HB HX) as [A [B C]]. split; [exact A|]. split; [exact B|].
  intros i j Li Lj Hb.
  destruct FP as [F1 [_ [F3 _]]].
  assert (P2 : (2 <= nth j base 0)%nat) by (apply (F3 (nth j base 0%nat)); apply nth_In; lia).
  rewrite (C i j i Li Lj Hb) by (apply Nat.pow_gt_lin_r; lia). reflexivity.
Qed.

(* ------------------------------------------------------------------------------------------ *)
(* Random generator                                                                             *)
(* ------------------------------------------------------------------------------------------ *)
Lemma round_half_even_close q : - (1 # 2) <= inject_Z (round_half_even q) - q <= 1 # 2.
Proof.
  unfold round_half_even.
  pose proof (Qfloor_le q) as F1. pose proof (Qlt_floor q) as F2.
  rewrite inject_Z_plus in F2. change (inject_Z 1) with 1 in F2.
  destruct (Qcompare_spec (q - inject_Z (Qfloor q)) (1 # 2)) as [E|L|G].
  - destruct (Z.even (Qfloor q)).
    + split; lra.
    + rewrite inject_Z_plus. change (inject_Z 1) with 1. split; lra.
  - split; lra.
  - rewrite inject_Z_plus. change (inject_Z 1) with 1. split; lra.
Qed.

Lemma eff_precision_pos prec : 0 <= prec -> 0 < eff_precision prec.
Proof.
  intros H. unfold eff_precision. destruct (Qeq_bool prec 0) eqn:E.
  - reflexivity.
  - apply Qeq_bool_neq in E. lra.
Qed.

Lemma gen_number_close lo hi prec u : 0 <= prec ->
  let p := eff_precision prec in
  - (p / 2) <= gen_number lo hi prec u - (u * (hi - lo) + lo) <= p / 2.
Proof.
  intros Hp p. unfold gen_number. fold p.
  pose proof (eff_precision_pos prec Hp) as Pp. fold p in Pp.
  set (x := u * (hi - lo) + lo).
  pose proof (round_half_even_close (x / p)) as [R1 R2].
  set (k := inject_Z (round_half_even (x / p))) in *.
  assert (E : k * p - x == (k - x / p) * p) by (field; lra).
  assert (H2 : p / 2 == (1 # 2) * p) by field.
  rewrite E, H2. split.
  - apply Qle_trans with ((- (1 # 2)) * p); [lra|]. apply Qmult_le_compat_r; lra.
  - apply Qle_trans with ((1 # 2) * p); [|lra]. apply Qmult_le_compat_r; lra.
Qed.

Definition ok_param (p : Q * Q * Q) : Prop := fst (fst p) <= snd (fst p) /\ 0 <= snd p.
(* within the box up to half a unit of the (effective) precision *)
Definition in_box_p (p : Q * Q * Q) (x : Q) : Prop :=
  fst (fst p) - eff_precision (snd p) / 2 <= x <= snd (fst p) + eff_precision (snd p) / 2.

Lemma gen_number_in_box lo hi prec u : lo <= hi -> 0 <= prec -> in_unit u -> in_box_p (lo, hi, prec) (gen_number lo hi prec u).
Proof.
  intros Hb Hp [U0 U1]. unfold in_box_p. cbn [fst snd].
  pose proof (gen_number_close lo hi prec u Hp) as [C1 C2]. cbv zeta in C1, C2.
  assert (0 <= u * (hi - lo)) by (apply Qmult_le_0_compat; lra).
  assert (0 <= (1 - u) * (hi - lo)) by (apply Qmult_le_0_compat; lra).
  split; lra.
Qed.

Lemma gen_vector_spec ps : forall tape v rest, Forall ok_param ps -> Forall in_unit tape ->
  gen_vector ps tape = Some (v, rest) ->
  Forall2 in_box_p ps v /\ Forall in_unit rest /\ length tape = (length ps + length rest)%nat.
Proof.
  induction ps as [|[[lo hi] prec] ps IH]; intros tape v rest Hok Hu H; cbn in H.
  - inversion H; subst. repeat split; [constructor|assumption].
  - destruct tape as [|u tape]; [discriminate|].
    destruct (gen_vector ps tape) as [[v' rest']|] eqn:E; [|discriminate].
    inversion H; subst. inversion Hok as [|? ? [Hb Hp] Hok']; subst. inversion Hu as [|? ? Hu0 Hu']; subst.
    destruct (IH tape v' rest Hok' Hu' E) as [A [B C]]. cbn [fst snd] in Hb, Hp. repeat split.
    + constructor; [apply gen_number_in_box; assumption|exact A].
    + exact B.
    + cbn. rewrite C. reflexivity.
Qed.

Lemma random_loop_spec N ps : forall tape vs rest, Forall ok_param ps -> Forall in_unit tape ->
  random_generate_loop N ps tape = Some (vs, rest) ->
  length vs = N /\ Forall (Forall2 in_box_p ps) vs /\ length tape = (N * length ps + length rest)%nat.
Proof.
  induction N as [|N IH]; intros tape vs rest Hok Hu H; cbn in H.
  - inversion H; subst. repeat split. constructor.
  - destruct (gen_vector ps tape) as [[v r1]|] eqn:E1; [|discriminate].
    destruct (random_generate_loop N ps r1) as [[vs' r2]|] eqn:E2; [|discriminate].
    inversion H; subst.
    destruct (gen_vector_spec ps tape v r1 Hok Hu E1) as [A [B C]].
    destruct (IH r1 vs' rest Hok B E2) as [D [F G]]. repeat split.
    + cbn. rewrite D. reflexivity.
    + constructor; assumption.
    + lia.
Qed.

Theorem random_count_in_box : forall N ps tape vs, Forall ok_param ps -> Forall in_unit tape ->
  random_generate N ps tape = Some vs ->
  length vs = N /\ Forall (Forall2 in_box_p ps) vs /\ length tape = (N * length ps)%nat.
Proof.
  intros N ps tape vs Hok Hu H. unfold random_generate in H.
  destruct (random_generate_loop N ps tape) as [[vs' rest]|] eqn:E; [|discriminate].
  destruct rest; [|discriminate]. inversion H; subst.
  destruct (random_loop_spec N ps tape vs [] Hok Hu E) as [A [B C]]. cbn in C. repeat split; try assumption. lia.
Qed.

Lemma gen_vector_total ps : forall tape, (length ps <= length tape)%nat ->
  exists v, gen_vector ps tape = Some (v, skipn (length ps) tape).
Proof.
  induction ps as [|[[lo hi] prec] ps IH]; intros tape L; cbn.
  - eexists. reflexivity.
  - destruct tape as [|u tape]; [cbn in L; lia|]. cbn in L.
    destruct (IH tape ltac:(lia)) as [v E]. rewrite E. eexists. reflexivity.
Qed.

Lemma skipn_add {A : Type} b : forall a (l : list A), skipn a (skipn b l) = skipn (b + a) l.
Proof.
  induction b as [|b IH]; intros a l; [reflexivity|].
  destruct l as [|x l]; cbn [skipn plus]; [destruct a; reflexivity|apply IH].
Qed.

Lemma random_loop_total N ps : forall tape, (N * length ps <= length tape)%nat ->
  exists vs, random_generate_loop N ps tape = Some (vs, skipn (N * length ps) tape).
Proof.
  induction N as [|N IH]; intros tape L; cbn [random_generate_loop].
  - eexists. reflexivity.
  - destruct (gen_vector_total ps tape ltac:(lia)) as [v E]. rewrite E.
    destruct (IH (skipn (length ps) tape)) as [vs E2]; [rewrite skipn_length; lia|].
    rewrite E2. eexists. rewrite skipn_add. reflexivity.
Qed.

(* the generator consumes exactly one draw per coordinate: with N * n draws on the tape it succeeds *)
Theorem random_total : forall N ps tape, length tape = (N * length ps)%nat ->
  exists vs, random_generate N ps tape = Some vs.
Proof.
  intros N ps tape L. destruct (random_loop_total N ps tape ltac:(lia)) as [vs E].
  unfold random_generate. rewrite E. rewrite skipn_all2 by lia. eexists. reflexivity.
Qed.

(* ------------------------------------------------------------------------------------------ *)
(* One coordinate per declared parameter, for all four                                          *)
(* ------------------------------------------------------------------------------------------ *)
Lemma Forall2_same_length {A B : Type} (R : A -> B -> Prop) l l' : Forall2 R l l' -> length l = length l'.
Proof. induction 1; cbn; congruence. Qed.

Lemma random_dimension N ps tape vs : Forall ok_param ps -> Forall in_unit tape ->
  random_generate N ps tape = Some vs -> rect (length ps) vs.
Proof.
  intros Hok Hu H. destruct (random_count_in_box N ps tape vs Hok Hu H) as [_ [F _]].
  unfold rect. rewrite Forall_forall in *. intros v I. symmetry. exact (Forall2_same_length _ _ _ (F v I)).
Qed.

Lemma halton_dimension N bs X : build_halton N bs = Some X -> rect (length bs) X.
Proof.
  intros HX. unfold build_halton in HX. destruct (halton_base (length bs)) as [base|] eqn:HB; [|discriminate].
  assert (HX' : build_halton N bs = Some X) by (unfold build_halton; rewrite HB; exact HX).
  exact (proj1 (proj2 (halton_radical_inverse N bs base X HB HX'))).
Qed.

Theorem dimension_ok :
  (forall N bs u perms, length (build_lhs N bs u perms) = N /\ rect (length bs) (build_lhs N bs u perms)) /\
  (forall N bs X, build_halton N bs = Some X -> rect (length bs) X) /\
  (forall k bs, rect (length bs) (uniform_grid k bs)) /\
  (forall N ps tape vs, Forall ok_param ps -> Forall in_unit tape ->
     random_generate N ps tape = Some vs -> rect (length ps) vs).
Proof.
  split; [intros; split; [apply lhs_length|apply lhs_dimension]|]. split; [exact halton_dimension|]. split; [exact grid_dimension|exact random_dimension].
Qed.

(* ------------------------------------------------------------------------------------------ *)
(* Halton: the closed form of selected rows (what the correspondence evaluates for large N)     *)
(* ------------------------------------------------------------------------------------------ *)
Lemma halton_row_nth N bs base i : (1 <= i <= N)%nat ->
  nth (i - 1) (scale_rows bs (halton_unit N base)) [] = halton_row_at bs base i.
Proof.
  intros L. rewrite halton_unit_rows. unfold scale_rows. rewrite map_map.
  rewrite (nth_map_seq _ 1 N (i - 1) []) by lia. replace (1 + (i - 1))%nat with i by lia. reflexivity.
Qed.

Lemma point_in_range_spec N i : point_in_range N i = true <-> (1 <= i <= N)%nat.
Proof. unfold point_in_range. rewrite andb_true_iff, !Nat.leb_le. reflexivity. Qed.

(* the rows `build_halton_at N bs idxs` returns are exactly rows idxs[0]-1, idxs[1]-1, ... of `build_halton N bs`
   (the object C12_halton_radical_inverse speaks about), and it returns iff build_halton does and every
   listed point number is in 1..N *)
Theorem halton_selected_rows : forall N bs idxs,
  (forall rows, build_halton N bs = Some rows -> Forall (fun i => (1 <= i <= N)%nat) idxs ->
     build_halton_at N bs idxs = Some (map (fun i => nth (i - 1) rows []) idxs)) /\
  (forall sel, build_halton_at N bs idxs = Some sel ->
     exists rows, build_halton N bs = Some rows /\ Forall (fun i => (1 <= i <= N)%nat) idxs /\
                  sel = map (fun i => nth (i - 1) rows []) idxs).
Proof.
  intros N bs idxs. unfold build_halton, build_halton_at.
  destruct (halton_base (length bs)) as [base|]; [|split; [intros rows H; discriminate|intros sel H; discriminate]].
  assert (E : Forall (fun i => (1 <= i <= N)%nat) idxs ->
              map (halton_row_at bs base) idxs = map (fun i => nth (i - 1) (scale_rows bs (halton_unit N base)) []) idxs).
  { intros F. apply map_ext_in. intros i I. rewrite Forall_forall in F. symmetry. apply halton_row_nth. exact (F i I). }
  split.
  - intros rows H F. inversion H; subst rows; clear H.
    assert (B : forallb (point_in_range N) idxs = true).
    { apply forallb_forall. intros i I. apply point_in_range_spec. rewrite Forall_forall in F. exact (F i I). }
    rewrite B, (E F). reflexivity.
  - intros sel H. destruct (forallb (point_in_range N) idxs) eqn:B; [|discriminate].
    assert (F : Forall (fun i => (1 <= i <= N)%nat) idxs).
    { apply Forall_forall. intros i I. apply point_in_range_spec. rewrite forallb_forall in B. exact (B i I). }
    exists (scale_rows bs (halton_unit N base)). split; [reflexivity|]. split; [exact F|].
    inversion H; subst sel. exact (E F).
Qed.
