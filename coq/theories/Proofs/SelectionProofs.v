(* Proofs about Model/Selection.v (C03): truncation, tournament, crowding distance. *)
From Coq Require Import List ZArith Bool Arith Lia Permutation Sorted.
From Artap Require Import Base.Ord Base.StableSort Model.Dominance Proofs.DominanceProofs Model.Selection.
Import ListNotations.

(* ------------------------------------------------------------------ list helpers *)
Section ListHelpers.
  Context {X : Type}.

  Lemma in_firstn_in (l : list X) : forall n y, In y (firstn n l) -> In y l.
  Proof.
    induction l as [|a l IH]; intros [|n] y Hy; cbn in *; try contradiction.
    destruct Hy as [Hy|Hy]; [left; exact Hy|right; eapply IH; eauto].
  Qed.

  Lemma NoDup_firstn (l : list X) : forall n, NoDup l -> NoDup (firstn n l).
  Proof.
    induction l as [|a l IH]; intros [|n] HN; cbn; try constructor.
    - inversion HN; subst. intro Hin. apply in_firstn_in in Hin. contradiction.
    - inversion HN; subst. apply IH. assumption.
  Qed.

  Lemma not_in_firstn_in_skipn (l : list X) n y : In y l -> ~ In y (firstn n l) -> In y (skipn n l).
  Proof.
    intros Hin Hn. rewrite <- (firstn_skipn n l) in Hin. apply in_app_or in Hin. tauto.
  Qed.

  Section FOP.
    Context (R : X -> X -> Prop).

    Lemma FOP_perm (Rsym : forall x y, R x y -> R y x) l l' :
      Permutation l l' -> ForallOrdPairs R l -> ForallOrdPairs R l'.
    Proof.
      induction 1 as [|x l l' HP IH|x y l|l l' l'' HP1 IH1 HP2 IH2]; intros HF.
      - exact HF.
      - inversion HF as [|? ? Hf Hp]; subst. constructor; [|apply IH; exact Hp].
        rewrite Forall_forall in *. intros z Hz. apply Hf. eapply Permutation_in; [symmetry; exact HP|exact Hz].
      - inversion HF as [|? ? Hf Hp]; subst. inversion Hp as [|? ? Hf' Hp']; subst.
        inversion Hf as [|? ? Hyx Hfy]; subst.
        constructor; [constructor; [apply Rsym; exact Hyx|exact Hf']|].
        constructor; [exact Hfy|exact Hp'].
      - auto.
    Qed.

    Lemma FOP_impl_in (R' : X -> X -> Prop) l :
      (forall x y, In x l -> In y l -> R x y -> R' x y) -> ForallOrdPairs R l -> ForallOrdPairs R' l.
    Proof.
      intros HI HF. induction HF as [|a l Hf Hp IH]; constructor.
      - rewrite Forall_forall in *. intros y Hy. apply HI; [left; reflexivity|right; exact Hy|apply Hf; exact Hy].
      - apply IH. intros x y Hx Hy. apply HI; right; assumption.
    Qed.

    Lemma FOP_firstn l : forall n, ForallOrdPairs R l -> ForallOrdPairs R (firstn n l).
    Proof.
      induction l as [|a l IH]; intros [|n] HF; cbn; try constructor.
      - inversion HF as [|? ? Hf Hp]; subst. rewrite Forall_forall in *. intros z Hz. apply Hf.
        eapply in_firstn_in; exact Hz.
      - inversion HF; subst. apply IH. assumption.
    Qed.

    Lemma FOP_snoc l x : ForallOrdPairs R l -> Forall (fun e => R e x) l -> ForallOrdPairs R (l ++ [x]).
    Proof.
      induction l as [|a l IH]; intros HF Hx; cbn.
      - constructor; constructor.
      - inversion HF as [|? ? Hf Hp]; subst. inversion Hx as [|? ? Hax Hlx]; subst.
        constructor; [|apply IH; assumption].
        apply Forall_app. split; [exact Hf|constructor; [exact Hax|constructor]].
    Qed.

    Lemma FOP_app_inv l1 l2 : ForallOrdPairs R (l1 ++ l2) ->
      ForallOrdPairs R l1 /\ forall a b, In a l1 -> In b l2 -> R a b.
    Proof.
      induction l1 as [|x l1 IH]; cbn; intros HF.
      - split; [constructor|intros a b []].
      - inversion HF as [|? ? Hf Hp]; subst. destruct (IH Hp) as [H1 H2].
        apply Forall_app in Hf as [Hf1 Hf2]. split; [constructor; assumption|].
        intros a b [<-|Ha] Hb; [|apply H2; assumption].
        rewrite Forall_forall in Hf2. apply Hf2. exact Hb.
    Qed.
  End FOP.

  Lemma sorted_nth (R : X -> X -> Prop) (dflt : X) l : StronglySorted R l ->
    forall i j, i < j -> j < length l -> R (nth i l dflt) (nth j l dflt).
  Proof.
    induction 1 as [|a l HS IH Hf]; intros i j Hij Hj; cbn in Hj; [lia|].
    destruct j as [|j]; [lia|]. destruct i as [|i]; cbn.
    - rewrite Forall_forall in Hf. apply Hf. apply nth_In. lia.
    - apply IH; lia.
  Qed.

  Lemma StronglySorted_map {Y : Type} (g : X -> Y) (R : Y -> Y -> Prop) l :
    StronglySorted (fun a b => R (g a) (g b)) l -> StronglySorted R (map g l).
  Proof.
    induction 1 as [|a l HS IH Hf]; cbn; constructor; [exact IH|].
    rewrite Forall_forall in *. intros y Hy. apply in_map_iff in Hy as [z [<- Hz]]. apply Hf. exact Hz.
  Qed.

  (* combine (seq a n) l : position-tagged list *)
  Lemma in_combine_seq (l : list X) : forall a i y,
    In (i, y) (combine (seq a (length l)) l) -> a <= i /\ nth_error l (i - a) = Some y.
  Proof.
    induction l as [|x l IH]; intros a i y Hin; cbn in Hin; [contradiction|].
    destruct Hin as [E|Hin].
    - inversion E; subst. split; [lia|]. rewrite Nat.sub_diag. reflexivity.
    - apply IH in Hin as [Hle Hn]. split; [lia|].
      replace (i - a) with (S (i - S a)) by lia. exact Hn.
  Qed.

  Lemma combine_seq_in (l : list X) : forall a i y,
    nth_error l i = Some y -> In (a + i, y) (combine (seq a (length l)) l).
  Proof.
    induction l as [|x l IH]; intros a i y Hn; [destruct i; discriminate|].
    destruct i as [|i]; cbn in Hn.
    - inversion Hn; subst. rewrite Nat.add_0_r. left. reflexivity.
    - right. replace (a + S i) with (S a + i) by lia. apply IH. exact Hn.
  Qed.
End ListHelpers.

(* ------------------------------------------------------------------ truncation *)
Section TruncProofs.
  Context {T : Type} (ltb : T -> T -> bool) (H : SWO ltb).
  Context {A : Type} (iid : A -> nat) (front : A -> nat) (cdist : A -> Ext T) (deq : A -> A -> bool).
  Local Notation ext_ltb := (ext_ltb ltb).
  Local Notation nd_lt := (nd_lt ltb front cdist).
  Local Notation nd_leb := (nd_leb ltb front cdist).
  Local Notation set_add := (set_add deq).
  Local Notation dedupe := (dedupe deq).
  Local Notation arrange := (arrange iid).
  Local Notation truncate := (truncate ltb iid front cdist deq).

  Lemma ext_ltb_SWO : SWO ext_ltb.
  Proof.
    constructor.
    - intros [x|]; cbn; [apply (lt_irrefl _ H)|reflexivity].
    - intros [x|] [y|] [z|]; cbn; try congruence. apply (lt_trans _ H).
    - intros [x|] [y|] [z|]; cbn; try congruence. apply (lt_negtrans _ H).
  Qed.

  Lemma nd_lt_SWO : SWO nd_lt.
  Proof.
    pose proof ext_ltb_SWO as E.
    constructor.
    - intros x. unfold Selection.nd_lt. rewrite Nat.eqb_refl. apply (lt_irrefl _ E).
    - intros x y z. unfold Selection.nd_lt.
      destruct (Nat.eqb_spec (front x) (front y)), (Nat.eqb_spec (front y) (front z)),
               (Nat.eqb_spec (front x) (front z)); rewrite ?Nat.ltb_lt; try lia; try congruence.
      intros A1 A2. eapply (lt_trans _ E); eauto.
    - intros x y z. unfold Selection.nd_lt.
      destruct (Nat.eqb_spec (front x) (front y)), (Nat.eqb_spec (front y) (front z)),
               (Nat.eqb_spec (front x) (front z)); rewrite ?Nat.ltb_ge; try lia; try congruence.
      intros A1 A2. eapply (lt_negtrans _ E); eauto.
  Qed.

  Lemma nd_leb_total x y : nd_leb x y = true \/ nd_leb y x = true.
  Proof. exact (Ord.leb_total nd_lt nd_lt_SWO x y). Qed.
  Lemma nd_leb_trans x y z : nd_leb x y = true -> nd_leb y z = true -> nd_leb x z = true.
  Proof. exact (Ord.leb_trans nd_lt nd_lt_SWO x y z). Qed.

  (* what "s is not after d" means: rank first, then crowding *)
  Lemma nd_leb_spec s d : nd_leb s d = true ->
    front s <= front d /\ (front s = front d -> ext_ltb (cdist s) (cdist d) = false).
  Proof.
    unfold Selection.nd_leb, Selection.nd_lt. rewrite negb_true_iff.
    destruct (Nat.eqb_spec (front d) (front s)) as [E|E].
    - intros Hc. split; [lia|]. intros _. exact Hc.
    - rewrite Nat.ltb_ge. intros Hc. split; [lia|]. intros E'. congruence.
  Qed.

  (* ---- set() de-duplication *)
  Definition distinct_pairs (l : list A) : Prop := ForallOrdPairs (fun e x => deq e x = false) l.

  Lemma dedupe_fold_nodup_ids : forall l acc,
    NoDup (map iid (acc ++ l)) -> NoDup (map iid (fold_left set_add l acc)).
  Proof.
    induction l as [|x l IH]; intros acc HN; cbn.
    - rewrite app_nil_r in HN. exact HN.
    - apply IH. unfold Selection.set_add. destruct (existsb (fun e => deq e x) acc).
      + rewrite map_app in *. cbn in HN. apply NoDup_remove_1 in HN. exact HN.
      + rewrite <- app_assoc. exact HN.
  Qed.

  Lemma dedupe_fold_incl : forall l acc, incl (fold_left set_add l acc) (acc ++ l).
  Proof.
    induction l as [|x l IH]; intros acc; cbn.
    - rewrite app_nil_r. apply incl_refl.
    - intros y Hy. apply IH in Hy. unfold Selection.set_add in Hy.
      destruct (existsb (fun e => deq e x) acc).
      + apply in_app_or in Hy as [Hy|Hy]; apply in_or_app; [left|right; right]; assumption.
      + rewrite <- app_assoc in Hy. exact Hy.
  Qed.

  Lemma dedupe_fold_keeps : forall l acc, incl acc (fold_left set_add l acc).
  Proof.
    induction l as [|x l IH]; intros acc; cbn; [apply incl_refl|].
    intros y Hy. apply IH. unfold Selection.set_add.
    destruct (existsb (fun e => deq e x) acc); [exact Hy|apply in_or_app; left; exact Hy].
  Qed.

  Lemma dedupe_fold_distinct : forall l acc, distinct_pairs acc -> distinct_pairs (fold_left set_add l acc).
  Proof.
    induction l as [|x l IH]; intros acc HF; cbn; [exact HF|].
    apply IH. unfold Selection.set_add. destruct (existsb (fun e => deq e x) acc) eqn:E; [exact HF|].
    apply FOP_snoc; [exact HF|]. apply Forall_forall. intros e He.
    destruct (deq e x) eqn:D; [|reflexivity].
    assert (existsb (fun e => deq e x) acc = true) by (apply existsb_exists; eauto). congruence.
  Qed.

  Lemma dedupe_fold_covers : (forall x, deq x x = true) -> forall l acc x, In x l ->
    exists e, In e (fold_left set_add l acc) /\ deq e x = true.
  Proof.
    intros Hrefl. induction l as [|y l IH]; intros acc x Hin; [contradiction|]. cbn.
    destruct Hin as [<-|Hin]; [|apply IH; exact Hin].
    unfold Selection.set_add. destruct (existsb (fun e => deq e y) acc) eqn:E.
    - apply existsb_exists in E as [e [He Hd]]. exists e. split; [|exact Hd].
      apply dedupe_fold_keeps. exact He.
    - exists y. split; [|apply Hrefl]. apply dedupe_fold_keeps. apply in_or_app. right. left. reflexivity.
  Qed.

  Lemma dedupe_fold_id : forall l acc, distinct_pairs (acc ++ l) -> fold_left set_add l acc = acc ++ l.
  Proof.
    induction l as [|x l IH]; intros acc HF; cbn; [rewrite app_nil_r; reflexivity|].
    assert (E : existsb (fun e => deq e x) acc = false).
    { destruct (existsb (fun e => deq e x) acc) eqn:E; [|reflexivity].
      apply existsb_exists in E as [e [He Hd]].
      apply FOP_app_inv in HF as [_ HF]. rewrite (HF e x He (or_introl eq_refl)) in Hd. discriminate. }
    unfold Selection.set_add. rewrite E. rewrite IH; rewrite <- app_assoc; [reflexivity|exact HF].
  Qed.

  (* set(population) keeps members of the population, pairwise different (no entry equals a later
     one), and every member of the population is represented by an equal entry *)
  Theorem dedupe_exact l :
    incl (dedupe l) l /\ distinct_pairs (dedupe l) /\
    ((forall x, deq x x = true) -> forall x, In x l -> exists e, In e (dedupe l) /\ deq e x = true) /\
    (distinct_pairs l -> dedupe l = l).
  Proof.
    unfold Selection.dedupe. repeat split.
    - apply (dedupe_fold_incl l []).
    - apply dedupe_fold_distinct. constructor.
    - intros Hr x Hx. apply dedupe_fold_covers; assumption.
    - intros HF. apply (dedupe_fold_id l []). exact HF.
  Qed.

  Lemma dedupe_nodup_ids l : NoDup (map iid l) -> NoDup (map iid (dedupe l)).
  Proof. intros HN. apply dedupe_fold_nodup_ids. exact HN. Qed.

  (* ---- the permutation oracle *)
  Lemma nodupb_spec l : nodupb l = true -> NoDup l.
  Proof.
    induction l as [|i l IH]; cbn; [constructor|].
    rewrite andb_true_iff, negb_true_iff. intros [E Hn]. constructor; [|apply IH; exact Hn].
    intro Hin. assert (existsb (Nat.eqb i) l = true); [|congruence].
    apply existsb_exists. exists i. split; [exact Hin|apply Nat.eqb_refl].
  Qed.
  Lemma nodupb_complete l : NoDup l -> nodupb l = true.
  Proof.
    induction 1 as [|i l Hn HN IH]; cbn; [reflexivity|]. rewrite IH, andb_true_r, negb_true_iff.
    destruct (existsb (Nat.eqb i) l) eqn:E; [|reflexivity].
    apply existsb_exists in E as [j [Hj Hij]]. apply Nat.eqb_eq in Hij. subst. contradiction.
  Qed.

  Lemma arrange_spec dd : forall order l, arrange dd order = Some l -> map iid l = order /\ incl l dd.
  Proof.
    induction order as [|i o IH]; intros l Ha; cbn in Ha.
    - inversion Ha; subst. split; [reflexivity|intros x []].
    - unfold Selection.find_id in Ha. destruct (find (fun x => iid x =? i) dd) as [x|] eqn:F; [|discriminate].
      destruct (arrange dd o) as [r|] eqn:R; [|discriminate]. inversion Ha; subst.
      apply find_some in F as [Hx Hi]. apply Nat.eqb_eq in Hi. destruct (IH r eq_refl) as [Hm Hin].
      split; [cbn; congruence|]. intros y [<-|Hy]; [exact Hx|apply Hin; exact Hy].
  Qed.

  Lemma arrange_total dd : forall order, incl order (map iid dd) -> arrange dd order <> None.
  Proof.
    induction order as [|i o IH]; intros Hin; cbn; [discriminate|].
    assert (Hi : In i (map iid dd)) by (apply Hin; left; reflexivity).
    apply in_map_iff in Hi as [x [Hx Hxd]].
    unfold Selection.find_id. destruct (find (fun x => iid x =? i) dd) eqn:F.
    - assert (IH' : arrange dd o <> None) by (apply IH; intros j Hj; apply Hin; right; exact Hj).
      destruct (arrange dd o) eqn:R; [discriminate|]. congruence.
    - exfalso. apply (find_none _ _ F) in Hxd. rewrite Hx, Nat.eqb_refl in Hxd. discriminate.
  Qed.

  Lemma arrange_perm dd order l : NoDup order -> length order = length dd ->
    arrange dd order = Some l -> Permutation l dd.
  Proof.
    intros HN HL Ha. apply arrange_spec in Ha as [Hm Hin].
    apply NoDup_Permutation_bis.
    - apply (NoDup_map_inv iid). rewrite Hm. exact HN.
    - rewrite <- HL, <- Hm, map_length. lia.
    - exact Hin.
  Qed.

  (* ---- the truncation theorem *)
  Definition NoDupDesign (l : list A) : Prop :=
    ForallOrdPairs (fun x y => deq x y = false /\ deq y x = false) l.

  Lemma truncate_inv pop order k res : truncate pop order k = Some res ->
    exists l, Permutation l (dedupe pop) /\ NoDup l /\ res = firstn k (ssort nd_leb l).
  Proof.
    unfold Selection.truncate. destruct (_ && _) eqn:C; [|discriminate].
    apply andb_true_iff in C as [CL CN]. apply Nat.eqb_eq in CL. apply nodupb_spec in CN.
    destruct (arrange (dedupe pop) order) as [l|] eqn:Ha; [|discriminate].
    intros E. inversion E; subst. exists l. split; [eapply arrange_perm; eauto|]. split; [|reflexivity].
    apply arrange_spec in Ha as [Hm _]. apply (NoDup_map_inv iid). rewrite Hm. exact CN.
  Qed.

  Theorem truncate_spec pop order k res :
    truncate pop order k = Some res ->
    length res = Nat.min k (length (dedupe pop)) /\
    incl res (dedupe pop) /\
    NoDup res /\
    ((forall x y, In x pop -> In y pop -> deq x y = deq y x) -> NoDupDesign res) /\
    (forall s d, In s res -> In d (dedupe pop) -> ~ In d res -> front s <= front d) /\
    (forall s d, In s res -> In d (dedupe pop) -> ~ In d res -> front s = front d ->
                 ext_ltb (cdist s) (cdist d) = false).
  Proof.
    intros Ht. destruct (truncate_inv _ _ _ _ Ht) as [l [HP [HNl ->]]].
    set (srt := ssort nd_leb l).
    assert (HPs : Permutation srt (dedupe pop)).
    { unfold srt. rewrite ssort_perm. exact HP. }
    assert (HS : StronglySorted (lebP nd_leb) srt).
    { apply ssort_sorted; [apply nd_leb_total|apply nd_leb_trans]. }
    assert (Hcmp : forall s d, In s (firstn k srt) -> In d (dedupe pop) -> ~ In d (firstn k srt) ->
                               nd_leb s d = true).
    { intros s d Hs Hd Hnd. eapply sorted_firstn_skipn; [exact HS|exact Hs|].
      apply not_in_firstn_in_skipn; [|exact Hnd]. eapply Permutation_in; [symmetry; exact HPs|exact Hd]. }
    repeat split.
    - rewrite firstn_length. rewrite (Permutation_length HPs). reflexivity.
    - intros x Hx. eapply Permutation_in; [exact HPs|]. eapply in_firstn_in; exact Hx.
    - apply NoDup_firstn. eapply Permutation_NoDup; [symmetry; apply ssort_perm|exact HNl].
    - intros Hsym. apply FOP_firstn.
      eapply FOP_perm; [|symmetry; exact HPs|].
      + intros x y [E1 E2]. split; assumption.
      + destruct (dedupe_exact pop) as [Hinc [HD _]].
        unfold distinct_pairs in HD. eapply FOP_impl_in; [|exact HD].
        intros x y Hx Hy Hxy. cbv beta in Hxy. split; [exact Hxy|].
        rewrite <- (Hsym x y (Hinc x Hx) (Hinc y Hy)). exact Hxy.
    - intros s d Hs Hd Hnd. apply (nd_leb_spec s d). apply Hcmp; assumption.
    - intros s d Hs Hd Hnd. apply (nd_leb_spec s d). apply Hcmp; assumption.
  Qed.

  Theorem truncate_total pop order k : NoDup (map iid pop) ->
    Permutation order (map iid (dedupe pop)) -> truncate pop order k <> None.
  Proof.
    intros HN HP. unfold Selection.truncate.
    assert (HL : length order = length (dedupe pop)).
    { rewrite (Permutation_length HP), map_length. reflexivity. }
    rewrite HL, Nat.eqb_refl. cbn.
    rewrite nodupb_complete.
    2:{ eapply Permutation_NoDup; [symmetry; exact HP|]. apply dedupe_nodup_ids. exact HN. }
    assert (Ha : arrange (dedupe pop) order <> None).
    { apply arrange_total. intros i Hi. eapply Permutation_in; [exact HP|exact Hi]. }
    destruct (arrange (dedupe pop) order); [discriminate|congruence].
  Qed.

  (* all designs distinct: nothing is removed by set(), the clauses speak about the population itself *)
  Theorem truncate_all_distinct pop order k res :
    distinct_pairs pop -> truncate pop order k = Some res ->
    length res = Nat.min k (length pop) /\ incl res pop /\
    (forall s d, In s res -> In d pop -> ~ In d res -> front s <= front d) /\
    (forall s d, In s res -> In d pop -> ~ In d res -> front s = front d ->
                 ext_ltb (cdist s) (cdist d) = false).
  Proof.
    intros HD Ht. destruct (dedupe_exact pop) as [_ [_ [_ Hid]]]. specialize (Hid HD).
    destruct (truncate_spec _ _ _ _ Ht) as [H1 [H2 [_ [_ [H5 H6]]]]]. rewrite Hid in *.
    repeat split; assumption.
  Qed.

  (* discarded DESIGNS (not only the representatives set() kept): if equal designs carry equal
     front numbers, no survivor has a worse front number than any member of the population none
     of whose equals survived *)
  Theorem truncate_discarded_design pop order k res :
    truncate pop order k = Some res ->
    (forall x, deq x x = true) ->
    (forall e x, In e pop -> In x pop -> deq e x = true -> front e = front x) ->
    forall s d, In s res -> In d pop -> (forall r, In r res -> deq r d = false) -> front s <= front d.
  Proof.
    intros Ht Hr Hf s d Hs Hd Hnone.
    destruct (dedupe_exact pop) as [Hinc [_ [Hcov _]]]. destruct (Hcov Hr d Hd) as [e [He Hed]].
    destruct (truncate_spec _ _ _ _ Ht) as [_ [_ [_ [_ [H5 _]]]]].
    rewrite <- (Hf e d (Hinc e He) Hd Hed). apply H5; [exact Hs|exact He|].
    intro Hin. rewrite (Hnone e Hin) in Hed. discriminate.
  Qed.

  (* front numbers satisfying the rank equation of non-dominated sorting (C02):
     front x = 1 + max { front y | y dominates x } *)
  Section Dominated.
    Context (cost : A -> list T * Z).
    Definition rank_equation (pop : list A) : Prop :=
      forall x, In x pop ->
        front x = S (list_max (map front (filter (fun y => pareto_compare ltb (cost y) (cost x) =? 1) pop))).

    Lemma rank_equation_lt pop x y : rank_equation pop -> In x pop -> In y pop ->
      pareto_compare ltb (cost y) (cost x) = 1 -> front y < front x.
    Proof.
      intros HR Hx Hy Hd. rewrite (HR x Hx).
      set (l := map front (filter (fun y => pareto_compare ltb (cost y) (cost x) =? 1) pop)).
      assert (HF : Forall (fun k => k <= list_max l) l) by (apply list_max_le; lia).
      rewrite Forall_forall in HF. assert (In (front y) l); [|specialize (HF _ H0); lia].
      unfold l. apply in_map. apply filter_In. split; [exact Hy|]. rewrite Hd. reflexivity.
    Qed.

    Theorem truncate_no_dominated_survivor pop order k res :
      truncate pop order k = Some res -> rank_equation pop ->
      (forall s d, In s res -> In d (dedupe pop) -> ~ In d res ->
                   pareto_compare ltb (cost d) (cost s) <> 1) /\
      ((forall x, deq x x = true) ->
       (forall e x, In e pop -> In x pop -> deq e x = true -> front e = front x) ->
       forall s d, In s res -> In d pop -> (forall r, In r res -> deq r d = false) ->
                   pareto_compare ltb (cost d) (cost s) <> 1).
    Proof.
      intros Ht HR. destruct (truncate_spec _ _ _ _ Ht) as [_ [Hincl [_ [_ [H5 _]]]]].
      destruct (dedupe_exact pop) as [Hdd _].
      split.
      - intros s d Hs Hd Hnd Hdom. specialize (H5 s d Hs Hd Hnd).
        assert (front d < front s); [|lia].
        apply (rank_equation_lt pop); auto.
      - intros Hr Hf s d Hs Hd Hnone Hdom.
        pose proof (truncate_discarded_design _ _ _ _ Ht Hr Hf s d Hs Hd Hnone).
        assert (front d < front s); [|lia].
        apply (rank_equation_lt pop); auto.
    Qed.
  End Dominated.
End TruncProofs.

(* ------------------------------------------------------------------ binary tournament *)
Section TournamentProofs.
  Context {T : Type} (ltb : T -> T -> bool) (H : SWO ltb).
  Context {A : Type} (front : A -> nat) (cost : A -> list T * Z).
  Local Notation tournament2 := (tournament2 ltb front cost).
  Local Notation tournament := (tournament ltb front cost).
  Local Notation pc := (pareto_compare ltb).

  (* w may be returned against l: not a worse front number and, at equal front number, not dominated *)
  Definition beats (w l : A) : Prop :=
    front w <= front l /\ (front w = front l -> pc (cost l) (cost w) <> 1).

  Lemma swap_one v : swap v = 1 -> v = 2.
  Proof. destruct v as [|[|[|v]]]; cbn; congruence. Qed.

  Theorem tournament2_spec pop smp coin w lo : tournament2 pop smp coin = Some (w, lo) ->
    In w pop /\
    match smp with
    | None => pop = [w] /\ lo = None
    | Some (i, j) => i <> j /\ exists c0 c1, nth_error pop i = Some c0 /\ nth_error pop j = Some c1 /\
                     ((w = c0 /\ lo = Some c1) \/ (w = c1 /\ lo = Some c0)) /\
                     forall l, lo = Some l -> beats w l
    end.
  Proof.
    unfold Selection.tournament2.
    assert (Single : forall x, match smp, coin with None, None => Some (x, @None A) | _, _ => None end = Some (w, lo) ->
                     In w [x] /\ match smp with None => [x] = [w] /\ lo = None | Some (i, j) => i <> j /\ exists c0 c1,
                       nth_error [x] i = Some c0 /\ nth_error [x] j = Some c1 /\
                       ((w = c0 /\ lo = Some c1) \/ (w = c1 /\ lo = Some c0)) /\ forall l, lo = Some l -> beats w l end).
    { intros x. destruct smp as [[i j]|]; [discriminate|]. destruct coin; [discriminate|].
      intros E. inversion E; subst. split; [left; reflexivity|split; reflexivity]. }
    assert (Gen : match smp with
      | Some (i, j) =>
        if i =? j then None else
        match nth_error pop i, nth_error pop j with
        | Some c0, Some c1 =>
          let nocoin (r : A * option A) := match coin with None => Some r | Some _ => None end in
          if front c0 <? front c1 then nocoin (c0, Some c1)
          else if front c1 <? front c0 then nocoin (c1, Some c0)
          else match pc (cost c0) (cost c1) with
               | 1 => nocoin (c0, Some c1)
               | 2 => nocoin (c1, Some c0)
               | _ => match coin with
                      | Some 0 => Some (c0, Some c1)
                      | Some 1 => Some (c1, Some c0)
                      | _ => None
                      end
               end
        | _, _ => None
        end
      | None => None
      end = Some (w, lo) ->
      In w pop /\ match smp with None => pop = [w] /\ lo = None | Some (i, j) => i <> j /\ exists c0 c1,
                       nth_error pop i = Some c0 /\ nth_error pop j = Some c1 /\
                       ((w = c0 /\ lo = Some c1) \/ (w = c1 /\ lo = Some c0)) /\ forall l, lo = Some l -> beats w l end).
    { destruct smp as [[i j]|]; [|discriminate].
      destruct (Nat.eqb_spec i j) as [|Hij]; [discriminate|].
      destruct (nth_error pop i) as [c0|] eqn:E0; [|discriminate].
      destruct (nth_error pop j) as [c1|] eqn:E1; [|discriminate].
      pose proof (nth_error_In _ _ E0) as In0. pose proof (nth_error_In _ _ E1) as In1.
      pose proof (pareto_antisym ltb H (cost c0) (cost c1)) as Anti.
      cbv zeta.
      destruct (Nat.ltb_spec (front c0) (front c1)) as [L01|L01].
      { destruct coin; [discriminate|]. intros E; inversion E; subst.
        split; [exact In0|]. split; [exact Hij|]. exists w, c1. repeat split; auto.
        - inversion H0; subst. lia.
        - inversion H0; subst. lia. }
      destruct (Nat.ltb_spec (front c1) (front c0)) as [L10|L10].
      { destruct coin; [discriminate|]. intros E; inversion E; subst.
        split; [exact In1|]. split; [exact Hij|]. exists c0, w. repeat split; auto.
        - inversion H0; subst. lia.
        - inversion H0; subst. lia. }
      destruct (pc (cost c0) (cost c1)) as [|[|[|v]]] eqn:V.
      - destruct coin as [[|[|b]]|]; try discriminate; intros E; inversion E; subst.
        + split; [exact In0|]. split; [exact Hij|]. exists w, c1. repeat split; auto.
          * inversion H0; subst. lia.
          * inversion H0; subst. rewrite Anti. cbn. discriminate.
        + split; [exact In1|]. split; [exact Hij|]. exists c0, w. repeat split; auto.
          * inversion H0; subst. lia.
          * inversion H0; subst. rewrite V. discriminate.
      - destruct coin; [discriminate|]. intros E; inversion E; subst.
        split; [exact In0|]. split; [exact Hij|]. exists w, c1. repeat split; auto.
        * inversion H0; subst. lia.
        * inversion H0; subst. rewrite Anti. cbn. discriminate.
      - destruct coin; [discriminate|]. intros E; inversion E; subst.
        split; [exact In1|]. split; [exact Hij|]. exists c0, w. repeat split; auto.
        * inversion H0; subst. lia.
        * inversion H0; subst. rewrite V. discriminate.
      - destruct coin as [[|[|b]]|]; try discriminate; intros E; inversion E; subst.
        + split; [exact In0|]. split; [exact Hij|]. exists w, c1. repeat split; auto.
          * inversion H0; subst. lia.
          * inversion H0; subst. rewrite Anti. cbn. discriminate.
        + split; [exact In1|]. split; [exact Hij|]. exists c0, w. repeat split; auto.
          * inversion H0; subst. lia.
          * inversion H0; subst. rewrite V. discriminate. }
    destruct pop as [|x [|y pop']]; [exact Gen|apply Single|exact Gen].
  Qed.

  (* the property clause: a member of the population; of the two candidates drawn, never the one
     with the worse front number nor, at equal front number, the dominated one *)
  Theorem tournament_spec pop smp coin w : tournament pop smp coin = Some w ->
    In w pop /\
    match smp with
    | None => pop = [w]
    | Some (i, j) => i <> j /\ exists c0 c1, nth_error pop i = Some c0 /\ nth_error pop j = Some c1 /\
                     ((w = c0 /\ beats c0 c1) \/ (w = c1 /\ beats c1 c0))
    end.
  Proof.
    unfold Selection.tournament. destruct (tournament2 pop smp coin) as [[w' lo]|] eqn:E; [|discriminate].
    cbn. intros E'. inversion E'; subst. apply tournament2_spec in E as [Hin Hs].
    split; [exact Hin|]. destruct smp as [[i j]|]; [|tauto].
    destruct Hs as [Hij [c0 [c1 [E0 [E1 [Hw Hb]]]]]]. split; [exact Hij|]. exists c0, c1.
    repeat split; auto. destruct Hw as [[-> Hl]|[-> Hl]]; [left|right]; (split; [reflexivity|apply Hb; exact Hl]).
  Qed.

  (* the model never gets stuck on a well-formed tape: exactly one of "no coin needed" / "any coin" *)
  Theorem tournament_total pop i j : i <> j -> i < length pop -> j < length pop ->
    (exists w, tournament pop (Some (i, j)) None = Some w) \/
    (forall b, b < 2 -> exists w, tournament pop (Some (i, j)) (Some b) = Some w).
  Proof.
    intros Hij Hi Hj. unfold Selection.tournament, Selection.tournament2.
    destruct pop as [|x [|y pop']]; [cbn in Hi; lia|cbn in Hi, Hj; lia|].
    set (pop := x :: y :: pop') in *.
    destruct (Nat.eqb_spec i j) as [|_]; [contradiction|].
    destruct (nth_error pop i) as [c0|] eqn:E0; [|apply nth_error_None in E0; lia].
    destruct (nth_error pop j) as [c1|] eqn:E1; [|apply nth_error_None in E1; lia].
    cbv zeta.
    destruct (front c0 <? front c1); [left; eexists; reflexivity|].
    destruct (front c1 <? front c0); [left; eexists; reflexivity|].
    destruct (pc (cost c0) (cost c1)) as [|[|[|v]]]; try (left; eexists; reflexivity);
      right; intros [|[|b]] Hb; try lia; eexists; reflexivity.
  Qed.

  Theorem tournament_single x : tournament [x] None None = Some x.
  Proof. reflexivity. Qed.
End TournamentProofs.

(* ------------------------------------------------------------------ more list helpers *)
Section ListHelpers2.
  Context {X : Type}.

  Lemma SS_impl (R R' : X -> X -> Prop) l : (forall a b, R a b -> R' a b) ->
    StronglySorted R l -> StronglySorted R' l.
  Proof.
    intros HI. induction 1 as [|a l HS IH Hf]; constructor; [exact IH|].
    eapply Forall_impl; [|exact Hf]. intros b. apply HI.
  Qed.

  Lemma FOP_map {Y : Type} (g : X -> Y) (R : Y -> Y -> Prop) l :
    ForallOrdPairs (fun a b => R (g a) (g b)) l -> ForallOrdPairs R (map g l).
  Proof.
    induction 1 as [|a l Hf Hp IH]; cbn; constructor; [|exact IH].
    rewrite Forall_forall in *. intros y Hy. apply in_map_iff in Hy as [z [<- Hz]]. apply Hf. exact Hz.
  Qed.

  Lemma seq_split d m : d < m -> seq 0 m = seq 0 d ++ d :: seq (S d) (m - S d).
  Proof.
    intros Hd. replace m with (d + S (m - S d)) at 1 by lia. rewrite seq_app. reflexivity.
  Qed.
End ListHelpers2.

(* ------------------------------------------------------------------ crowding distance *)
Section CrowdProofs.
  Context {T : Type} (ltb : T -> T -> bool) (H : SWO ltb) (add sub div : T -> T -> T) (zero : T).
  Context {A : Type} (costs : A -> list T).
  Local Notation obj := (obj zero costs).
  Local Notation okey := (okey zero costs).
  Local Notation key_leb := (key_leb ltb zero costs).
  Local Notation upd := (upd ltb add sub div zero).
  Local Notation cstep := (cstep ltb add sub div zero costs).
  Local Notation crowding := (crowding ltb add sub div zero costs).
  Local Notation nobj := (nobj costs).
  Local Notation ext_add := (ext_add add).
  Local Notation leb := (Ord.leb ltb).

  Definition cinit (f : list A) : list (A * Ext T) := map (fun x => (x, Fin zero)) f.

  Lemma upd_fst ks n i (x : A) e : fst (upd ks n (i, (x, e))) = x.
  Proof. unfold Selection.upd. destruct (_ || _); [reflexivity|]. destruct (ltb _ _); reflexivity. Qed.

  Lemma upd_inf ks n i (x : A) : upd ks n (i, (x, Inf)) = (x, Inf).
  Proof. unfold Selection.upd. destruct (_ || _); [reflexivity|]. destruct (ltb _ _); reflexivity. Qed.

  Lemma map_fst_upd ks n (s : list (A * Ext T)) : forall a,
    map fst (map (upd ks n) (combine (seq a (length s)) s)) = map fst s.
  Proof.
    induction s as [|[x e] s IH]; intros a; cbn [length seq combine map]; [reflexivity|].
    rewrite upd_fst, IH. reflexivity.
  Qed.

  Lemma cstep_fst l d : map fst (cstep l d) = map fst (ssort (key_leb d) l).
  Proof. unfold Selection.cstep. apply map_fst_upd. Qed.

  Lemma cstep_perm l d : Permutation (map fst (cstep l d)) (map fst l).
  Proof. rewrite cstep_fst. apply Permutation_map. apply ssort_perm. Qed.

  Lemma fold_cstep_perm ds : forall l, Permutation (map fst (fold_left cstep ds l)) (map fst l).
  Proof.
    induction ds as [|d ds IH]; intros l; cbn; [reflexivity|]. rewrite IH. apply cstep_perm.
  Qed.

  Lemma cinit_fst f : map fst (cinit f) = f.
  Proof. unfold cinit. rewrite map_map. cbn. apply map_id. Qed.

  (* the crowding call only reorders the front *)
  Theorem crowding_perm f : Permutation (map fst (crowding f)) f.
  Proof.
    unfold Selection.crowding. destruct (length f <=? 2).
    - rewrite map_map. cbn. rewrite map_id. reflexivity.
    - rewrite fold_cstep_perm. fold (cinit f). rewrite cinit_fst. reflexivity.
  Qed.

  Theorem crowding_small f : length f <= 2 ->
    map fst (crowding f) = f /\ forall x e, In (x, e) (crowding f) -> e = Inf.
  Proof.
    intros HL. unfold Selection.crowding. apply Nat.leb_le in HL. rewrite HL. split.
    - rewrite map_map. cbn. apply map_id.
    - intros x e Hin. apply in_map_iff in Hin as [y [E _]]. congruence.
  Qed.

  (* pointwise description of one objective's pass *)
  Lemma cstep_in l d x e' : In (x, e') (cstep l d) ->
    let s := ssort (key_leb d) l in
    exists i e, nth_error s i = Some (x, e) /\ (x, e') = upd (map (okey d) s) (length s) (i, (x, e)).
  Proof.
    unfold Selection.cstep. intros Hin. apply in_map_iff in Hin as [[i [y e]] [E Hc]].
    apply in_combine_seq in Hc as [_ Hn]. rewrite Nat.sub_0_r in Hn.
    assert (y = x) by (rewrite <- (upd_fst (map (okey d) (ssort (key_leb d) l)) (length (ssort (key_leb d) l)) i y e), E; reflexivity).
    subst y. exists i, e. split; [exact Hn|symmetry; exact E].
  Qed.

  Lemma cstep_in_conv l d i x e :
    let s := ssort (key_leb d) l in
    nth_error s i = Some (x, e) -> In (upd (map (okey d) s) (length s) (i, (x, e))) (cstep l d).
  Proof.
    intros s Hn. unfold Selection.cstep. apply in_map. apply (combine_seq_in s 0 i). exact Hn.
  Qed.

  Lemma cstep_keeps_inf l d x : In (x, Inf) l -> In (x, Inf) (cstep l d).
  Proof.
    intros Hin. apply (proj2 (ssort_in (key_leb d) _ _)) in Hin. apply In_nth_error in Hin as [i Hi].
    pose proof (cstep_in_conv l d i x Inf Hi) as Hc. rewrite upd_inf in Hc. exact Hc.
  Qed.

  Lemma fold_keeps_inf ds x : forall l, In (x, Inf) l -> In (x, Inf) (fold_left cstep ds l).
  Proof.
    induction ds as [|d ds IH]; intros l Hin; cbn; [exact Hin|]. apply IH. apply cstep_keeps_inf. exact Hin.
  Qed.

  Lemma cstep_length l d : length (cstep l d) = length l.
  Proof.
    unfold Selection.cstep. rewrite map_length, combine_length, seq_length, Nat.min_id. apply ssort_length.
  Qed.

  (* the sorted keys *)
  Lemma keys_sorted l d :
    StronglySorted (fun a b => ltb b a = false) (map (okey d) (ssort (key_leb d) l)).
  Proof.
    apply StronglySorted_map. eapply SS_impl; [|apply (ssort_sorted (key_leb d))].
    - intros p q. unfold lebP, Selection.key_leb. rewrite negb_true_iff. auto.
    - intros p q. apply (Ord.leb_total ltb H).
    - intros p q r. apply (Ord.leb_trans ltb H).
  Qed.

  Lemma keys_perm l d :
    Permutation (map (okey d) (ssort (key_leb d) l)) (map (obj d) (map fst l)).
  Proof.
    rewrite map_map. apply Permutation_map. apply ssort_perm.
  Qed.

  Lemma nth_key (s : list (A * Ext T)) d i x e :
    nth_error s i = Some (x, e) -> nth i (map (okey d) s) zero = obj d x.
  Proof.
    intros Hn. apply nth_error_nth. rewrite (map_nth_error (okey d) _ _ Hn). reflexivity.
  Qed.

  Definition is_min (d : nat) (f : list A) (x : A) : Prop :=
    In x f /\ forall y, In y f -> ltb (obj d y) (obj d x) = false.
  Definition is_max (d : nat) (f : list A) (x : A) : Prop :=
    In x f /\ forall y, In y f -> ltb (obj d x) (obj d y) = false.

  Lemma cstep_extremes l d : 1 <= length l ->
    (exists x, In (x, Inf) (cstep l d) /\ is_min d (map fst l) x) /\
    (exists x, In (x, Inf) (cstep l d) /\ is_max d (map fst l) x).
  Proof.
    intros HL. set (s := ssort (key_leb d) l). set (ks := map (okey d) s). set (n := length s).
    assert (Hn : n = length l) by apply ssort_length.
    assert (Hks : length ks = n) by apply map_length.
    pose proof (keys_sorted l d) as HS. fold s ks in HS.
    pose proof (keys_perm l d) as HP. fold s ks in HP.
    assert (Hpos : forall y, In y (map fst l) -> exists j, j < n /\ nth j ks zero = obj d y).
    { intros y Hy. assert (Hin : In (obj d y) ks).
      { eapply Permutation_in; [symmetry; exact HP|]. apply in_map. exact Hy. }
      destruct (In_nth _ _ zero Hin) as [j [Hj Ej]]. exists j. split; [lia|exact Ej]. }
    assert (Hmem : forall i x e, nth_error s i = Some (x, e) -> In x (map fst l)).
    { intros i x e Hi. apply nth_error_In in Hi. unfold s in Hi. apply (proj1 (ssort_in (key_leb d) _ _)) in Hi.
      apply (in_map fst) in Hi. exact Hi. }
    split.
    - destruct (nth_error s 0) as [[x e]|] eqn:E0; [|apply nth_error_None in E0; fold n in E0; lia].
      exists x. split; [|split].
      + pose proof (cstep_in_conv l d 0 x e E0) as Hc. fold s ks n in Hc.
        unfold Selection.upd in Hc. cbn [Nat.eqb orb] in Hc. exact Hc.
      + eapply Hmem; eauto.
      + intros y Hy. destruct (Hpos y Hy) as [j [Hj Ej]].
        rewrite <- Ej, <- (nth_key s d 0 x e E0). fold ks.
        destruct j as [|j]; [apply (lt_irrefl _ H)|].
        apply (sorted_nth _ zero ks HS 0 (S j)); lia.
    - destruct (nth_error s (n - 1)) as [[x e]|] eqn:E1; [|apply nth_error_None in E1; fold n in E1; lia].
      exists x. split; [|split].
      + pose proof (cstep_in_conv l d (n - 1) x e E1) as Hc. fold s ks n in Hc.
        unfold Selection.upd in Hc. rewrite Nat.eqb_refl, orb_true_r in Hc. exact Hc.
      + eapply Hmem; eauto.
      + intros y Hy. destruct (Hpos y Hy) as [j [Hj Ej]].
        rewrite <- Ej, <- (nth_key s d (n - 1) x e E1). fold ks.
        destruct (Nat.eq_dec j (n - 1)) as [->|Hne]; [apply (lt_irrefl _ H)|].
        apply (sorted_nth _ zero ks HS j (n - 1)); lia.
  Qed.

  (* some holder of the minimum and some holder of the maximum of every objective is infinite *)
  Theorem crowding_extremes f d : 3 <= length f -> d < nobj f ->
    (exists x, In (x, Inf) (crowding f) /\ is_min d f x) /\
    (exists x, In (x, Inf) (crowding f) /\ is_max d f x).
  Proof.
    intros HL Hd. unfold Selection.crowding.
    destruct (Nat.leb_spec (length f) 2) as [|_]; [lia|].
    rewrite (seq_split d (nobj f) Hd), fold_left_app. cbn [fold_left]. fold (cinit f).
    set (l := fold_left cstep (seq 0 d) (cinit f)).
    assert (HP : Permutation (map fst l) f).
    { unfold l. rewrite fold_cstep_perm. rewrite cinit_fst. reflexivity. }
    assert (HLl : 1 <= length l).
    { rewrite <- (map_length fst), (Permutation_length HP). lia. }
    destruct (cstep_extremes l d HLl) as [[x [Hx [Hxi Hxm]]] [y [Hy [Hyi Hym]]]].
    split.
    - exists x. split; [apply fold_keeps_inf; exact Hx|]. split.
      + eapply Permutation_in; [exact HP|exact Hxi].
      + intros z Hz. apply Hxm. eapply Permutation_in; [symmetry; exact HP|exact Hz].
    - exists y. split; [apply fold_keeps_inf; exact Hy|]. split.
      + eapply Permutation_in; [exact HP|exact Hyi].
      + intros z Hz. apply Hym. eapply Permutation_in; [symmetry; exact HP|exact Hz].
  Qed.
  (* ---------------- tie-free fronts: the exact operands of the interior formula *)
  Definition tie_free_at (d : nat) (f : list A) : Prop :=
    ForallOrdPairs (fun x y => ltb (obj d x) (obj d y) = true \/ ltb (obj d y) (obj d x) = true) f.
  Definition tie_free (f : list A) : Prop := forall d, d < nobj f -> tie_free_at d f.

  (* x holds the minimum or the maximum of objective d *)
  Definition extreme_at (d : nat) (f : list A) (x : A) : Prop :=
    (forall y, In y f -> ltb (obj d y) (obj d x) = false) \/
    (forall y, In y f -> ltb (obj d x) (obj d y) = false).

  (* (p, s, lo, hi) = greatest smaller value, least greater value, minimum, maximum of the
     values V relative to xd *)
  Definition nbr_vals (V : list T) (xd : T) (nb : T * T * T * T) : Prop :=
    let '(p, s, lo, hi) := nb in
    (In lo V /\ forall v, In v V -> ltb v lo = false) /\
    (In hi V /\ forall v, In v V -> ltb hi v = false) /\
    (In p V /\ ltb p xd = true /\ forall v, In v V -> ltb v xd = true -> ltb p v = false) /\
    (In s V /\ ltb xd s = true /\ forall v, In v V -> ltb xd v = true -> ltb v s = false).
  Definition neighbours (d : nat) (f : list A) (x : A) (nb : T * T * T * T) : Prop :=
    nbr_vals (map (obj d) f) (obj d x) nb.

  (* `if max_distance > 0.0: cd += (next - prev) / max_distance` *)
  Definition gadd (acc : T) (nb : T * T * T * T) : T :=
    let '(p, s, lo, hi) := nb in
    if ltb zero (sub hi lo) then add acc (div (sub s p) (sub hi lo)) else acc.
  Definition gterm (nb : T * T * T * T) : T :=
    let '(p, s, lo, hi) := nb in div (sub s p) (sub hi lo).
  Definition dnb : T * T * T * T := (zero, zero, zero, zero).

  Lemma strict_sorted ks :
    StronglySorted (fun a b => ltb b a = false) ks ->
    ForallOrdPairs (fun a b => ltb a b = true \/ ltb b a = true) ks ->
    StronglySorted (fun a b => ltb a b = true) ks.
  Proof.
    induction 1 as [|a l HS IH Hf]; intros HF; constructor.
    - apply IH. inversion HF; assumption.
    - inversion HF as [|? ? Hd Hp]; subst. rewrite Forall_forall in *. intros b Hb.
      destruct (Hd b Hb) as [E|E]; [exact E|]. rewrite (Hf b Hb) in E. discriminate.
  Qed.

  Lemma nbr_of_sorted ks V i :
    (forall a b, a < b -> b < length ks -> ltb (nth a ks zero) (nth b ks zero) = true) ->
    (forall v, In v V <-> In v ks) -> 0 < i -> i < length ks - 1 ->
    nbr_vals V (nth i ks zero)
             (nth (i - 1) ks zero, nth (i + 1) ks zero, nth 0 ks zero, nth (length ks - 1) ks zero).
  Proof.
    intros Hlt HV Hi0 Hin. set (n := length ks) in *.
    assert (Hidx : forall v, In v V -> exists j, j < n /\ nth j ks zero = v).
    { intros v Hv. apply HV in Hv. destruct (In_nth _ _ zero Hv) as [j [Hj Ej]]. eauto. }
    assert (Hmem : forall j, j < n -> In (nth j ks zero) V).
    { intros j Hj. apply HV. apply nth_In. exact Hj. }
    assert (Hge : forall a b, a <= b -> b < n -> ltb (nth b ks zero) (nth a ks zero) = false).
    { intros a b Hab Hb. destruct (Nat.eq_dec a b) as [->|Hne]; [apply (lt_irrefl _ H)|].
      apply (lt_asym ltb H). apply Hlt; lia. }
    unfold nbr_vals. repeat split.
    - apply Hmem. lia.
    - intros v Hv. destruct (Hidx v Hv) as [j [Hj <-]]. apply Hge; lia.
    - apply Hmem. lia.
    - intros v Hv. destruct (Hidx v Hv) as [j [Hj <-]]. apply Hge; lia.
    - apply Hmem. lia.
    - apply Hlt; lia.
    - intros v Hv Hvx. destruct (Hidx v Hv) as [j [Hj <-]].
      assert (j < i).
      { destruct (Nat.lt_ge_cases j i) as [|Hge']; [assumption|].
        rewrite (Hge i j Hge' Hj) in Hvx. discriminate. }
      apply Hge; lia.
    - apply Hmem. lia.
    - apply Hlt; lia.
    - intros v Hv Hvx. destruct (Hidx v Hv) as [j [Hj <-]].
      assert (i < j).
      { destruct (Nat.lt_ge_cases i j) as [|Hge']; [assumption|].
        rewrite (Hge j i Hge') in Hvx; [discriminate|lia]. }
      apply Hge; lia.
  Qed.

  (* state invariant after the objectives 0..k-1 *)
  Definition cinv (f : list A) (k : nat) (l : list (A * Ext T)) : Prop :=
    forall x e, In (x, e) l ->
      ((exists d, d < k /\ extreme_at d f x) -> e = Inf) /\
      ((forall d, d < k -> ~ extreme_at d f x) ->
       exists nbs, length nbs = k /\ (forall d, d < k -> neighbours d f x (nth d nbs dnb)) /\
                   e = Fin (fold_left gadd nbs zero)).

  Lemma cinv_step f d l : Permutation (map fst l) f -> 3 <= length f -> tie_free_at d f ->
    cinv f d l -> cinv f (S d) (cstep l d).
  Proof.
    intros HP HL HT HI x e' Hin.
    destruct (cstep_in l d x e' Hin) as [i [e [Hn Hu]]].
    set (s := ssort (key_leb d) l) in *. set (ks := map (okey d) s) in *. set (n := length s) in *.
    assert (Hnl : n = length f).
    { unfold n, s. rewrite ssort_length, <- (map_length fst), (Permutation_length HP). reflexivity. }
    assert (Hks : length ks = n) by apply map_length.
    assert (Hi : i < n) by (apply nth_error_Some; rewrite Hn; discriminate).
    assert (Hold : In (x, e) l).
    { apply nth_error_In in Hn. unfold s in Hn. apply (proj1 (ssort_in (key_leb d) _ _)) in Hn. exact Hn. }
    destruct (HI x e Hold) as [I1 I2].
    (* the keys are strictly increasing *)
    assert (HPk : Permutation ks (map (obj d) f)).
    { unfold ks, s. rewrite keys_perm. apply Permutation_map. exact HP. }
    assert (Hlt : forall a b, a < b -> b < length ks -> ltb (nth a ks zero) (nth b ks zero) = true).
    { intros a b Hab Hb. apply (sorted_nth (fun a b => ltb a b = true) zero ks); [|exact Hab|exact Hb].
      apply strict_sorted; [apply keys_sorted|].
      eapply FOP_perm; [|symmetry; exact HPk|apply FOP_map; exact HT].
      intros u v [E|E]; [right|left]; exact E. }
    assert (HV : forall v, In v (map (obj d) f) <-> In v ks).
    { intros v. split; apply Permutation_in; [symmetry|]; exact HPk. }
    assert (Hxd : nth i ks zero = obj d x) by (apply (nth_key s d i x e Hn)).
    assert (Hval : forall j, j < n -> exists y, In y f /\ obj d y = nth j ks zero).
    { intros j Hj. assert (Hin' : In (nth j ks zero) (map (obj d) f)) by (apply HV; apply nth_In; lia).
      apply in_map_iff in Hin' as [y [Ey Hy]]. eauto. }
    assert (Hpos : forall y, In y f -> exists j, j < n /\ nth j ks zero = obj d y).
    { intros y Hy. assert (Hin' : In (obj d y) ks) by (apply HV; apply in_map; exact Hy).
      destruct (In_nth _ _ zero Hin') as [j [Hj Ej]]. exists j. split; [lia|exact Ej]. }
    assert (Hge : forall a b, a <= b -> b < n -> ltb (nth b ks zero) (nth a ks zero) = false).
    { intros a b Hab Hb. destruct (Nat.eq_dec a b) as [->|Hne]; [apply (lt_irrefl _ H)|].
      apply (lt_asym ltb H). apply Hlt; lia. }
    unfold Selection.upd in Hu.
    destruct ((i =? 0) || (i =? n - 1)) eqn:Eends.
    - (* an end position: infinite, and x is extreme in objective d *)
      inversion Hu; subst e'. split; [reflexivity|].
      intros Hno. exfalso. apply (Hno d (Nat.lt_succ_diag_r d)).
      apply orb_true_iff in Eends as [E|E]; apply Nat.eqb_eq in E.
      + left. intros y Hy. destruct (Hpos y Hy) as [j [Hj Ej]]. rewrite <- Ej, <- Hxd, E. apply Hge; lia.
      + right. intros y Hy. destruct (Hpos y Hy) as [j [Hj Ej]]. rewrite <- Ej, <- Hxd, E. apply Hge; lia.
    - apply orb_false_iff in Eends as [E0 E1]. apply Nat.eqb_neq in E0. apply Nat.eqb_neq in E1.
      assert (Hnot : ~ extreme_at d f x).
      { intros [Hmin|Hmax].
        - destruct (Hval 0) as [y [Hy Ey]]; [lia|]. specialize (Hmin y Hy).
          rewrite Ey, <- Hxd, Hlt in Hmin; [discriminate|lia|lia].
        - destruct (Hval (n - 1)) as [y [Hy Ey]]; [lia|]. specialize (Hmax y Hy).
          rewrite Ey, <- Hxd, Hlt in Hmax; [discriminate|lia|lia]. }
      pose proof (nbr_of_sorted ks (map (obj d) f) i Hlt HV ltac:(lia) ltac:(lia)) as Hnb.
      rewrite Hks, Hxd in Hnb.
      set (nb := (nth (i - 1) ks zero, nth (i + 1) ks zero, nth 0 ks zero, nth (n - 1) ks zero)) in *.
      assert (He' : e' = match e with Fin v => Fin (gadd v nb) | Inf => Inf end).
      { unfold gadd, nb. destruct (ltb zero (sub (nth (n - 1) ks zero) (nth 0 ks zero)));
          inversion Hu; destruct e; reflexivity. }
      split.
      + intros [d' [Hd' Hex]]. assert (d' < d \/ d' = d) as [Hlt' | ->] by lia; [|contradiction].
        rewrite (I1 (ex_intro _ d' (conj Hlt' Hex))) in He'. exact He'.
      + intros Hno. destruct I2 as [nbs [Hlen [Hnbs He]]]; [intros d' Hd'; apply Hno; lia|].
        exists (nbs ++ [nb]). split; [rewrite app_length; cbn; lia|]. split.
        * intros d' Hd'. assert (d' < d \/ d' = d) as [Hlt' | ->] by lia.
          -- rewrite app_nth1 by lia. apply Hnbs. exact Hlt'.
          -- rewrite app_nth2 by lia. rewrite Hlen, Nat.sub_diag. cbn. exact Hnb.
        * rewrite fold_left_app. cbn. rewrite He in He'. exact He'.
  Qed.

  Lemma cinv_fold f : 3 <= length f -> forall k, k <= nobj f -> (forall d, d < k -> tie_free_at d f) ->
    cinv f k (fold_left cstep (seq 0 k) (cinit f)).
  Proof.
    intros HL. induction k as [|k IH]; intros Hk HT.
    - cbn. intros x e Hin. unfold cinit in Hin. apply in_map_iff in Hin as [y [E _]]. inversion E; subst.
      split; [intros [d [Hd _]]; lia|]. intros _. exists []. repeat split. intros d Hd. lia.
    - rewrite seq_S, fold_left_app. cbn. apply cinv_step.
      + rewrite fold_cstep_perm, cinit_fst. reflexivity.
      + exact HL.
      + apply HT. lia.
      + apply IH; [lia|]. intros d Hd. apply HT. lia.
  Qed.

  (* tie-free front of >= 3 members: an individual extreme in some objective is infinite; any
     other gets exactly the guarded sum, over the objectives in order, of
     (least greater value - greatest smaller value) / (maximum - minimum) *)
  Theorem crowding_interior f : 3 <= length f -> tie_free f ->
    forall x e, In (x, e) (crowding f) ->
      ((exists d, d < nobj f /\ extreme_at d f x) -> e = Inf) /\
      ((forall d, d < nobj f -> ~ extreme_at d f x) ->
       exists nbs, length nbs = nobj f /\ (forall d, d < nobj f -> neighbours d f x (nth d nbs dnb)) /\
                   e = Fin (fold_left gadd nbs zero)).
  Proof.
    intros HL HT. unfold Selection.crowding. destruct (Nat.leb_spec (length f) 2) as [|_]; [lia|].
    fold (cinit f). apply (cinv_fold f HL (nobj f) (le_n _)). intros d Hd. apply HT. exact Hd.
  Qed.

  Lemma nbr_range_pos V xd p s lo hi : nbr_vals V xd (p, s, lo, hi) -> ltb lo hi = true.
  Proof.
    intros [[_ Hlo] [[_ Hhi] [[Hp [Hpx _]] [Hs [Hxs _]]]]].
    assert (L1 : ltb lo xd = true).
    { apply (le_lt_trans ltb H lo p xd); [|exact Hpx]. unfold Ord.leb. rewrite (Hlo p Hp). reflexivity. }
    assert (L2 : ltb xd hi = true).
    { apply (lt_le_trans ltb H xd s hi); [exact Hxs|]. unfold Ord.leb. rewrite (Hhi s Hs). reflexivity. }
    eapply (lt_trans _ H); eauto.
  Qed.

  Lemma gadd_fold_terms nbs : (forall a b, ltb a b = true -> ltb zero (sub b a) = true) ->
    Forall (fun nb => let '(p, s, lo, hi) := nb in ltb lo hi = true) nbs ->
    forall acc, fold_left gadd nbs acc = fold_left add (map gterm nbs) acc.
  Proof.
    intros Hsub. induction 1 as [|[[[p s] lo] hi] nbs Hnb HF IH]; intros acc; cbn; [reflexivity|].
    rewrite (Hsub lo hi Hnb). apply IH.
  Qed.

  (* with `a < b -> 0 < b - a` the guard is always true on a tie-free front: the plain formula *)
  Theorem crowding_interior_formula f :
    (forall a b, ltb a b = true -> ltb zero (sub b a) = true) ->
    3 <= length f -> tie_free f ->
    forall x e, In (x, e) (crowding f) -> (forall d, d < nobj f -> ~ extreme_at d f x) ->
      exists nbs, length nbs = nobj f /\ (forall d, d < nobj f -> neighbours d f x (nth d nbs dnb)) /\
                  e = Fin (fold_left add (map gterm nbs) zero).
  Proof.
    intros Hsub HL HT x e Hin Hno.
    destruct (crowding_interior f HL HT x e Hin) as [_ I2].
    destruct (I2 Hno) as [nbs [Hlen [Hnbs He]]]. exists nbs. repeat split; try assumption.
    rewrite He. f_equal. apply gadd_fold_terms; [exact Hsub|].
    apply Forall_forall. intros nb Hnb. destruct (In_nth _ _ dnb Hnb) as [d [Hd Ed]].
    rewrite Hlen in Hd. specialize (Hnbs d Hd). rewrite Ed in Hnbs.
    destruct nb as [[[p s] lo] hi]. eapply nbr_range_pos. exact Hnbs.
  Qed.
End CrowdProofs.

(* ------------------------------------------------------------------ bounds on finite distances (ties allowed) *)
Section CrowdBounds.
  Context {T : Type} (ltb : T -> T -> bool) (H : SWO ltb) (add sub div : T -> T -> T) (zero one : T).
  Context (bound : nat -> T).              (* bound k stands for the number k *)
  Context {A : Type} (costs : A -> list T).
  Local Notation okey := (okey zero costs).
  Local Notation key_leb := (key_leb ltb zero costs).
  Local Notation cstep := (cstep ltb add sub div zero costs).
  Local Notation crowding := (crowding ltb add sub div zero costs).
  Local Notation nobj := (nobj costs).
  Local Notation leb := (Ord.leb ltb).

  (* the arithmetic facts the bounds need; nothing else about add/sub/div is used *)
  Definition term_bounds_hyp : Prop := forall lo a b hi,
    leb lo a = true -> leb a b = true -> leb b hi = true -> ltb zero (sub hi lo) = true ->
    leb zero (div (sub b a) (sub hi lo)) = true /\ leb (div (sub b a) (sub hi lo)) one = true.
  Definition add_bounds_hyp : Prop := forall k v t,
    leb zero v = true -> leb v (bound k) = true -> leb zero t = true -> leb t one = true ->
    leb zero (add v t) = true /\ leb (add v t) (bound (S k)) = true.
  Definition bound_mono_hyp : Prop := forall k, leb (bound k) (bound (S k)) = true.
  Definition bound_start_hyp : Prop := leb zero (bound 0) = true.

  Context (term_bounds : term_bounds_hyp) (add_bounds : add_bounds_hyp)
          (bound_mono : bound_mono_hyp) (bound_start : bound_start_hyp).

  Definition binv (k : nat) (l : list (A * Ext T)) : Prop :=
    forall x v, In (x, Fin v) l -> leb zero v = true /\ leb v (bound k) = true.

  Lemma binv_step k l d : binv k l -> binv (S k) (cstep l d).
  Proof.
    intros HI x v' Hin.
    destruct (cstep_in ltb add sub div zero costs l d x (Fin v') Hin) as [i [e [Hn Hu]]].
    set (s := ssort (key_leb d) l) in *. set (ks := map (okey d) s) in *. set (n := length s) in *.
    assert (Hks : length ks = n) by apply map_length.
    assert (Hi : i < n) by (apply nth_error_Some; rewrite Hn; discriminate).
    assert (Hold : In (x, e) l).
    { apply nth_error_In in Hn. unfold s in Hn. apply (proj1 (ssort_in (key_leb d) _ _)) in Hn. exact Hn. }
    pose proof (keys_sorted ltb H zero costs l d) as HS. fold s ks in HS.
    assert (Hle : forall a b, a <= b -> b < n -> leb (nth a ks zero) (nth b ks zero) = true).
    { intros a b Hab Hb. destruct (Nat.eq_dec a b) as [->|Hne]; [apply (leb_refl ltb H)|].
      unfold Ord.leb. rewrite (sorted_nth _ zero ks HS a b); [reflexivity|lia|lia]. }
    unfold Selection.upd in Hu.
    destruct ((i =? 0) || (i =? n - 1)) eqn:Eends; [discriminate|].
    apply orb_false_iff in Eends as [E0 E1]. apply Nat.eqb_neq in E0. apply Nat.eqb_neq in E1.
    destruct (ltb zero (sub (nth (n - 1) ks zero) (nth 0 ks zero))) eqn:G.
    - destruct e as [v|]; cbn in Hu; [|discriminate]. inversion Hu; subst v'.
      destruct (HI x v Hold) as [B0 B1].
      destruct (term_bounds (nth 0 ks zero) (nth (i - 1) ks zero) (nth (i + 1) ks zero) (nth (n - 1) ks zero))
        as [T0 T1]; try (apply Hle; lia); [exact G|].
      apply add_bounds; assumption.
    - inversion Hu; subst e. destruct (HI x v' Hold) as [B0 B1]. split; [exact B0|].
      eapply (leb_trans ltb H); [exact B1|apply bound_mono].
  Qed.

  Lemma binv_fold ds : forall k l, binv k l -> binv (k + length ds) (fold_left cstep ds l).
  Proof.
    induction ds as [|d ds IH]; intros k l HI; cbn.
    - rewrite Nat.add_0_r. exact HI.
    - replace (k + S (length ds)) with (S k + length ds) by lia. apply IH. apply binv_step. exact HI.
  Qed.

  (* with ties: every finite crowding distance is >= 0 and <= the number of objectives *)
  Theorem crowding_bounds f x v : In (x, Fin v) (crowding f) ->
    leb zero v = true /\ leb v (bound (nobj f)) = true.
  Proof.
    unfold Selection.crowding. destruct (length f <=? 2).
    - intros Hin. apply in_map_iff in Hin as [y [E _]]. discriminate.
    - intros Hin. pose proof (binv_fold (seq 0 (nobj f)) 0 (map (fun x => (x, Fin zero)) f)) as HB.
      rewrite seq_length in HB. cbn in HB. apply (fun I => HB I x v Hin).
      intros y w Hy. apply in_map_iff in Hy as [z [E _]]. inversion E; subst.
      split; [apply (leb_refl ltb H)|exact bound_start].
  Qed.
End CrowdBounds.
