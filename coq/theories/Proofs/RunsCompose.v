(* C09 composed with C02 and C03: the hypotheses H_select_len / H_select_nodup / H_select_incl /
   H_select_elitist / H_front_rank of Proofs/RunsProofs.v are discharged for the concrete selector
       select pool k = nondominated_truncate (after fast_nondominated_sorting pool) k
   built from Model/Fnds.v (front numbers) and Model/Selection.v (set(), sort, slice), using
   FndsProofs.fnds_rank and SelectionProofs.truncate_spec / truncate_total.
   Signed costs are (objective list, feasibility marker) with the Pareto comparator of C01.
   What stays a parameter: the crowding distances (truncate_spec holds for every distance
   function), the iteration order of the set (every permutation of the representatives is
   accepted), and set()'s key equality `same` with its C20 facts. *)
From Coq Require Import List Bool Arith ZArith Lia Permutation.
From Artap Require Import Base.Ord Model.Dominance Proofs.DominanceProofs Model.Fnds Proofs.FndsProofs
                          Model.Selection Proofs.SelectionProofs Model.Runs Proofs.RunsProofs.
Import ListNotations.
Local Open Scope nat_scope.

Section Compose.
  Context {T V : Type} (ltb : T -> T -> bool) (HSWO : SWO ltb).
  Local Notation C := (list T * Z)%type.
  Local Notation rind' := (rind V C).
  Local Notation cmp := (pareto_compare ltb).

  Variable veq : V -> V -> bool.
  Variable vexact : V -> V -> bool.
  Variable same : rind' -> rind' -> bool.                   (* set(): equal hash and == *)
  Variable cd : list rind' -> rind' -> Ext T.               (* crowding distance of x inside pool: any *)
  Variable order_of : list rind' -> list nat.               (* iteration order of set(pool), as ids *)
  Variable m : nat.                                         (* number of objectives *)

  Hypothesis H_same_veq : forall e x : rind', same e x = true -> rid e = rid x \/ veq (rvec x) (rvec e) = true.
  Hypothesis H_veq_refl : forall v, veq v v = true.
  Hypothesis H_same_sym : forall x y : rind', same x y = same y x.
  Hypothesis H_order : forall pool, NoDup (map rid pool) ->
    Permutation (order_of pool) (map rid (Selection.dedupe same pool)).

  Definition okc_m (c : C) : Prop := length (fst c) = m.
  Local Notation wf_pool := (wf_pool okc_m).

  (* the front number fast_nondominated_sorting writes into x.features['front_number'] *)
  Definition to_fnds (pool : list rind') : list (Fnds.ind C) :=
    map (fun x => Fnds.mk_ind (rid x) (rcost x)) pool.
  Fixpoint pos_from (l : list rind') (id k : nat) : nat :=
    match l with
    | [] => k
    | y :: l' => if Nat.eqb (rid y) id then k else pos_from l' id (S k)
    end.
  Definition front_of (pool : list rind') (x : rind') : nat :=
    match fnds cmp (to_fnds pool) with
    | Some fr => rank_at fr (pos_from pool (rid x) 0)
    | None => 0
    end.
  (* nondominated_truncate(pool, k) *)
  Definition select_c (pool : list rind') (k : nat) : list rind' :=
    match truncate ltb rid (front_of pool) (cd pool) same pool (order_of pool) k with
    | Some r => r
    | None => []
    end.

  Lemma dedupe_same pool : Selection.dedupe same pool = dedupe_by same pool.
  Proof. reflexivity. Qed.

  Lemma pos_from_nth l : forall j k y, NoDup (map rid l) -> nth_error l j = Some y -> pos_from l (rid y) k = k + j.
  Proof.
    induction l as [|z l IH]; intros j k y ND E; [destruct j; discriminate|].
    cbn in ND. inversion ND as [|? ? Nz ND']; subst. destruct j as [|j]; cbn in E.
    - inversion E; subst. cbn. rewrite Nat.eqb_refl. lia.
    - cbn. destruct (Nat.eqb (rid z) (rid y)) eqn:Ez.
      + apply Nat.eqb_eq in Ez. exfalso. apply Nz. rewrite Ez. apply in_map. eapply nth_error_In; eauto.
      + rewrite (IH j (S k) y ND' E). lia.
  Qed.

  Lemma wf_fnds pool : wf_pool pool ->
    NoDup (map iid (to_fnds pool)) /\ trans_on cmp (map cost (to_fnds pool)).
  Proof.
    intros (ND & Ok). split.
    - unfold to_fnds. rewrite map_map. cbn. exact ND.
    - apply (pareto_trans_on ltb HSWO). intros x y Ix Iy. unfold to_fnds in Ix, Iy.
      apply in_map_iff in Ix, Iy. destruct Ix as (a & <- & Ia), Iy as (b & <- & Ib). cbn.
      rewrite Forall_forall in Ok. rewrite (Ok a Ia), (Ok b Ib). reflexivity.
  Qed.

  Lemma option_map_some {A B} (f : A -> B) o c : option_map f o = Some c -> exists y, o = Some y /\ c = f y.
  Proof. destruct o as [y|]; cbn; intros E; [inversion E; eauto|discriminate]. Qed.

  Lemma list_max_same_elements l1 l2 : (forall a, In a l1 <-> In a l2) -> list_max l1 = list_max l2.
  Proof.
    intros E. apply Nat.le_antisymm; apply list_max_le; apply Forall_forall; intros a Ia;
      apply in_le_list_max; apply E; exact Ia.
  Qed.

  (* H_front_rank from C02 *)
  Theorem front_rank_c pool x : wf_pool pool -> In x pool ->
    front_of pool x = S (list_max (map (front_of pool)
                                       (filter (fun y => Nat.eqb (cmp (rcost y) (rcost x)) 1) pool))).
  Proof.
    intros Wf Ix. destruct (wf_fnds pool Wf) as (NDf & Tr). pose proof Wf as (ND & _).
    destruct (fnds_rank cmp (pareto_antisym ltb HSWO) (to_fnds pool) Tr NDf) as (fr & Ef & Lf & Rk).
    assert (Fo : forall j y, nth_error pool j = Some y -> front_of pool y = rank_at fr j).
    { intros j y Ey. unfold front_of. rewrite Ef, (pos_from_nth pool j 0 y ND Ey). reflexivity. }
    assert (Lp : length (to_fnds pool) = length pool) by (unfold to_fnds; apply map_length).
    destruct (In_nth_error _ _ Ix) as (i & Ei).
    assert (Li : i < length (to_fnds pool)) by (rewrite Lp; apply nth_error_Some; congruence).
    rewrite (Fo i x Ei). unfold rank_at at 1. rewrite (Rk i Li). f_equal.
    apply list_max_same_elements. intros a. rewrite !in_map_iff. split.
    - intros (j & <- & Ij). apply (dominators_spec cmp) in Ij. destruct Ij as (c & a' & Ec & Ea & D).
      unfold to_fnds in Ec, Ea. rewrite nth_error_map in Ec, Ea.
      apply option_map_some in Ec. destruct Ec as (y & Ey & ->).
      apply option_map_some in Ea. destruct Ea as (x' & Ex' & ->).
      assert (Es : Some x' = Some x) by exact (eq_trans (eq_sym Ex') Ei). inversion Es; subst x'. cbn in D.
      exists y. split; [apply Fo; auto|]. apply filter_In. split; [eapply nth_error_In; eauto|].
      rewrite D. reflexivity.
    - intros (y & <- & Iy). apply filter_In in Iy. destruct Iy as (Iy & D). apply Nat.eqb_eq in D.
      destruct (In_nth_error _ _ Iy) as (j & Ey). exists j. split; [symmetry; apply Fo; auto|].
      apply (dominators_spec cmp). exists (Fnds.mk_ind (rid y) (rcost y)), (Fnds.mk_ind (rid x) (rcost x)).
      unfold to_fnds. split; [exact (map_nth_error (fun x : rind' => Fnds.mk_ind (rid x) (rcost x)) _ _ Ey)|].
      split; [exact (map_nth_error (fun x : rind' => Fnds.mk_ind (rid x) (rcost x)) _ _ Ei)|]. exact D.
  Qed.

  Lemma FOP_pairwise {A} (R : A -> A -> Prop) l : ForallOrdPairs R l -> pairwise R l.
  Proof. induction 1; cbn; auto. Qed.

  Lemma select_c_some pool k : wf_pool pool ->
    exists res, truncate ltb rid (front_of pool) (cd pool) same pool (order_of pool) k = Some res /\
                select_c pool k = res.
  Proof.
    intros (ND & _). unfold select_c.
    pose proof (truncate_total ltb rid (front_of pool) (cd pool) same pool (order_of pool) k ND (H_order pool ND)) as Tt.
    destruct (truncate ltb rid (front_of pool) (cd pool) same pool (order_of pool) k) as [r|]; [eauto|congruence].
  Qed.

  (* H_select_* from C03 *)
  Theorem select_len_c pool k : wf_pool pool ->
    length (select_c pool k) = Nat.min k (length (dedupe_by same pool)).
  Proof.
    intros Wf. destruct (select_c_some pool k Wf) as (res & Et & ->).
    destruct (truncate_spec ltb HSWO rid _ _ same _ _ _ _ Et) as (L & _). exact L.
  Qed.

  Theorem select_nodup_c pool k : wf_pool pool -> pairwise (nosame same) (select_c pool k).
  Proof.
    intros Wf. destruct (select_c_some pool k Wf) as (res & Et & ->).
    destruct (truncate_spec ltb HSWO rid _ _ same _ _ _ _ Et) as (_ & _ & _ & Nd & _).
    specialize (Nd (fun x y _ _ => H_same_sym x y)). apply FOP_pairwise in Nd.
    eapply pairwise_impl; [|exact Nd]. intros a b _ _ (E & _). exact E.
  Qed.

  Theorem select_incl_c pool k : wf_pool pool -> incl (select_c pool k) (dedupe_by same pool).
  Proof.
    intros Wf. destruct (select_c_some pool k Wf) as (res & Et & ->).
    destruct (truncate_spec ltb HSWO rid _ _ same _ _ _ _ Et) as (_ & I & _). exact I.
  Qed.

  Theorem select_elitist_c pool k s d : wf_pool pool ->
    In s (select_c pool k) -> In d (dedupe_by same pool) -> ~ In d (select_c pool k) ->
    front_of pool s <= front_of pool d.
  Proof.
    intros Wf. destruct (select_c_some pool k Wf) as (res & Et & ->).
    destruct (truncate_spec ltb HSWO rid _ _ same _ _ _ _ Et) as (_ & _ & _ & _ & El & _). apply El.
  Qed.

  (* ---- the C09 NSGA-II theorems with the sorter and the truncation of C02 / C03 plugged in ---- *)
  Theorem nsga2_bookkeeping_composed N G init e0 gens st :
    2 <= N -> 1 <= G -> length init = N -> okc_entries okc_m e0 -> Forall (okc_gen okc_m) gens ->
    nsga2_run veq vexact select_c N G init e0 gens = Some st -> Forall (fresh_tr veq) (s_trace st) ->
    map (fun tl => (fst tl, length (snd tl))) (populations (s_rec st)) = map (fun t => (t, N)) (seq 1 G) /\
    (forall t, length (population (s_rec st) t) = if (1 <=? t) && (t <=? G) then N else 0) /\
    (forall t, 2 <= t -> pairwise (nosame same) (population (s_rec st) t)) /\
    successes (s_log st) = N * G.
  Proof.
    exact (nsga2_bookkeeping veq vexact select_c same okc_m select_len_c select_nodup_c select_incl_c
             H_same_veq H_veq_refl N G init e0 gens st).
  Qed.

  Theorem nsga2_elitism_composed N G init e0 gens st :
    2 <= N -> 1 <= G -> length init = N -> okc_entries okc_m e0 -> Forall (okc_gen okc_m) gens ->
    nsga2_run veq vexact select_c N G init e0 gens = Some st -> Forall (fresh_tr veq) (s_trace st) ->
    forall t, 1 <= t -> t < G ->
    exists tr, nth_error (s_trace st) (t - 1) = Some tr /\
      t_parents tr = population (s_rec st) t /\ t_next tr = population (s_rec st) (S t) /\
      map rvec (t_copies tr) = map rvec (t_parents tr) /\ map rcost (t_copies tr) = map rcost (t_parents tr) /\
      (det_pool same (t_offs tr ++ t_copies tr) ->
       forall d, In d (t_copies tr) -> kept same (t_next tr) d = false ->
       forall s, In s (t_next tr) -> cmp (rcost d) (rcost s) <> 1).
  Proof.
    exact (nsga2_elitism veq vexact cmp select_c same front_of okc_m select_len_c select_nodup_c select_incl_c
             select_elitist_c front_rank_c H_same_veq H_veq_refl N G init e0 gens st).
  Qed.
End Compose.
