(* Proofs for Model/VariationGen.v (the generator clause of C08) and the composition, in exact rational
   arithmetic, of gen_vector with the run-level theorems: initial designs and re-rolls are outputs of
   gen_vector, hence every design a run evaluates is within half a precision step of the box. *)
From Coq Require Import List Bool ZArith QArith Qabs Qround Lia Lqa.
From Artap Require Import Base.Ord Base.QInst Model.Variation Model.VariationRun Model.VariationGen
     Proofs.VariationProofs Proofs.VariationRunProofs.
Import ListNotations.

Section LevelsP.
  Context {T : Type} (ltb : T -> T -> bool) (HO : SWO ltb).

  (* every level offered for parameter p lies in p's interval *)
  Definition levels_ok (params : list (T * T)) (levels : list (list T)) : Prop :=
    Forall2 (fun p l => Forall (inside ltb p) l) params levels.

  Lemma construct_row_in_box : forall params levels idx r,
    levels_ok params levels -> length idx = length params ->
    construct_row levels idx = Some r -> in_box ltb params r.
  Proof.
    induction params as [|p ps IH]; intros levels idx r HL Hlen HC.
    - destruct idx; [|discriminate]. cbn in HC. inversion HC; subst. constructor.
    - destruct idx as [|i is]; [discriminate|]. inversion HL as [|? l ? ls Hl HL']; subst. cbn in HC.
      destruct (nth_error l i) as [x|] eqn:E; [|discriminate].
      destruct (construct_row ls is) as [r'|] eqn:E'; [|discriminate]. inversion HC; subst.
      constructor.
      + rewrite Forall_forall in Hl. apply Hl. eapply nth_error_In; exact E.
      + eapply IH; [exact HL'| |exact E']. cbn in Hlen. congruence.
  Qed.

  Theorem construct_df_in_box : forall params levels x rows,
    levels_ok params levels -> Forall (fun row => length row = length params) x ->
    construct_df levels x = Some rows -> length rows = length x /\ Forall (in_box ltb params) rows.
  Proof.
    intros params levels. induction x as [|row x IH]; intros rows HL HX HC; cbn in HC.
    - inversion HC; subst. split; [reflexivity|constructor].
    - destruct (construct_row levels row) as [r|] eqn:E; [|discriminate].
      destruct (construct_df levels x) as [rs|] eqn:E'; [|discriminate]. inversion HC; subst.
      inversion HX as [|? ? Hr HX']; subst. destruct (IH _ HL HX' eq_refl) as [L F].
      split; [cbn; congruence|]. constructor; [|exact F]. eapply construct_row_in_box; eassumption.
  Qed.

  Lemma levels2_inside p : wf ltb p -> Forall (inside ltb p) (levels2 p).
  Proof.
    intros W. unfold levels2. repeat constructor; try apply (lt_irrefl _ HO); exact W.
  Qed.

  Lemma levels3_inside mid p : wf ltb p -> inside ltb p (mid p) -> Forall (inside ltb p) (levels3 mid p).
  Proof.
    intros W M. unfold levels3. constructor; [|constructor; [exact M|constructor; [|constructor]]].
    - split; [apply (lt_irrefl _ HO)|exact W].
    - split; [exact W|apply (lt_irrefl _ HO)].
  Qed.

  Lemma levels_ok_map (f : T * T -> list T) params :
    (forall p, In p params -> Forall (inside ltb p) (f p)) -> levels_ok params (map f params).
  Proof.
    induction params as [|p ps IH]; intros H; constructor.
    - apply H. left. reflexivity.
    - apply IH. intros q Hq. apply H. right. exact Hq.
  Qed.

  (* two-level designs (full factorial without centre, Plackett-Burman): for every index matrix *)
  Theorem two_level_in_box params x rows :
    Forall (wf ltb) params -> Forall (fun row => length row = length params) x ->
    construct_df (map levels2 params) x = Some rows -> length rows = length x /\ Forall (in_box ltb params) rows.
  Proof.
    intros W. apply construct_df_in_box. apply levels_ok_map. intros p Hp. apply levels2_inside.
    rewrite Forall_forall in W. apply W. exact Hp.
  Qed.

  (* three-level designs (full factorial with centre, Box-Behnken): for every mid-point function that stays
     between the bounds and every index matrix *)
  Theorem three_level_in_box mid params x rows :
    Forall (wf ltb) params -> (forall p, In p params -> inside ltb p (mid p)) ->
    Forall (fun row => length row = length params) x ->
    construct_df (map (levels3 mid) params) x = Some rows -> length rows = length x /\ Forall (in_box ltb params) rows.
  Proof.
    intros W M. apply construct_df_in_box. apply levels_ok_map. intros p Hp. apply levels3_inside.
    - rewrite Forall_forall in W. apply W. exact Hp.
    - apply M. exact Hp.
  Qed.
End LevelsP.

Local Open Scope Q_scope.

Lemma q_inside_iff p x : inside Qltb p x <-> fst p <= x /\ x <= snd p.
Proof. unfold inside. rewrite !Qltb_false. tauto. Qed.

Lemma q_wf_iff p : wf Qltb p <-> fst p <= snd p.
Proof. unfold wf. apply Qltb_false. Qed.

Lemma q_mid_inside p : wf Qltb p -> inside Qltb p (q_mid p).
Proof.
  rewrite q_wf_iff, q_inside_iff. unfold q_mid. intros H.
  split; [apply Qle_shift_div_l | apply Qle_shift_div_r]; lra.
Qed.

(* LHS / Halton: a point of the unit interval is mapped between the bounds *)
Lemma scale_coord_inside p w : wf Qltb p -> 0 <= w -> w <= 1 -> inside Qltb p (scale_coord p w).
Proof.
  rewrite q_wf_iff, q_inside_iff. unfold scale_coord. intros H W0 W1.
  rewrite Qabs_pos by lra.
  assert (A : 0 <= w * (snd p - fst p)) by (apply Qmult_le_0_compat; lra).
  assert (B : w * (snd p - fst p) <= 1 * (snd p - fst p)) by (apply Qmult_le_compat_r; lra).
  split; lra.
Qed.

Definition unit_row (w : list Q) : Prop := Forall (fun x => 0 <= x /\ x <= 1) w.

Lemma scale_row_in_box : forall ps w r,
  Forall (wf Qltb) ps -> unit_row w -> length w = length ps ->
  scale_row ps w = Some r -> in_box Qltb ps r.
Proof.
  induction ps as [|p ps IH]; intros w r W U L HS.
  - destruct w; [|discriminate]. inversion HS; subst. constructor.
  - destruct w as [|x w]; [discriminate|]. cbn in HS.
    destruct (scale_row ps w) as [r'|] eqn:E; [|discriminate]. inversion HS; subst.
    inversion W as [|? ? Wp W']; subst. inversion U as [|? ? [U0 U1] U']; subst.
    constructor; [apply scale_coord_inside; assumption|].
    eapply IH; [exact W'|exact U'| |exact E]. cbn in L. congruence.
Qed.

Theorem scaled_design_in_box : forall ps x rows,
  Forall (wf Qltb) ps -> Forall (fun w => unit_row w /\ length w = length ps) x ->
  scale_rows ps x = Some rows -> length rows = length x /\ Forall (in_box Qltb ps) rows.
Proof.
  intros ps. induction x as [|w x IH]; intros rows W HX HS; cbn in HS.
  - inversion HS; subst. split; [reflexivity|constructor].
  - destruct (scale_row ps w) as [r|] eqn:E; [|discriminate].
    destruct (scale_rows ps x) as [rs|] eqn:E'; [|discriminate]. inversion HS; subst.
    inversion HX as [|? ? [U L] HX']; subst. destruct (IH _ W HX' eq_refl) as [Ln F].
    split; [cbn; congruence|]. constructor; [|exact F]. eapply scale_row_in_box; eassumption.
Qed.

(* UniformGenerator: the equidistant levels lb + i * (ub - lb) / (number - 1), i < number *)
Lemma grid_level_inside p number i : wf Qltb p -> (2 <= number)%nat -> (i < number)%nat ->
  inside Qltb p (grid_level p number i).
Proof.
  rewrite q_wf_iff, q_inside_iff. unfold grid_level. intros H N I.
  set (n1 := inject_Z (Z.of_nat number) - 1). set (k := inject_Z (Z.of_nat i)).
  assert (N1 : 0 < n1).
  { unfold n1. assert (2 <= inject_Z (Z.of_nat number)).
    { change 2 with (inject_Z 2). rewrite <- Zle_Qle. lia. } lra. }
  assert (K0 : 0 <= k) by (unfold k; change 0 with (inject_Z 0); rewrite <- Zle_Qle; lia).
  assert (K1 : k <= n1).
  { assert (inject_Z (Z.of_nat i) + 1 <= inject_Z (Z.of_nat number)).
    { change 1 with (inject_Z 1). rewrite <- inject_Z_plus, <- Zle_Qle. lia. }
    unfold k, n1. lra. }
  assert (E : k * ((snd p - fst p) / n1) == (k / n1) * (snd p - fst p)) by (field; lra).
  rewrite E.
  assert (F0 : 0 <= k / n1) by (apply Qle_shift_div_l; lra).
  assert (F1 : k / n1 <= 1) by (apply Qle_shift_div_r; lra).
  assert (A : 0 <= (k / n1) * (snd p - fst p)) by (apply Qmult_le_0_compat; lra).
  assert (B : (k / n1) * (snd p - fst p) <= 1 * (snd p - fst p)) by (apply Qmult_le_compat_r; lra).
  split; lra.
Qed.

Lemma grid_levels_inside number p : wf Qltb p -> (2 <= number)%nat -> Forall (inside Qltb p) (grid_levels number p).
Proof.
  intros W N. unfold grid_levels. apply Forall_forall. intros x Hx. apply in_map_iff in Hx.
  destruct Hx as (i & <- & Hi). apply in_seq in Hi. apply grid_level_inside; [exact W|exact N|lia].
Qed.

Theorem uniform_grid_in_box number ps x rows :
  Forall (wf Qltb) ps -> (2 <= number)%nat -> Forall (fun row => length row = length ps) x ->
  construct_df (map (grid_levels number) ps) x = Some rows -> length rows = length x /\ Forall (in_box Qltb ps) rows.
Proof.
  intros W N. apply (construct_df_in_box Qltb). apply levels_ok_map. intros p Hp. apply grid_levels_inside; [|exact N].
  rewrite Forall_forall in W. apply W. exact Hp.
Qed.

(* --- gen_vector composed with the run-level theorems (exact rationals) -------------------------------------- *)
Definition q_box (qp : list (Q * Q * Q)) : list (Q * Q) := map (fun t => (fst (fst t), snd (fst t))) qp.
Definition q_outer (qp : list (Q * Q * Q)) : list (Q * Q) :=
  map (fun t => (fst (fst t) - effective_precision (snd t) / 2, snd (fst t) + effective_precision (snd t) / 2)) qp.

Lemma q_boxes qp : Forall q_wf qp -> boxes Qltb (q_box qp) (q_outer qp).
Proof.
  induction 1 as [|[[lb ub] p] qp [Hb Hp] _ IH]; constructor; [|exact IH].
  pose proof (effective_precision_pos p Hp) as E. cbn [fst snd].
  split; [apply q_wf_iff; exact Hb|]. split; cbn [fst snd]; apply Qltb_false.
  - apply Qle_trans with (lb - 0); [|lra]. apply Qplus_le_r. apply Qopp_le_compat. apply Qle_shift_div_l; lra.
  - apply Qle_trans with (ub + 0); [lra|]. apply Qplus_le_r. apply Qle_shift_div_l; lra.
Qed.

Lemma q_inside_outer qp v : Forall2 q_inside qp v <-> in_box Qltb (q_outer qp) v.
Proof.
  split.
  - induction 1 as [|[[lb ub] p] x qp v H _ IH]; constructor; [|exact IH].
    apply q_inside_iff. exact H.
  - revert v. induction qp as [|[[lb ub] p] qp IH]; intros v H; inversion H as [|? x ? v' Hx H']; subst; constructor.
    + apply q_inside_iff in Hx. exact Hx.
    + apply IH. exact H'.
Qed.

(* v is an output of gen_vector for some draws in [0, 1) *)
Definition generated (qp : list (Q * Q * Q)) (v : list Q) : Prop :=
  exists draws, Forall (fun r => 0 <= r /\ r < 1) draws /\ gen_vector qp draws = Some v.

Lemma generated_ok qp v : Forall q_wf qp -> generated qp v -> okv Qltb (q_outer qp) v.
Proof.
  intros W (draws & D & G). apply q_inside_outer. exact (proj2 (gen_vector_in_box _ _ _ W D G)).
Qed.

Lemma generated_okl qp l : Forall q_wf qp -> Forall (generated qp) l -> okl Qltb (q_outer qp) l.
Proof. intros W. apply Forall_impl. intros v. apply generated_ok. exact W. Qed.

Definition rerolls_generated (qp : list (Q * Q * Q)) (rr : list (list (list Q))) : Prop :=
  Forall (Forall (generated qp)) rr.
Definition script_generated (qp : list (Q * Q * Q)) (s : script (T:=Q)) : Prop :=
  rerolls_generated qp (s_rerolls s) /\ rerolls_generated qp (s_rerolls2 s).
(* every evaluated design is within half a (declared or default) precision step of the box *)
Definition designs_in_box (qp : list (Q * Q * Q)) (sub : list (list Q)) : Prop := Forall (Forall2 q_inside qp) sub.

Lemma rerolls_ok qp rr : Forall q_wf qp -> rerolls_generated qp rr -> Forall (okl Qltb (q_outer qp)) rr.
Proof. intros W. apply Forall_impl. intros l. apply generated_okl. exact W. Qed.

Lemma scripts_ok qp ss : Forall q_wf qp -> Forall (script_generated qp) ss -> Forall (script_ok Qltb (q_outer qp)) ss.
Proof. intros W. apply Forall_impl. intros s [A B]. split; apply rerolls_ok; assumption. Qed.

Lemma okl_designs qp sub : okl Qltb (q_outer qp) sub -> designs_in_box qp sub.
Proof. apply Forall_impl. intros v. apply q_inside_outer. Qed.

Section QRuns.
  Variable far : Q -> Q -> bool.
  Variable half : Q.
  Variable flip damp : Q -> Q.
  Variable close : Q -> Q -> bool.
  Variable qp : list (Q * Q * Q).
  Hypothesis W : Forall q_wf qp.

  Theorem q_run_nsga2 N pc pm pop0 rr0 ss sub pop :
    Forall (generated qp) pop0 -> rerolls_generated qp rr0 -> Forall (script_generated qp) ss ->
    run_nsga2 Qltb far half close (q_box qp) N pc pm pop0 rr0 ss = Some (sub, pop) -> designs_in_box qp sub.
  Proof.
    intros H0 HR HS HRun. apply okl_designs.
    exact (proj1 (run_in_box_nsga2 Qltb Qltb_SWO far half close _ _ (q_boxes qp W) N pc pm _ _ _ _ _
                    (generated_okl _ _ W H0) (rerolls_ok _ _ W HR) (scripts_ok _ _ W HS) HRun)).
  Qed.

  Theorem q_run_epsmoea N pc pm arch0 pop0 rr0 ss sub st :
    Forall (generated qp) pop0 -> rerolls_generated qp rr0 -> Forall (script_generated qp) ss ->
    run_epsmoea Qltb far half close (q_box qp) N pc pm arch0 pop0 rr0 ss = Some (sub, st) -> designs_in_box qp sub.
  Proof.
    intros H0 HR HS HRun. apply okl_designs.
    exact (proj1 (run_in_box_epsmoea Qltb Qltb_SWO far half close _ _ (q_boxes qp W) N pc pm _ _ _ _ _ _
                    (generated_okl _ _ W H0) (rerolls_ok _ _ W HR) (scripts_ok _ _ W HS) HRun)).
  Qed.

  Theorem q_run_omopso prob pop0 rr0 ss sub pop :
    Forall (generated qp) pop0 -> rerolls_generated qp rr0 -> Forall (script_generated qp) ss ->
    run_omopso Qltb Qplus flip (q_box qp) prob pop0 rr0 ss = Some (sub, pop) -> designs_in_box qp sub.
  Proof.
    intros H0 HR HS HRun. apply okl_designs.
    exact (proj1 (run_in_box_omopso Qltb Qltb_SWO Qplus flip _ _ (q_boxes qp W) prob _ _ _ _ _
                    (generated_okl _ _ W H0) (rerolls_ok _ _ W HR) (scripts_ok _ _ W HS) HRun)).
  Qed.

  Theorem q_run_smpso prob pop0 rr0 ss sub pop :
    Forall (generated qp) pop0 -> rerolls_generated qp rr0 -> Forall (script_generated qp) ss ->
    run_smpso Qltb Qplus damp (q_box qp) prob pop0 rr0 ss = Some (sub, pop) -> designs_in_box qp sub.
  Proof.
    intros H0 HR HS HRun. apply okl_designs.
    exact (proj1 (run_in_box_smpso Qltb Qltb_SWO Qplus damp _ _ (q_boxes qp W) prob _ _ _ _ _
                    (generated_okl _ _ W H0) (rerolls_ok _ _ W HR) (scripts_ok _ _ W HS) HRun)).
  Qed.

  Theorem q_run_psoga pc pm pop0 rr0 ss sub pop :
    Forall (generated qp) pop0 -> rerolls_generated qp rr0 -> Forall (script_generated qp) ss ->
    run_psoga Qltb far half Qplus flip (q_box qp) pc pm pop0 rr0 ss = Some (sub, pop) -> designs_in_box qp sub.
  Proof.
    intros H0 HR HS HRun. apply okl_designs.
    exact (proj1 (run_in_box_psoga Qltb Qltb_SWO far half Qplus flip _ _ (q_boxes qp W) pc pm _ _ _ _ _
                    (generated_okl _ _ W H0) (rerolls_ok _ _ W HR) (scripts_ok _ _ W HS) HRun)).
  Qed.
End QRuns.
