(* C15 - proofs, group B (by hand, no Interval): ModifiedEasom (after fix F4) and EqualityConstr (after fix F3,
   through  prod a_i <= exp (sum (a_i - 1))  with a_i = n c_i^2).  Every dimension, every point of the box. *)
From Coq Require Import Reals List Lia Lra Psatz.
From Artap Require Import Model.Bench Proofs.BenchLemmas.
Import ListNotations.
Local Open Scope R_scope.

(* ---------------------------------------------------------------- ModifiedEasom *)
Lemma cos2_01 : forall c, 0 <= cos c ^ 2 <= 1.
Proof. intros c. pose proof (COS_bound c). pose proof (pow2_ge_0 (cos c)). nra. Qed.

Lemma easom_lower : forall x, -1 <= easom x.
Proof.
  intros x. unfold easom.
  pose proof (prod_map_01 (fun c => cos c ^ 2) x cos2_01) as [P0 P1].
  assert (0 <= sum_map (fun c => (c - PI) ^ 2) x) as S0 by (apply sum_map_nonneg; intros c; apply pow2_ge_0).
  pose proof (exp_pos (- sum_map (fun c => (c - PI) ^ 2) x)) as E0.
  assert (exp (- sum_map (fun c => (c - PI) ^ 2) x) <= 1) as E1 by (apply exp_le_1; lra).
  nra.
Qed.

Lemma easom_opt_exact : forall n, easom (repeat PI n) = -1.
Proof.
  intros n. unfold easom. rewrite prod_map_repeat, sum_map_repeat, cos_PI.
  replace ((-1) ^ 2) with 1 by ring. rewrite pow1.
  replace (- (INR n * (PI - PI) ^ 2)) with 0 by ring. rewrite exp_0. ring.
Qed.

Lemma easom_opt_value : opt_value_stmt easom_b.
Proof.
  intros n Hn. simpl. pose proof PI_RGT_0.
  split; [apply in_boxes_cube_repeat; lra | apply value_exact, easom_opt_exact].
Qed.

Lemma easom_opt_bound : opt_bound_stmt easom_b.
Proof. intros n x Hn Hx. simpl. apply nb_min, easom_lower. Qed.

(* ---------------------------------------------------------------- EqualityConstr *)
(* sqrt argument of the formula *)
Lemma eqconstr_well_defined : forall x : list R, 0 <= dimR x.
Proof. intros x. apply pos_INR. Qed.

Lemma prod_map_sq : forall f x, prod_map f x ^ 2 = prod_map (fun c => f c ^ 2) x.
Proof. intros f x. induction x; cbn [prod_map]; [ring | rewrite <- IHx; ring]. Qed.

(* prod a_i <= exp (sum (a_i - 1)) for non-negative a_i *)
Lemma prod_le_exp_sum : forall f x, Forall (fun c => 0 <= f c) x ->
  prod_map f x <= exp (sum_map (fun c => f c - 1) x).
Proof.
  intros f x F. induction F as [|c t Hc Ft IH]; simpl.
  - rewrite exp_0. lra.
  - rewrite exp_plus. pose proof (exp_ineq1_le (f c - 1)) as E.
    pose proof (prod_map_nonneg f t Ft) as P0.
    apply Rmult_le_compat; lra.
Qed.

Lemma sum_map_scaled : forall k x, sum_map (fun c => k * (c * c) - 1) x = k * eqc_sum x - dimR x.
Proof.
  intros k x. unfold eqc_sum, dimR. induction x as [|c t IH].
  - simpl. ring.
  - change (length (c :: t)) with (S (length t)). rewrite S_INR. simpl. rewrite IH. ring.
Qed.

Lemma exp_small : exp (1 / 1000) <= 1002 / 1000.
Proof.
  pose proof (exp_ineq1_le (- (1 / 1000))) as E. rewrite exp_Ropp in E.
  pose proof (exp_pos (1 / 1000)) as P.
  assert (999 / 1000 * exp (1 / 1000) <= 1) as Q.
  { apply Rmult_le_reg_r with (/ exp (1 / 1000)); [apply Rinv_0_lt_compat; exact P |].
    rewrite Rmult_assoc, Rinv_r by lra. lra. }
  lra.
Qed.

Lemma eqc_prod_upper : forall x, in_box 0 1 x -> INR (length x) <= 1000000 ->
  eqc_sum x - 1 <= eqc_atol -> eqc_prod x <= 1 + tol.
Proof.
  intros x Hb Hn Hs. unfold eqc_prod. set (s := sqrt (dimR x)).
  assert (0 <= dimR x) as D0 by apply pos_INR.
  assert (s * s = dimR x) as Ss by (apply sqrt_sqrt; exact D0).
  assert (0 <= s) as S0 by apply sqrt_pos.
  assert (Forall (fun c => 0 <= c * s) x) as F1.
  { unfold in_box in Hb. eapply Forall_impl; [| exact Hb]. intros c [C0 _]. simpl. apply Rmult_le_pos; assumption. }
  pose proof (prod_map_nonneg (fun c => c * s) x F1) as P0.
  assert (prod_map (fun c => c * s) x ^ 2 <= 1002 / 1000) as P2.
  { rewrite prod_map_sq.
    assert (Forall (fun c => 0 <= (c * s) ^ 2) x) as F2 by (apply Forall_forall; intros c _; apply pow2_ge_0).
    eapply Rle_trans; [apply prod_le_exp_sum; exact F2 |].
    eapply Rle_trans; [| exact exp_small]. apply exp_le_mono.
    rewrite (sum_map_ext _ (fun c => dimR x * (c * c) - 1)) by (intros c; rewrite <- Ss; ring).
    rewrite sum_map_scaled. unfold eqc_atol in Hs. unfold dimR in *. nra. }
  unfold tol. nra.
Qed.

Lemma eqconstr_lower : forall x, in_box 0 1 x -> INR (length x) <= 1000000 -> -1 - tol <= eqconstr x.
Proof.
  intros x Hb Hn. unfold eqconstr. destruct (Rle_dec (Rabs (eqc_sum x - 1)) eqc_atol) as [L | NL].
  - pose proof (Rle_abs (eqc_sum x - 1)) as A.
    pose proof (eqc_prod_upper x Hb Hn ltac:(lra)). lra.
  - unfold tol. lra.
Qed.

Lemma eqconstr_opt_exact : forall n, (1 <= n)%nat -> eqconstr (repeat (1 / sqrt (INR n)) n) = -1.
Proof.
  intros n Hn.
  assert (0 < INR n) as P by (apply lt_0_INR; lia).
  pose proof (sqrt_lt_R0 _ P) as Sp. pose proof (sqrt_sqrt (INR n) ltac:(lra)) as Ss.
  unfold eqconstr, eqc_sum, eqc_prod, dimR. rewrite repeat_length, sum_map_repeat, prod_map_repeat.
  replace (INR n * (1 / sqrt (INR n) * (1 / sqrt (INR n)))) with 1.
  2:{ rewrite <- Ss at 1. field. lra. }
  replace (1 / sqrt (INR n) * sqrt (INR n)) with 1 by (field; lra). rewrite pow1.
  destruct (Rle_dec (Rabs (1 - 1)) eqc_atol) as [L | NL]; [ring |].
  exfalso. apply NL. unfold Rminus. rewrite Rplus_opp_r, Rabs_R0. unfold eqc_atol. lra.
Qed.

Lemma eqconstr_coords_in_box : forall n, (1 <= n)%nat -> 0 <= 1 / sqrt (INR n) <= 1.
Proof.
  intros n Hn.
  assert (1 <= INR n) as P by (change 1 with (INR 1); apply le_INR; exact Hn).
  assert (1 <= sqrt (INR n)) as S1 by (rewrite <- sqrt_1; apply sqrt_le_1; lra).
  split.
  - apply Rmult_le_pos; [lra | left; apply Rinv_0_lt_compat; lra].
  - apply Rmult_le_reg_r with (sqrt (INR n)); [lra |]. unfold Rdiv. rewrite Rmult_assoc, Rinv_l by lra. lra.
Qed.

Lemma eqconstr_opt_value : opt_value_stmt eqconstr_b.
Proof.
  intros n [Hn _]. simpl.
  split; [apply in_boxes_cube_repeat, eqconstr_coords_in_box; exact Hn | apply value_exact, eqconstr_opt_exact; exact Hn].
Qed.

Lemma eqconstr_opt_bound : opt_bound_stmt eqconstr_b.
Proof.
  intros n x [Hn Hm] Hx. simpl in *. apply in_boxes_cube in Hx. destruct Hx as [L Hb]. subst n.
  apply nb_min_tol. replace (-1 - tol) with (-1 - tol) by reflexivity. apply eqconstr_lower; assumption.
Qed.

(* ---------------------------------------------------------------- the two formulas before their fixes (F4, F3)
   violate the clauses: kept as machine-checked refutations of the pre-fix code *)
(* F4: product = -1; for c in x: product *= -1. * cos(c) ** 2. *)
Definition easom_prefix (x : list R) : R :=
  (-1 * prod_map (fun c => -1 * cos c ^ 2) x) * exp (- sum_map (fun c => (c - PI) ^ 2) x).

Lemma easom_prefix_refuted : exists n, (1 <= n)%nat /\ ~ Rabs (easom_prefix (repeat PI n) - (-1)) <= tol.
Proof.
  exists 1%nat. split; [lia |]. unfold easom_prefix. cbn [repeat prod_map sum_map]. rewrite cos_PI.
  replace (- ((PI - PI) ^ 2 + 0)) with 0 by ring. rewrite exp_0.
  replace (-1 * (-1 * (-1) ^ 2 * 1) * 1 - -1) with 2 by ring.
  rewrite Rabs_pos_eq by lra. unfold tol. lra.
Qed.

(* F3: `if summa.any() == 1.` is true for every non-zero numpy sum: the constraint is not applied *)
Definition eqconstr_prefix (x : list R) : R :=
  if Req_EM_T (eqc_sum x) 0 then 0 else -1 * eqc_prod x.

Lemma eqconstr_prefix_refuted : exists x, in_boxes (cube 0 1 2) x /\ ~ not_better Minimize (-1) (eqconstr_prefix x).
Proof.
  exists [1; 1]. split; [apply (in_boxes_cube_repeat 0 1 1 2); lra |].
  unfold eqconstr_prefix, eqc_sum, eqc_prod, dimR. cbn [sum_map prod_map length].
  destruct (Req_EM_T (1 * 1 + (1 * 1 + 0)) 0) as [E | NE]; [exfalso; lra |].
  replace (INR 2) with 2 by (simpl; ring).
  replace (-1 * (1 * sqrt 2 * (1 * sqrt 2 * 1))) with (- (sqrt 2 * sqrt 2)) by ring.
  rewrite sqrt_sqrt by lra. unfold not_better, tol. lra.
Qed.
