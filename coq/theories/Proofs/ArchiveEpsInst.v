(* The epsilon comparator satisfies the laws the archive refinement needs, over any finite
   universe U of offered individuals whose cost vectors are pairwise separated (C01's eps_agrees
   hypothesis: coordinates that differ stay strictly ordered after scaling) - then it decides
   exactly like the Pareto comparator, except on identical vectors, where it names the newcomer
   as the loser (tie-break distances are oracle values, one per individual, equal for equal vectors). *)
From Coq Require Import List Arith Bool ZArith Lia Permutation.
From Artap Require Import Base.Ord Model.Dominance Proofs.DominanceProofs Model.Archive Proofs.ArchiveProofs
  Proofs.ArchiveParetoInst.
Import ListNotations.

Section EpsInst.
  Context {T : Type} (ltb : T -> T -> bool) (H : SWO ltb).
  Variable m : nat.                                   (* number of objectives *)
  Variable sc : nat -> T -> T.                        (* scaling of coordinate i: x / eps_(i mod k) *)
  Variable dist : @aind T -> T.                       (* tie-break sum of an individual: oracle (math.pow) *)

  Definition ecmp (x y : @aind T) : nat :=
    eps_compare ltb sc (dist x) (dist y) (acost x) (acost y).

  (* the offered individuals *)
  Variable U : list (@aind T).
  Definition ewf (x : @aind T) : Prop := In x U.
  Hypothesis U_len : forall x, In x U -> awf m x.
  Hypothesis U_sep : forall x y, In x U -> In y U -> separated ltb sc (fst (acost x)) (fst (acost y)).
  (* markers of equal magnitude are equal (they are the booleans `not feasible` in artap) *)
  Hypothesis U_marker : forall x y, In x U -> In y U ->
    Z.abs (snd (acost x)) = Z.abs (snd (acost y)) -> snd (acost x) = snd (acost y).
  (* the tie-break oracle does not prefer one of two equal cost vectors *)
  Hypothesis U_tie : forall x y, In x U -> In y U -> aceq ltb x y = true -> ltb (dist x) (dist y) = false.

  Lemma nobetter_eqv : forall p q : list T, length p = length q ->
    better ltb p q = false -> better ltb q p = false -> list_eqv ltb p q = true.
  Proof.
    induction p as [|a p IH]; intros [|b q] L B1 B2; cbn in *; try discriminate; [reflexivity|].
    apply orb_false_elim in B1 as [A1 A2]. apply orb_false_elim in B2 as [A3 A4].
    unfold eqv. rewrite A1, A3. cbn. apply IH; auto.
  Qed.

  (* on U the epsilon verdict is the Pareto verdict, or 2 on equal cost vectors *)
  Lemma ecmp_cases x y : In x U -> In y U ->
    (ecmp x y = acmp ltb x y /\ aceq ltb x y = false) \/ (ecmp x y = 2 /\ aceq ltb x y = true).
  Proof.
    intros Ux Uy. pose proof (U_len x Ux) as Lx. pose proof (U_len y Uy) as Ly.
    pose proof (U_sep x y Ux Uy) as Sp. pose proof (U_marker x y Ux Uy) as Mk.
    pose proof (U_tie x y Ux Uy) as Tie.
    unfold ecmp, acmp, aceq, awf in *. destruct x as [i [p pm]], y as [j [q qm]]; cbn [acost fst snd] in *.
    destruct (better ltb p q) eqn:B1; [left; split; [apply (eps_agrees ltb H); auto|]|].
    { destruct (list_eqv ltb p q) eqn:E; [|reflexivity].
      rewrite (better_eqv_l ltb H p q q E), (better_irrefl ltb H) in B1. discriminate. }
    destruct (better ltb q p) eqn:B2; [left; split; [apply (eps_agrees ltb H); auto|]|].
    { destruct (list_eqv ltb p q) eqn:E; [|reflexivity].
      rewrite (better_eqv_r ltb H p q q E), (better_irrefl ltb H) in B2. discriminate. }
    destruct (Z.eq_dec (Z.abs pm) (Z.abs qm)) as [A|A].
    - right. specialize (Mk A). subst qm.
      assert (E : list_eqv ltb p q = true) by (apply nobetter_eqv; congruence).
      rewrite E, Z.eqb_refl. split; [|reflexivity].
      unfold eps_compare; cbn [fst snd].
      rewrite marker_verdict_lex, Z.ltb_irrefl, (escan_spec ltb H) by reflexivity. cbn [orb].
      rewrite (ebetter_better ltb H sc p q 0 Sp), (ebetter_better ltb H sc q p 0 (separated_sym ltb sc 0 p q Sp)).
      rewrite B1, B2. cbn. rewrite Tie; [reflexivity|]. rewrite E, Z.eqb_refl. reflexivity.
    - left. split; [apply (eps_agrees ltb H); auto|].
      destruct (Z.eqb pm qm) eqn:E; [apply Z.eqb_eq in E; subst; congruence|]. apply andb_false_r.
  Qed.

  Theorem eps_arch_laws : ArchLaws ecmp (aceq ltb) (adom ltb) ewf.
  Proof.
    pose proof (pareto_arch_laws ltb H m) as P.
    constructor.
    - intros x Ux. apply (al_dom_irrefl _ _ _ _ P). auto.
    - intros x y z Ux Uy Uz. apply (al_dom_trans _ _ _ _ P); auto.
    - intros x Ux. apply (al_ceq_refl _ _ _ _ P). auto.
    - intros x y Ux Uy. apply (al_ceq_sym _ _ _ _ P); auto.
    - intros x y z Ux Uy Uz. apply (al_ceq_trans _ _ _ _ P); auto.
    - intros x x' y Ux Ux' Uy. apply (al_dom_ceq_l _ _ _ _ P); auto.
    - intros x y y' Ux Uy Uy'. apply (al_dom_ceq_r _ _ _ _ P); auto.
    - intros x y Ux Uy. unfold kills. destruct (ecmp_cases x y Ux Uy) as [[E _]|[E Q]]; rewrite E.
      + reflexivity.
      + unfold adom. rewrite (aceq_cmp0 ltb H x y Q). reflexivity.
    - intros x y Ux Uy. destruct (ecmp_cases x y Ux Uy) as [[E _]|[E Q]].
      + rewrite <- (acmp_stops ltb H x y). unfold stops. rewrite E. reflexivity.
      + unfold stops. rewrite E, Q. symmetry. apply orb_true_r.
  Qed.

  (* hence, for a history xs = U: the archive is exactly the set of Pareto-maximal offered vectors *)
  Theorem eps_history : let a := archive_adds ecmp (aceq ltb) [] U in
    Inv (aceq ltb) (adom ltb) ewf a /\ incl a U /\
    forall c, In c U -> ((exists y, In y a /\ aceq ltb y c = true) <-> maximal (aceq ltb) (adom ltb) U c).
  Proof.
    apply (history_is_maximal_set ecmp (aceq ltb) (adom ltb) ewf eps_arch_laws U).
    apply Forall_forall. intros x Hx. exact Hx.
  Qed.
End EpsInst.

(* a scaling that is strictly monotone and maps equivalent values to equivalent values separates everything *)
Lemma separated_monotone {T : Type} (ltb : T -> T -> bool) (sc : nat -> T -> T) :
  (forall i a b, ltb a b = true -> ltb (sc i a) (sc i b) = true) ->
  (forall i a b, ltb a b = false -> ltb b a = false -> ltb (sc i a) (sc i b) = false) ->
  forall p q, separated ltb sc p q.
Proof.
  intros M E p q i a b _ _. repeat split; auto.
Qed.
