(* C04 - the archive holds exactly the non-dominated set of everything ever offered. *)
From Coq Require Import List Arith Bool ZArith Permutation.
From Artap Require Import Base.Ord Base.FloatInst Base.QInst Base.StableSort Model.Dominance Model.Archive
  Proofs.DominanceProofs Proofs.ArchiveProofs Proofs.ArchiveParetoInst Proofs.ArchiveEpsInst Proofs.ArchiveExtra.
Import ListNotations.

(* --- for every comparator satisfying the laws (ArchLaws) ------------------------------- *)
Section C04_generic.
  Context {C : Type} (cmp : C -> C -> nat) (ceq : C -> C -> bool).
  Variables (dom : C -> C -> bool) (wf : C -> Prop).
  Hypothesis L : ArchLaws cmp ceq dom wf.

  (* one addition, as a function of the set-level test "some member dominates or equals x" *)
  Theorem C04_add_refines : forall a x, Inv ceq dom wf a -> wf x ->
    (existsb (fun y => dom y x || ceq x y) a = true -> archive_add cmp ceq a x = (a, false)) /\
    (existsb (fun y => dom y x || ceq x y) a = false ->
       archive_add cmp ceq a x = (filter (fun y => negb (dom x y)) a ++ [x], true)) /\
    Inv ceq dom wf (fst (archive_add cmp ceq a x)).
  Proof. exact (add_refines cmp ceq dom wf L). Qed.

  (* success is reported exactly when the solution was inserted *)
  Theorem C04_add_reports : forall a x, Inv ceq dom wf a -> wf x ->
    forall a' ok, archive_add cmp ceq a x = (a', ok) ->
      (ok = true -> exists kept, a' = kept ++ [x] /\ kept = filter (fun y => negb (dom x y)) a) /\
      (ok = false -> a' = a /\ exists y, In y a /\ covers ceq dom y x).
  Proof. exact (add_reports cmp ceq dom wf L). Qed.

  (* after any history: exactly the maximal offered cost vectors, one representative each *)
  Theorem C04_history_is_maximal_set : forall xs, Forall wf xs ->
    let a := archive_adds cmp ceq [] xs in
    Inv ceq dom wf a /\ incl a xs /\
    forall c, wf c -> ((exists y, In y a /\ ceq y c = true) <-> maximal ceq dom xs c).
  Proof. exact (history_is_maximal_set cmp ceq dom wf L). Qed.

  Theorem C04_members_mutually_nondominated : forall xs, Forall wf xs ->
    pairwise (fun y z => dom y z = false /\ dom z y = false) (archive_adds cmp ceq [] xs).
  Proof. exact (members_mutually_nondominated cmp ceq dom wf L). Qed.

  Theorem C04_rejected_or_evicted_is_covered : forall xs, Forall wf xs ->
    forall x, In x xs -> exists y, In y (archive_adds cmp ceq [] xs) /\ covers ceq dom y x.
  Proof. exact (rejected_or_evicted_is_covered cmp ceq dom wf L). Qed.

  Theorem C04_order_independent : forall xs ys, Forall wf xs -> Permutation xs ys ->
    forall c, wf c -> ((exists y, In y (archive_adds cmp ceq [] xs) /\ ceq y c = true) <->
                       (exists y, In y (archive_adds cmp ceq [] ys) /\ ceq y c = true)).
  Proof. exact (order_independent cmp ceq dom wf L). Qed.

  (* Archive.remove deletes the first member equal to the solution; the invariant survives *)
  Theorem C04_remove_keeps_invariant : forall (ieq : C -> C -> bool) a s,
    Inv ceq dom wf a -> Inv ceq dom wf (fst (archive_remove ieq a s)).
  Proof. exact (fun ieq => remove_keeps_invariant ieq ceq dom wf). Qed.
End C04_generic.

(* --- the Pareto comparator of C01 satisfies the laws, for any strictly-weakly-ordered cost type --- *)
Theorem C04_pareto_laws : forall {T} (ltb : T -> T -> bool), SWO ltb -> forall m,
  ArchLaws (acmp ltb) (aceq ltb) (adom ltb) (awf m).
Proof. exact (@pareto_arch_laws). Qed.

(* --- so does the epsilon comparator, over offered vectors U that are pairwise separated (C01's eps_agrees
   hypothesis), have canonical markers, and a tie-break oracle that does not prefer one of two equal vectors;
   dom is the Pareto dominance, so the conclusions are about the true non-dominated set --- *)
Theorem C04_eps_laws : forall {T} (ltb : T -> T -> bool), SWO ltb -> forall m sc dist (U : list (@aind T)),
  (forall x, In x U -> awf m x) ->
  (forall x y, In x U -> In y U -> separated ltb sc (fst (acost x)) (fst (acost y))) ->
  (forall x y, In x U -> In y U -> Z.abs (snd (acost x)) = Z.abs (snd (acost y)) -> snd (acost x) = snd (acost y)) ->
  (forall x y, In x U -> In y U -> aceq ltb x y = true -> ltb (dist x) (dist y) = false) ->
  ArchLaws (ecmp ltb sc dist) (aceq ltb) (adom ltb) (ewf U).
Proof. exact (@eps_arch_laws). Qed.

(* hence, for binary64 costs compared with Python's `<` *)
Theorem C04_float_history : forall m xs, Forall (awf m) xs ->
  let a := archive_adds (acmp fltb) (aceq fltb) [] xs in
  Inv (aceq fltb) (adom fltb) (awf m) a /\ incl a xs /\
  forall c, awf m c -> ((exists y, In y a /\ aceq fltb y c = true) <-> maximal (aceq fltb) (adom fltb) xs c).
Proof. exact (fun m => history_is_maximal_set _ _ _ _ (pareto_arch_laws fltb fltb_SWO m)). Qed.

Theorem C04_float_eps_history : forall m sc dist (xs : list (@aind PrimFloat.float)),
  (forall x, In x xs -> awf m x) ->
  (forall x y, In x xs -> In y xs -> separated fltb sc (fst (acost x)) (fst (acost y))) ->
  (forall x y, In x xs -> In y xs -> Z.abs (snd (acost x)) = Z.abs (snd (acost y)) -> snd (acost x) = snd (acost y)) ->
  (forall x y, In x xs -> In y xs -> aceq fltb x y = true -> fltb (dist x) (dist y) = false) ->
  let a := archive_adds (ecmp fltb sc dist) (aceq fltb) [] xs in
  Inv (aceq fltb) (adom fltb) (ewf xs) a /\ incl a xs /\
  forall c, In c xs -> ((exists y, In y a /\ aceq fltb y c = true) <-> maximal (aceq fltb) (adom fltb) xs c).
Proof. exact (eps_history fltb fltb_SWO). Qed.

(* --- truncate keeps the members with the largest feature value --- *)
Theorem C04_truncate_keeps_largest : forall {C} (key_leb : C -> C -> bool),
  (forall x y, key_leb x y = true \/ key_leb y x = true) ->
  (forall x y z, key_leb x y = true -> key_leb y z = true -> key_leb x z = true) ->
  forall a size,
    let r := rev (ssort key_leb a) in
    archive_truncate key_leb a size true = firstn size r /\
    Permutation (firstn size r ++ skipn size r) a /\
    length (firstn size r) = Nat.min size (length a) /\
    forall kept dropped, In kept (firstn size r) -> In dropped (skipn size r) -> key_leb dropped kept = true.
Proof. exact (@truncate_keeps_largest). Qed.

(* with the feature compared by Python's `<` on binary64: nothing kept has a smaller feature than anything dropped *)
Theorem C04_truncate_float : forall {C} (feat : C -> PrimFloat.float) a size,
  let t := archive_truncate (key_leb_of fltb feat) a size true in
  exists dropped, Permutation (t ++ dropped) a /\ length t = Nat.min size (length a) /\
    forall k d, In k t -> In d dropped -> fltb (feat k) (feat d) = false.
Proof. exact (fun C => truncate_keeps_largest_key fltb fltb_SWO). Qed.

Print Assumptions C04_add_refines.
Print Assumptions C04_add_reports.
Print Assumptions C04_history_is_maximal_set.
Print Assumptions C04_members_mutually_nondominated.
Print Assumptions C04_rejected_or_evicted_is_covered.
Print Assumptions C04_order_independent.
Print Assumptions C04_remove_keeps_invariant.
Print Assumptions C04_pareto_laws.
Print Assumptions C04_eps_laws.
Print Assumptions C04_float_history.
Print Assumptions C04_float_eps_history.
Print Assumptions C04_truncate_keeps_largest.
Print Assumptions C04_truncate_float.

(* non-vacuity: a concrete history over integer costs meets the hypotheses and evicts/rejects *)
Example C04_ex_history :
  let xs : list (@aind Z) :=
    [(0, ([3; 1]%Z, 1%Z)); (1, ([2; 2]%Z, 1%Z)); (2, ([1; 3]%Z, 1%Z)); (3, ([2; 2]%Z, 1%Z));
     (4, ([0; 4]%Z, 1%Z)); (5, ([1; 1]%Z, 1%Z)); (6, ([5; 5]%Z, 1%Z))] in
  Forall (awf 2) xs /\
  map fst (archive_adds (acmp Z.ltb) (aceq Z.ltb) [] xs) = [4; 5].
Proof. cbn zeta. split; [repeat constructor | vm_compute; reflexivity]. Qed.

(* the same history through the epsilon comparator (scaling x -> 2x, i.e. epsilon = 1/2) meets every hypothesis *)
Example C04_ex_eps_history :
  let sc := fun (_ : nat) (x : Z) => (2 * x)%Z in
  let dist := fun (_ : @aind Z) => 0%Z in
  let xs : list (@aind Z) :=
    [(0, ([3; 1]%Z, 1%Z)); (1, ([2; 2]%Z, 1%Z)); (2, ([1; 3]%Z, 1%Z)); (3, ([2; 2]%Z, 1%Z));
     (4, ([0; 4]%Z, 1%Z)); (5, ([1; 1]%Z, 1%Z)); (6, ([5; 5]%Z, 1%Z))] in
  (forall x, In x xs -> awf 2 x) /\
  (forall x y, In x xs -> In y xs -> separated Z.ltb sc (fst (acost x)) (fst (acost y))) /\
  (forall x y, In x xs -> In y xs -> Z.abs (snd (acost x)) = Z.abs (snd (acost y)) -> snd (acost x) = snd (acost y)) /\
  (forall x y, In x xs -> In y xs -> aceq Z.ltb x y = true -> Z.ltb (dist x) (dist y) = false) /\
  map fst (archive_adds (ecmp Z.ltb sc dist) (aceq Z.ltb) [] xs) = [4; 5].
Proof.
  cbn zeta. split; [|split; [|split; [|split]]].
  - apply Forall_forall. repeat constructor.
  - intros x y _ _. apply separated_monotone.
    + intros _ a b E. apply Z.ltb_lt in E. apply Z.ltb_lt. apply Z.mul_lt_mono_pos_l; [reflexivity | exact E].
    + intros _ a b E _. apply Z.ltb_ge in E. apply Z.ltb_ge. apply Z.mul_le_mono_nonneg_l; [discriminate | exact E].
  - assert (M : Forall (fun x : @aind Z => snd (acost x) = 1%Z)
      [(0, ([3; 1]%Z, 1%Z)); (1, ([2; 2]%Z, 1%Z)); (2, ([1; 3]%Z, 1%Z)); (3, ([2; 2]%Z, 1%Z));
       (4, ([0; 4]%Z, 1%Z)); (5, ([1; 1]%Z, 1%Z)); (6, ([5; 5]%Z, 1%Z))]) by (repeat constructor).
    rewrite Forall_forall in M. intros x y Hx Hy _. rewrite (M x Hx), (M y Hy). reflexivity.
  - intros; reflexivity.
  - vm_compute. reflexivity.
Qed.

(* truncate: stable sort by the feature, reversed, first `size` *)
Example C04_ex_truncate :
  archive_truncate (key_leb_of Z.ltb (@snd nat Z)) [(0, 3%Z); (1, 1%Z); (2, 3%Z); (3, 2%Z)] 2 true = [(2, 3%Z); (0, 3%Z)].
Proof. vm_compute. reflexivity. Qed.
