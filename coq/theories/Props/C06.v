(* C06 - Transient evaluation failures are retried, logged and never recorded as results.
   Property theorems only; each is closed by `exact`, followed by Print Assumptions.
   Same model as C05 (Model/Job.v).  The objective is a fault schedule
       e_obj : call -> Ok costs | Transient (TimeoutError / RuntimeError) | Fatal kind (anything else)
   that may depend on the global call number, the design, the attempt and the vector; e_reroll is
   what VectorAndNumbers.gen_vector returns after a failed call.  All statements hold for every such
   schedule and oracle, every batch and every state.
   job_call e id n 0 v k  is the k-th call a job on design id makes when it starts at call number n
   with vector v and all earlier attempts failed transiently (the vector of attempt k+1 is the re-roll
   after attempt k). *)
From Coq Require Import List ZArith Bool Lia.
From Artap Require Import Model.Job Proofs.JobProofs.
Import ListNotations.
Local Open Scope nat_scope.

Section C06.
  Variable T : Type.
  Variable ltb : T -> T -> bool.
  Variable zero : T.
  Variable roundp : nat -> T -> T.
  Variable smul : bool -> T -> T.
  Notation job_evaluate := (job_evaluate ltb zero roundp smul).
  Notation evaluate_serial := (evaluate_serial ltb zero roundp smul).
  Notation reach := (reach T ltb zero roundp smul).

  (* at most five attempts per design, whatever its state: one Job.evaluate adds at most five
     objective calls, all for that design, and the failed list grows by the failed ones *)
  Theorem C06_attempts_le_5 : forall (e : env T) st id st' r,
    job_evaluate e st id = (st', r) ->
    exists cs, s_calls st' = s_calls st ++ cs /\ length cs <= 5 /\ Forall (fun c => c_id c = id) cs /\
               s_failed st' = s_failed st ++ failed_of e cs.
  Proof. exact (job_attempts_le_5 T ltb zero roundp smul). Qed.

  (* ... and over a whole batch, for every fault pattern and whether or not the batch raises *)
  Theorem C06_batch_attempts_le_5 : forall (e : env T) batch st st' r cs,
    evaluate_serial e st batch = (st', r) -> s_calls st' = s_calls st ++ cs ->
    forall id, length (calls_of id cs) <= 5.
  Proof. exact (serial_attempts_le_5 T ltb zero roundp smul). Qed.

  (* the complete protocol of one job on a design that is not yet evaluated: between one and five
     calls, the k-th of which is job_call k; the failed list grows by exactly the transiently failed
     vectors in order; only this design changes; and per result:
       Done         the last call succeeded, all earlier ones failed transiently, the design holds the
                    last call's vector and result and is EVALUATED, one sync
       Raised5      exactly five calls, all transient; design EMPTY, costs untouched, vector = the
                    fifth replacement; no sync
       RaisedFatal  the last call raised the fatal kind, earlier ones transient; design IN_PROGRESS
                    (not evaluated) with that call's vector; the fatal attempt adds nothing to failed *)
  Theorem C06_job_protocol : forall (e : env T) st id i st' r,
    nth_error (s_heap st) id = Some i -> istate i <> Evaluated -> job_evaluate e st id = (st', r) ->
    exists cs i',
      s_calls st' = s_calls st ++ cs /\ 1 <= length cs <= 5 /\
      (forall k c, nth_error cs k = Some c -> c = job_call e id (length (s_calls st)) 0 (ivec i) k) /\
      s_failed st' = s_failed st ++ failed_of e cs /\
      nth_error (s_heap st') id = Some i' /\
      (forall id', id' <> id -> nth_error (s_heap st') id' = nth_error (s_heap st) id') /\
      match r with
      | Done => exists pre c costs, cs = pre ++ [c] /\ all_transient e pre /\ e_obj e c = Ok costs /\
                 ivec i' = c_vec c /\ icosts i' = costs /\ istate i' = Evaluated /\
                 failed_of e cs = map (fun c => mk_failed (c_vec c)) pre /\
                 s_store st' = s_store st ++ [(id, i')]
      | Raised5 => length cs = 5 /\ all_transient e cs /\ istate i' = Empty /\ icosts i' = icosts i /\
                 (exists c, nth_error cs 4 = Some c /\ ivec i' = e_reroll e c) /\
                 failed_of e cs = map (fun c => mk_failed (c_vec c)) cs /\ s_store st' = s_store st
      | RaisedFatal k => exists pre c, cs = pre ++ [c] /\ all_transient e pre /\ e_obj e c = Fatal k /\
                 istate i' = InProgress /\ ivec i' = c_vec c /\ icosts i' = icosts i /\
                 failed_of e cs = map (fun c => mk_failed (c_vec c)) pre /\ s_store st' = s_store st
      end.
  Proof. exact (job_protocol T ltb zero roundp smul). Qed.

  (* over every history of evaluate / evaluate_scalar / sweep calls: problem.failed grows by exactly
     the vectors of the transiently failed attempts, in call order, each a FAILED design without costs *)
  Theorem C06_failed_log_exact : forall (e : env T) st0 st cs,
    reach e st0 st cs ->
    s_calls st = s_calls st0 ++ cs /\
    s_failed st = s_failed st0 ++ map (fun c => mk_failed (c_vec c)) (filter (tr_b e) cs) /\
    Forall (fun f => istate f = Failed /\ icosts f = [] /\ isigned f = None)
           (map (fun c => mk_failed (c_vec c)) (filter (tr_b e) cs)).
  Proof. exact (failed_log_exact T ltb zero roundp smul). Qed.

  (* after re-rolls the stored costs are the objective's result for the stored vector: the vector of
     the successful call, which is the original one or the replacement sampled after the last failure *)
  Theorem C06_stored_pair_after_reroll : forall (e : env T) st id i st',
    nth_error (s_heap st) id = Some i -> istate i <> Evaluated -> job_evaluate e st id = (st', Done) ->
    exists pre c costs i',
      s_calls st' = s_calls st ++ pre ++ [c] /\ all_transient e pre /\ e_obj e c = Ok costs /\
      c_vec c = match rev pre with [] => ivec i | p :: _ => e_reroll e p end /\
      nth_error (s_heap st') id = Some i' /\ ivec i' = c_vec c /\ icosts i' = costs /\ istate i' = Evaluated /\
      s_failed st' = s_failed st ++ map (fun c => mk_failed (c_vec c)) pre /\
      s_store st' = s_store st ++ [(id, i')].
  Proof. exact (stored_pair_after_reroll T ltb zero roundp smul). Qed.

  (* ... in every reachable state of every history, under every fault schedule (shared with C05) *)
  Theorem C06_stored_costs_belong_to_stored_vector : forall (e : env T) st0 st cs id i,
    reach e st0 st cs -> nth_error (s_heap st) id = Some i -> istate i = Evaluated ->
    (forall i0, nth_error (s_heap st0) id = Some i0 -> istate i0 <> Evaluated) ->
    exists c, In c cs /\ c_id c = id /\ c_vec c = ivec i /\ e_obj e c = Ok (icosts i) /\
              (forall c', In c' cs -> c_id c' = id -> ok_b e c' = true -> c' = c).
  Proof. exact (costs_belong_to_vector T ltb zero roundp smul). Qed.

  (* whatever every replacement satisfies (e.g. lying inside the bounds: gen_vector, C08) and the
     original vector satisfies, the stored vector satisfies *)
  Theorem C06_reroll_invariant : forall (e : env T) st id i st' (P : list T -> Prop),
    nth_error (s_heap st) id = Some i -> istate i <> Evaluated -> job_evaluate e st id = (st', Done) ->
    P (ivec i) -> (forall c, P (e_reroll e c)) ->
    exists i', nth_error (s_heap st') id = Some i' /\ P (ivec i').
  Proof. exact (stored_vector_invariant T ltb zero roundp smul). Qed.

  (* every fault pattern: the first attempt (k-th, k < 5) that does not fail transiently decides *)
  Theorem C06_result_decided : forall (e : env T) st id i st' r k,
    nth_error (s_heap st) id = Some i -> istate i <> Evaluated -> job_evaluate e st id = (st', r) ->
    k < 5 ->
    (forall j, j < k -> e_obj e (job_call e id (length (s_calls st)) 0 (ivec i) j) = Transient) ->
    e_obj e (job_call e id (length (s_calls st)) 0 (ivec i) k) <> Transient ->
    exists cs, s_calls st' = s_calls st ++ cs /\ length cs = S k /\
      r = match e_obj e (job_call e id (length (s_calls st)) 0 (ivec i) k) with
          | Ok _ => Done | Fatal kd => RaisedFatal kd | Transient => Raised5 end.
  Proof. exact (job_decided T ltb zero roundp smul). Qed.

  (* five consecutive transient failures: RuntimeError; five calls, five failed copies, no sync;
     the design is left EMPTY with its old costs and the fifth replacement vector *)
  Theorem C06_five_failures_raise : forall (e : env T) st id i st' r,
    nth_error (s_heap st) id = Some i -> istate i <> Evaluated -> job_evaluate e st id = (st', r) ->
    (forall j, j < 5 -> e_obj e (job_call e id (length (s_calls st)) 0 (ivec i) j) = Transient) ->
    r = Raised5 /\
    exists cs i', s_calls st' = s_calls st ++ cs /\ length cs = 5 /\
      s_failed st' = s_failed st ++ map (fun c => mk_failed (c_vec c)) cs /\
      s_store st' = s_store st /\
      nth_error (s_heap st') id = Some i' /\ istate i' = Empty /\ icosts i' = icosts i /\
      ivec i' = e_reroll e (job_call e id (length (s_calls st)) 0 (ivec i) 4).
  Proof. exact (five_failures_state T ltb zero roundp smul). Qed.

  (* four failures followed by a success do not raise *)
  Theorem C06_four_failures_do_not_raise : forall (e : env T) st id i st' r costs,
    nth_error (s_heap st) id = Some i -> istate i <> Evaluated -> job_evaluate e st id = (st', r) ->
    (forall j, j < 4 -> e_obj e (job_call e id (length (s_calls st)) 0 (ivec i) j) = Transient) ->
    e_obj e (job_call e id (length (s_calls st)) 0 (ivec i) 4) = Ok costs ->
    r = Done /\ exists cs, s_calls st' = s_calls st ++ cs /\ length cs = 5.
  Proof. exact (four_failures_do_not_raise T ltb zero roundp smul). Qed.

  (* any other exception leaves at once: that call is the last one, the design is IN_PROGRESS (not
     evaluated), nothing is synced, and the failed list holds only the k earlier transient failures *)
  Theorem C06_fatal_propagates : forall (e : env T) st id i st' r k kd,
    nth_error (s_heap st) id = Some i -> istate i <> Evaluated -> job_evaluate e st id = (st', r) ->
    k < 5 ->
    (forall j, j < k -> e_obj e (job_call e id (length (s_calls st)) 0 (ivec i) j) = Transient) ->
    e_obj e (job_call e id (length (s_calls st)) 0 (ivec i) k) = Fatal kd ->
    r = RaisedFatal kd /\
    exists pre c i', s_calls st' = s_calls st ++ pre ++ [c] /\ length pre = k /\
      c = job_call e id (length (s_calls st)) 0 (ivec i) k /\
      s_failed st' = s_failed st ++ map (fun c => mk_failed (c_vec c)) pre /\
      s_store st' = s_store st /\
      nth_error (s_heap st') id = Some i' /\ istate i' = InProgress /\ ivec i' = c_vec c /\ icosts i' = icosts i.
  Proof. exact (fatal_propagates T ltb zero roundp smul). Qed.

  (* batch level: an exception leaves Algorithm.evaluate at once - the designs before the raising one
     were processed normally, the final state is the one the raising job produced, the rest of the
     batch is not looked at *)
  Theorem C06_raise_leaves_batch_at_once : forall (e : env T) batch st st' r,
    evaluate_serial e st batch = (st', r) -> r <> Done ->
    exists pre h post st1 ih, batch = pre ++ h :: post /\ evaluate_serial e st pre = (st1, Done) /\
      nth_error (s_heap st1) h = Some ih /\ istate ih = Empty /\ job_evaluate e st1 h = (st', r).
  Proof. exact (serial_raise_stops T ltb zero roundp smul). Qed.
End C06.

Print Assumptions C06_attempts_le_5.
Print Assumptions C06_batch_attempts_le_5.
Print Assumptions C06_job_protocol.
Print Assumptions C06_failed_log_exact.
Print Assumptions C06_stored_pair_after_reroll.
Print Assumptions C06_stored_costs_belong_to_stored_vector.
Print Assumptions C06_reroll_invariant.
Print Assumptions C06_result_decided.
Print Assumptions C06_five_failures_raise.
Print Assumptions C06_four_failures_do_not_raise.
Print Assumptions C06_fatal_propagates.
Print Assumptions C06_raise_leaves_batch_at_once.

(* ---------------------------------------------------------------------------------------------
   non-vacuity over Z: the objective fails transiently on the listed global call numbers, fatally
   (kind 2) on call 20, and otherwise returns [x0 + 100]; the n-th failed call is re-rolled to [n] *)
Local Open Scope Z_scope.

Definition exZ_env (fail : list nat) : env Z :=
  {| e_signs := [false];
     e_obj := fun c => if existsb (Nat.eqb (c_no c)) fail then Transient
                       else if Nat.eqb (c_no c) 20 then Fatal 2
                       else Ok [hd 0 (c_vec c) + 100];
     e_cons := fun _ => [];
     e_reroll := fun c => [Z.of_nat (c_no c)] |}.

Definition exZ_st0 : state Z :=
  {| s_heap := [fresh [7]; fresh [8]; fresh [9]]; s_pop := []; s_failed := []; s_store := []; s_calls := [] |}.

Definition exZ_serial fail := evaluate_serial Z.ltb 0 (fun _ x => x) (fun b x => if b then - x else x) (exZ_env fail) exZ_st0.

(* exactly four failures of the middle design: no exception, five attempts, costs belong to the last
   replacement vector [4]; exactly five failures: RuntimeError, the design is EMPTY with vector [5], the
   third design is not looked at *)
Example C06_ex_four_five :
  (let '(st, r) := exZ_serial [1; 2; 3; 4]%nat [0; 1; 2]%nat in
   r = Done /\ map (fun c => (c_id c, c_att c)) (s_calls st) = [(0, 0); (1, 0); (1, 1); (1, 2); (1, 3); (1, 4); (2, 0)]%nat /\
   map (@ivec Z) (s_failed st) = [[8]; [1]; [2]; [3]] /\
   map (fun i => (ivec i, icosts i, istate i)) (s_heap st) =
     [([7], [107], Evaluated); ([4], [104], Evaluated); ([9], [109], Evaluated)]) /\
  (let '(st, r) := exZ_serial [1; 2; 3; 4; 5]%nat [0; 1; 2]%nat in
   r = Raised5 /\ length (s_calls st) = 6%nat /\
   map (@ivec Z) (s_failed st) = [[8]; [1]; [2]; [3]; [4]] /\
   map (fun i => (ivec i, icosts i, istate i)) (s_heap st) =
     [([7], [107], Evaluated); ([5], [], Empty); ([9], [], Empty)] /\ length (s_store st) = 1%nat).
Proof. vm_compute. repeat split; reflexivity. Qed.

(* the hypotheses of C06_five_failures_raise / C06_fatal_propagates are met by concrete schedules *)
Example C06_ex_hypotheses :
  (forall j, (j < 5)%nat ->
     e_obj (exZ_env [0; 1; 2; 3; 4]%nat) (job_call (exZ_env [0; 1; 2; 3; 4]%nat) 0 0 0 [7] j) = Transient) /\
  (let e := exZ_env [18; 19]%nat in
   (forall j, (j < 2)%nat -> e_obj e (job_call e 1 18 0 [8] j) = Transient) /\
   e_obj e (job_call e 1 18 0 [8] 2) = Fatal 2).
Proof.
  split.
  - intros j Lj. destruct j as [|[|[|[|[|j]]]]]; try reflexivity. lia.
  - split; [|reflexivity]. intros j Lj. destruct j as [|[|j]]; try reflexivity. lia.
Qed.

(* a fatal exception on the second attempt of the first design: it propagates, the design is
   IN_PROGRESS with the replacement vector, only the first attempt is in failed, nothing else ran *)
Example C06_ex_fatal :
  let e := {| e_signs := [false];
              e_obj := fun c => match c_no c with 0%nat => Transient | 1%nat => Fatal 3 | _ => Ok [1] end;
              e_cons := fun _ => []; e_reroll := fun _ => [42] |} in
  let '(st, r) := evaluate_serial Z.ltb 0 (fun _ x => x) (fun b x => if b then - x else x) e exZ_st0 [0; 1; 2]%nat in
  r = RaisedFatal 3 /\ map (@ivec Z) (s_failed st) = [[7]] /\ length (s_calls st) = 2%nat /\
  map (fun i => (ivec i, istate i)) (s_heap st) = [([42], InProgress); ([8], Empty); ([9], Empty)] /\ s_store st = [].
Proof. vm_compute. repeat split; reflexivity. Qed.

(* ---------------------------------------------------------------------------------------------
   "replaced by a freshly sampled design INSIDE THE BOUNDS": the replacement is gen_vector of the
   problem's parameter descriptions (Model/Reroll.v): coordinate k is computed from the keys of
   description k and draw k alone (bounds, or initial_value when there are none; precision;
   parameter_type), and therefore lies in parameter k's own box up to half of parameter k's own step
   (C08's gen_number / gen_vector theorems, exact rationals, default step 1e-12). *)
From Coq Require Import QArith Qabs Lqa.
From Artap Require Import Model.Variation Proofs.VariationProofs Model.Reroll Proofs.RerollProofs.
Local Open Scope Q_scope.

Theorem C06_replacement_reads_own_keys : forall ds draws v,
  gen_vector_desc ds draws = Some v ->
  length v = length ds /\ length draws = length ds /\
  forall k d r, nth_error ds k = Some d -> nth_error draws k = Some r -> nth_error v k = Some (gen_coord d r).
Proof. exact gen_vector_desc_coordinatewise. Qed.

(* real-valued parameters: the replacement IS C08's gen_vector on each parameter's own (lb, ub, precision) ... *)
Theorem C06_replacement_is_gen_vector : forall ds draws,
  Forall (fun d => truncates d = false) ds ->
  gen_vector_desc ds draws = gen_vector (map spec_of ds) draws.
Proof. exact gen_vector_desc_real. Qed.

(* ... hence inside the bounds in C08's sense (C08_gen_vector_in_box = gen_vector_in_box), parameter by parameter *)
Theorem C06_replacement_in_bounds : forall ds draws v,
  Forall (fun d => truncates d = false) ds -> Forall pd_wf ds -> Forall unit_draw draws ->
  gen_vector_desc ds draws = Some v ->
  length v = length ds /\ Forall2 q_inside (map spec_of ds) v.
Proof. exact gen_vector_desc_real_in_box. Qed.

(* any mix of real and integer-typed parameters: own_box (integer-typed = an integer less than 1 from the box) *)
Theorem C06_replacement_in_own_box : forall ds draws v,
  Forall pd_wf ds -> Forall unit_draw draws -> gen_vector_desc ds draws = Some v ->
  length v = length ds /\ Forall2 own_box ds v.
Proof. exact gen_vector_desc_in_own_box. Qed.

Theorem C06_integer_replacement_in_integer_bounds : forall d r (a b : Z),
  truncates d = true -> pd_lb d == inject_Z a -> pd_ub d == inject_Z b ->
  pd_lb d <= gen_number r (pd_lb d) (pd_ub d) (pd_step d) <= pd_ub d ->
  pd_lb d <= gen_coord d r <= pd_ub d.
Proof. exact gen_coord_int_in_box. Qed.

(* composed with the retry loop: the objective is only ever retried on, and the stored vector of a design
   evaluated after re-rolls is, a design inside the box *)
Theorem C06_retried_vectors_in_bounds : forall ds (e : env Q) (c : call Q),
  Forall pd_wf ds -> rerolls_from ds e -> Forall2 own_box ds (e_reroll e c).
Proof. exact retried_vectors_in_own_box. Qed.

Theorem C06_stored_vector_in_bounds : forall (ltb : Q -> Q -> bool) zero roundp smul ds (e : env Q) st id i st',
  Forall pd_wf ds -> rerolls_from ds e ->
  nth_error (s_heap st) id = Some i -> istate i <> Evaluated ->
  job_evaluate ltb zero roundp smul e st id = (st', Done) ->
  Forall2 own_box ds (ivec i) ->
  exists i', nth_error (s_heap st') id = Some i' /\ Forall2 own_box ds (ivec i').
Proof. exact stored_vector_in_own_box. Qed.

Print Assumptions C06_replacement_reads_own_keys.
Print Assumptions C06_replacement_is_gen_vector.
Print Assumptions C06_replacement_in_bounds.
Print Assumptions C06_replacement_in_own_box.
Print Assumptions C06_integer_replacement_in_integer_bounds.
Print Assumptions C06_retried_vectors_in_bounds.
Print Assumptions C06_stored_vector_in_bounds.

(* non-vacuity: the red team's coil problem - `turns` in [10, 60] with precision 1, then `gap` in [0.2, 0.4] with
   no precision.  gen_vector gives [35, 0.3 (to 1e-12)], inside both boxes; a gen_vector that lets the precision
   of `turns` leak into `gap` (Model/Reroll.v gen_vector_leaky) gives [35, 0]: outside the box of `gap`. *)
Definition ex_coil : list pdesc :=
  [mk_pd (Some (10, 60)) 0 (Some 1) false; mk_pd (Some (2 # 10, 4 # 10)) 0 None false].

Example C06_ex_mixed_descriptions :
  Forall pd_wf ex_coil /\ Forall unit_draw [1 # 2; 1 # 2] /\ Forall (fun d => truncates d = false) ex_coil /\
  (exists v, gen_vector_desc ex_coil [1 # 2; 1 # 2] = Some v /\ nth 0 v 0 == 35 /\
             Qabs (nth 1 v 0 - (3 # 10)) <= 1 # 1000000000000) /\
  (exists v, gen_vector_leaky None false ex_coil [1 # 2; 1 # 2] = Some v /\ nth 0 v 0 == 35 /\ nth 1 v 0 == 0 /\
             ~ Forall2 own_box ex_coil v).
Proof.
  split; [repeat constructor; cbn; try lra; discriminate|].
  split; [repeat constructor; cbn; lra|].
  split; [repeat constructor|].
  split.
  - eexists. split; [reflexivity|]. split; vm_compute; [reflexivity|discriminate].
  - eexists. split; [reflexivity|]. split; [vm_compute; reflexivity|]. split; [vm_compute; reflexivity|].
    intros F. inversion F as [|? ? ? ? _ F']; subst. inversion F' as [|? ? ? ? B _]; subst.
    unfold own_box in B. cbn in B. destruct B as [B _]. vm_compute in B. apply B. reflexivity.
Qed.

(* an integer-typed parameter with integer bounds (truncated: -2 on the 1e-12 grid is -1.9999..., int() gives -1,
   inside [-5, -1]); `parameter_type` next to a declared precision is NOT passed to gen_number (the number stays
   real: 0.5); a parameter without bounds is sampled from [initial_value/2, 3 initial_value/2] = [2, 6] *)
Example C06_ex_integer_and_unbounded :
  let ds := [mk_pd (Some (-5, -1)) 0 None true; mk_pd (Some (2 # 10, 4 # 10)) 0 (Some (1 # 2)) true; mk_pd None 4 None false] in
  Forall pd_wf ds /\
  exists v, gen_vector_desc ds [3 # 4; 9 # 10; 1 # 4] = Some v /\ Forall2 own_box ds v /\
            nth 0 v 0 == -1 /\ nth 1 v 0 == 1 # 2 /\ Qabs (nth 2 v 0 - 3) <= 1 # 1000000000000.
Proof.
  cbv zeta. split; [repeat constructor; cbn; lra|].
  eexists. split; [reflexivity|]. split.
  - apply (C06_replacement_in_own_box _ [3 # 4; 9 # 10; 1 # 4]); [repeat constructor; cbn; lra|repeat constructor; cbn; lra|reflexivity].
  - split; [vm_compute; reflexivity|]. split; vm_compute; [reflexivity|discriminate].
Qed.
