(* C18 - Swarm: personal best never regresses, velocity clamped, leader set bounded.
   Property theorems only; each is closed by `exact`, followed by Print Assumptions. *)
From Coq Require Import List ZArith Bool Floats Arith Lia.
From Artap Require Import Base.Ord Base.FloatInst Base.QInst Model.Dominance Model.Archive Model.Variation Model.Swarm
  Proofs.DominanceProofs Proofs.ArchiveProofs Proofs.ArchiveParetoInst Proofs.VariationProofs Proofs.SwarmProofs.
Import ListNotations.

(* ------------------------------------------------------------------------------------------------
   personal best: update_particle_best *)
Section C18_pbest.
  Context {T : Type}.

  (* whatever the comparator: the record is kept when its verdict is 2 ("best_cost dominates"),
     and replaced by the particle's position in every other case *)
  Theorem C18_pbest_never_regresses : forall (cmp : scost (T:=T) -> scost (T:=T) -> nat) p b,
    (cmp (p_cost p) (fst b) = 2 -> pbest_step cmp p b = b) /\
    (cmp (p_cost p) (fst b) <> 2 -> pbest_step cmp p b = (p_cost p, p_vec p)).
  Proof. exact pbest_step_spec. Qed.

  Context (ltb : T -> T -> bool) (H : SWO ltb).

  (* with self.dominance = ParetoDominance(): kept exactly when the old best dominates the new position *)
  Theorem C18_pbest_never_regresses_pareto : forall p b,
    (pareto_compare ltb (fst b) (p_cost p) = 1 -> pbest_step (pareto_compare ltb) p b = b) /\
    (pareto_compare ltb (fst b) (p_cost p) <> 1 -> pbest_step (pareto_compare ltb) p b = (p_cost p, p_vec p)).
  Proof. exact (pbest_pareto_verdict ltb H). Qed.

  (* the same with the textbook definition of dominance (equal feasibility markers) *)
  Theorem C18_pbest_textbook : forall (p : particle (T:=T)) pc bc m bv,
    p_cost p = (pc, m) -> length pc = length bc ->
    (dominates ltb bc pc -> pbest_step (pareto_compare ltb) p ((bc, m), bv) = ((bc, m), bv)) /\
    (~ dominates ltb bc pc -> pbest_step (pareto_compare ltb) p ((bc, m), bv) = (p_cost p, p_vec p)).
  Proof. exact (pbest_pareto_dominates ltb H). Qed.

  (* the whole population sweep, shared feature dicts included: the record of dict k is the fold of
     the one-particle rule over the particles using dict k, in population order *)
  Theorem C18_pbest_sweep : forall cmp (pop : list (particle (T:=T))) store,
    (forall p, In p pop -> p_feat p < length store) ->
    exists store', update_particle_best cmp pop store = Some store' /\ length store' = length store /\
      forall k b, nth_error store k = Some b ->
        nth_error store' k = Some (fold_left (fun b p => pbest_step cmp p b) (users k pop) b).
  Proof. exact pbest_sweep. Qed.
End C18_pbest.

(* ------------------------------------------------------------------------------------------------
   velocity: speed_constriction / update_velocity, for the code's formula
       delta = (ub - lb) / 2;  v = min(v, delta);  v = max(v, -delta)                               *)
Section C18_velocity.
  Context {T : Type} (ltb : T -> T -> bool) (H : SWO ltb).
  Variables (add sub mul div : T -> T -> T) (neg : T -> T) (two : T).

  (* for every input velocity the result lies between -delta and +delta and is v, delta or -delta *)
  Theorem C18_velocity_clamped : forall v ub lb,
    let d := half_range sub div two ub lb in
    let r := speed_constriction ltb sub div neg two v ub lb in
    ltb d (neg d) = false ->
    (ltb r (neg d) = false /\ ltb d r = false) /\
    (ltb d v = true -> r = d) /\
    (ltb v (neg d) = true -> r = neg d) /\
    (ltb d v = false -> ltb v (neg d) = false -> r = v).
  Proof. exact (speed_constriction_spec ltb H sub div neg two). Qed.

  (* update_velocity of both classes: every component of every particle's new velocity, whatever
     the random draws, khi, the positions, the personal bests and the selected leaders are *)
  Theorem C18_velocity_clamped_swarm : forall k params swarm vss,
    Forall (delta_ok ltb sub div neg two) params ->
    update_velocity ltb add sub mul div neg two k params swarm = Some vss ->
    Forall2 (fun p vs => length vs = length (v_vec p) /\
                         Forall2 (clamped ltb sub div neg two) (firstn (length (v_vec p)) params) vs) swarm vss.
  Proof. exact (update_velocity_clamped ltb H add sub mul div neg two). Qed.
End C18_velocity.

(* binary64: it is enough that the computed half range is not negative *)
Theorem C18_velocity_clamped_float : forall v ub lb : float,
  let d := ((ub - lb) / 0x1p+1)%float in
  let r := speed_constriction fltb PrimFloat.sub PrimFloat.div PrimFloat.opp 0x1p+1%float v ub lb in
  fltb d 0%float = false ->
  (fltb r (- d)%float = false /\ fltb d r = false) /\ (r = v \/ r = d \/ r = (- d)%float).
Proof. exact speed_constriction_float. Qed.

(* ------------------------------------------------------------------------------------------------
   position: update_position of OMOPSO / PSOGA (velocity * -1) and SMPSO (velocity * 0.001) *)
Section C18_position.
  Context {T : Type} (ltb : T -> T -> bool) (H : SWO ltb).
  Variables (add mul : T -> T -> T).

  (* one coordinate, any rule `bounce` for the velocity: complete case analysis *)
  Theorem C18_position_on_violated_bound : forall bounce lb ub x v, ltb ub lb = false ->
    let r := position_coord ltb add bounce lb ub x v in
    inside ltb (lb, ub) (fst r) /\
    (ltb ub (add x v) = true -> r = (ub, bounce v)) /\
    (ltb (add x v) lb = true -> r = (lb, bounce v)) /\
    (ltb ub (add x v) = false -> ltb (add x v) lb = false -> r = (add x v, v)).
  Proof. exact (position_coord_spec ltb H add). Qed.

  (* OMOPSO, PSOGA: the velocity component of a coordinate that left the box is multiplied by -1 *)
  Theorem C18_velocity_reversed : forall minus_one lb ub x v, ltb ub lb = false ->
    ltb ub (add x v) = true \/ ltb (add x v) lb = true ->
    snd (position_coord ltb add (fun w => mul w minus_one) lb ub x v) = mul v minus_one /\
    (fst (position_coord ltb add (fun w => mul w minus_one) lb ub x v) = ub \/
     fst (position_coord ltb add (fun w => mul w minus_one) lb ub x v) = lb).
  Proof. exact (fun minus_one => position_bounced ltb H add (fun w => mul w minus_one)). Qed.

  (* SMPSO: it is multiplied by 0.001 *)
  Theorem C18_velocity_damped : forall milli lb ub x v, ltb ub lb = false ->
    ltb ub (add x v) = true \/ ltb (add x v) lb = true ->
    snd (position_coord ltb add (fun w => mul w milli) lb ub x v) = mul v milli /\
    (fst (position_coord ltb add (fun w => mul w milli) lb ub x v) = ub \/
     fst (position_coord ltb add (fun w => mul w milli) lb ub x v) = lb).
  Proof. exact C18_velocity_reversed. Qed.

  (* every particle of the swarm is inside the box after update_position *)
  Theorem C18_position_in_box : forall bounce params swarm res,
    Forall (wf ltb) params -> Forall (fun p => length (fst p) = length params) swarm ->
    update_position ltb add bounce params swarm = Some res ->
    Forall2 (fun p r => in_box ltb params (fst r) /\ length (snd r) = length (snd p)) swarm res.
  Proof. exact (update_position_in_box ltb H add). Qed.
End C18_position.

(* ------------------------------------------------------------------------------------------------
   leaders archive: any sequence of generations (Archive.add* then truncate(size, crowding_distance)) *)
Section C18_leaders.
  Context {C K : Type} (cmp : C -> C -> nat) (ceq : C -> C -> bool) (key_leb : K -> C -> C -> bool).

  (* never more than max_population_size members after a generation: no assumption at all *)
  Theorem C18_leaders_bounded : forall size gs a,
    Forall (fun a' => length a' <= size) (leaders_trace cmp ceq key_leb size a gs).
  Proof. exact (leaders_trace_bounded cmp ceq key_leb). Qed.

  (* for every comparator satisfying the archive laws of C04 the members are mutually non-dominated *)
  Theorem C18_leaders_mutually_nondominated : forall dom wf, ArchLaws cmp ceq dom wf ->
    forall size gs, offers_wf wf gs ->
    Forall (fun a' => pairwise (fun y z => dom y z = false /\ dom z y = false) a')
           (leaders_trace cmp ceq key_leb size [] gs).
  Proof. exact (leaders_trace_nondominated cmp ceq key_leb). Qed.
End C18_leaders.

Section C18_leaders_inst.
  Context {T : Type} (ltb : T -> T -> bool) (H : SWO ltb).
  Context {K : Type} (key_leb : K -> @aind T -> @aind T -> bool).

  (* with the Pareto comparator *)
  Theorem C18_leaders_pareto : forall m size gs, offers_wf (awf m) gs ->
    Forall (fun a => length a <= size /\
                     pairwise (fun y z => pareto_compare ltb (acost y) (acost z) = 0) a)
           (leaders_trace (acmp ltb) (aceq ltb) key_leb size [] gs).
  Proof. exact (fun m => leaders_pareto ltb H m key_leb). Qed.

  (* with the comparator the code installs (Archive() defaults to EpsilonDominance([0.1, 0.1])) and
     its Python list-equality test: still mutually non-dominated in the Pareto sense, provided the
     scaling x -> x / eps never reverses an order *)
  Theorem C18_leaders_eps : forall m sc dist,
    (forall i a b, ltb a b = false -> ltb (sc i a) (sc i b) = false) ->
    forall size gs, offers_wf (awf m) gs ->
    Forall (fun a => length a <= size /\
                     pairwise (fun y z => pareto_compare ltb (acost y) (acost z) = 0) a)
           (leaders_trace (lecmp ltb sc dist) (aceq ltb) key_leb size [] gs).
  Proof. exact (fun m sc dist Hm => leaders_eps ltb H m sc dist Hm key_leb). Qed.
End C18_leaders_inst.

(* binary64 costs compared with Python's `<` *)
Theorem C18_leaders_eps_float : forall {K} (key_leb : K -> @aind float -> @aind float -> bool) m sc dist,
  (forall i a b, fltb a b = false -> fltb (sc i a) (sc i b) = false) ->
  forall size gs, offers_wf (awf m) gs ->
  Forall (fun a => length a <= size /\
                   pairwise (fun y z => pareto_compare fltb (acost y) (acost z) = 0) a)
         (leaders_trace (lecmp fltb sc dist) (aceq fltb) key_leb size [] gs).
Proof. exact (fun K key_leb => C18_leaders_eps fltb fltb_SWO key_leb). Qed.

Print Assumptions C18_pbest_never_regresses.
Print Assumptions C18_pbest_never_regresses_pareto.
Print Assumptions C18_pbest_textbook.
Print Assumptions C18_pbest_sweep.
Print Assumptions C18_velocity_clamped.
Print Assumptions C18_velocity_clamped_swarm.
Print Assumptions C18_velocity_clamped_float.
Print Assumptions C18_position_on_violated_bound.
Print Assumptions C18_velocity_reversed.
Print Assumptions C18_velocity_damped.
Print Assumptions C18_position_in_box.
Print Assumptions C18_leaders_bounded.
Print Assumptions C18_leaders_mutually_nondominated.
Print Assumptions C18_leaders_pareto.
Print Assumptions C18_leaders_eps.
Print Assumptions C18_leaders_eps_float.

(* ------------------------------------------------------------------------------------------------
   non-vacuity: concrete non-trivial inputs meet the hypotheses *)
Local Open Scope Z_scope.

(* two particles sharing one features dict (as PSOGA creates them) and one on its own *)
Example C18_ex_pbest :
  let pop := [ {| p_cost := ([1; 3], 1); p_vec := [10; 10]; p_feat := 0%nat |};
               {| p_cost := ([2; 2], 1); p_vec := [20; 20]; p_feat := 1%nat |};
               {| p_cost := ([0; 5], 1); p_vec := [30; 30]; p_feat := 0%nat |} ] in
  let store := [ (([1; 2], 1), [7; 7]); (([3; 3], 1), [8; 8]) ] in
  (forall p, In p pop -> (p_feat p < length store)%nat) /\
  update_particle_best (pareto_compare Z.ltb) pop store =
    Some [ (([0; 5], 1), [30; 30]); (([2; 2], 1), [20; 20]) ] /\
  dominates Z.ltb [1; 2] [1; 3] /\ ~ dominates Z.ltb [3; 3] [2; 2].
Proof.
  cbn zeta. split; [|split; [vm_compute; reflexivity|split]].
  - intros p [<-|[<-|[<-|[]]]]; cbn; auto.
  - split; [repeat constructor; discriminate | right; left; reflexivity].
  - intros [W _]. inversion W as [|? ? ? ? E _]; subst. discriminate E.
Qed.

(* delta = (10 - 0) / 2 = 5 is not below -5; far-out velocities are cut to +-5 *)
Example C18_ex_velocity :
  delta_ok Z.ltb Z.sub Z.div Z.opp 2 (0, 10) /\
  speed_constriction Z.ltb Z.sub Z.div Z.opp 2 1000 10 0 = 5 /\
  speed_constriction Z.ltb Z.sub Z.div Z.opp 2 (-1000) 10 0 = -5 /\
  speed_constriction Z.ltb Z.sub Z.div Z.opp 2 3 10 0 = 3 /\
  delta_ok Z.ltb Z.sub Z.div Z.opp 2 (4, 4) /\
  speed_constriction Z.ltb Z.sub Z.div Z.opp 2 7 4 4 = 0.
Proof. vm_compute. repeat split. Qed.

Example C18_ex_velocity_float :
  fltb ((0x1p+3 - 0x1p+1) / 0x1p+1)%float 0%float = false /\
  speed_constriction fltb PrimFloat.sub PrimFloat.div PrimFloat.opp 0x1p+1%float 0x1p+100%float 0x1p+3%float 0x1p+1%float = 0x1.8p+1%float.
Proof. vm_compute. repeat split. Qed.

(* box [0, 10]: 8 + 5 leaves through the upper bound, 1 - 7 through the lower one *)
Example C18_ex_position :
  Z.ltb 10 0 = false /\
  position_coord Z.ltb Z.add (fun w => w * -1) 0 10 8 5 = (10, -5) /\
  position_coord Z.ltb Z.add (fun w => w * -1) 0 10 1 (-7) = (0, 7) /\
  position_coord Z.ltb Z.add (fun w => w * -1) 0 10 4 3 = (7, 3) /\
  update_position Z.ltb Z.add (fun w => w * -1) [(0, 10); (5, 5)] [([8; 5], [5; 1]); ([1; 9], [-7; -20])]
    = Some [([10; 5], [-5; -1]); ([0; 5], [7; 20])] /\
  Forall (wf Z.ltb) [(0, 10); (5, 5)].
Proof. vm_compute. repeat split; repeat constructor. Qed.

(* three generations into an archive of size 2 with the epsilon comparator (scaling x -> 10 x,
   tie-break sums 0): offers are rejected, evict members, and the archive is cut by crowding distance *)
Example C18_ex_leaders :
  let sc := fun (_ : nat) (x : Z) => 10 * x in
  let dist := fun (_ : @aind Z) => 0 in
  let key := fun (tbl : list (nat * Z)) (x y : @aind Z) =>
               negb (Z.ltb (snd (nth (fst y) tbl (0%nat, 0))) (snd (nth (fst x) tbl (0%nat, 0)))) in
  let i0 : @aind Z := (0%nat, ([3; 1], 1)) in let i1 : @aind Z := (1%nat, ([2; 2], 1)) in
  let i2 : @aind Z := (2%nat, ([1; 3], 1)) in let i3 : @aind Z := (3%nat, ([2; 2], 1)) in
  let i4 : @aind Z := (4%nat, ([0; 4], 1)) in let i5 : @aind Z := (5%nat, ([1; 1], 1)) in
  let tbl := [(0%nat, 9); (1%nat, 2); (2%nat, 7); (3%nat, 0); (4%nat, 5); (5%nat, 1)] in
  let gs := [([i0; i1; i2; i3], tbl); ([i4], tbl); ([i5], tbl)] in
  (forall i a b, Z.ltb a b = false -> Z.ltb (sc i a) (sc i b) = false) /\
  offers_wf (awf 2) gs /\
  map (map fst) (leaders_trace (lecmp Z.ltb sc dist) (aceq Z.ltb) key 2%nat [] gs) =
    [[0; 2]; [0; 2]; [5]]%nat.
Proof.
  cbn zeta. split; [|split].
  - intros i a b. rewrite !Z.ltb_ge. intros; nia.
  - repeat constructor.
  - vm_compute. reflexivity.
Qed.
