(* C18 - swarm invariants (placeholder while the correspondence is being built). *)
From Coq Require Import List ZArith Bool.
From Artap Require Import Base.Ord Model.Swarm.
Import ListNotations.

Theorem C18_pbest_never_regresses : forall {T} (cmp : scost (T:=T) -> scost -> nat) p b,
  (cmp (p_cost p) (fst b) = 2 -> pbest_step cmp p b = b) /\
  (cmp (p_cost p) (fst b) <> 2 -> pbest_step cmp p b = (p_cost p, p_vec p)).
Proof.
  intros T cmp p b. unfold pbest_step. split; intros E.
  - rewrite E. reflexivity.
  - destruct (Nat.eqb (cmp (p_cost p) (fst b)) 2) eqn:F; [apply Nat.eqb_eq in F; contradiction | reflexivity].
Qed.
Print Assumptions C18_pbest_never_regresses.
