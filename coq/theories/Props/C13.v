(* C13 - Factorial and screening designs have their defining combinatorial structure.
   Property theorems only; each is closed by `exact`, followed by Print Assumptions.
   Models: Model/Doe.v (fullfact / construct_df, pbdesign, bbdesign, build_gsd and helpers, and the
   Generator wrappers of operators.py).  Proofs: Proofs/DoeFullfact.v, DoePB.v, DoeBB.v, DoeGSD.v. *)
From Coq Require Import List ZArith Bool Arith.
From Artap Require Import Model.Doe Proofs.DoeProofs.
Import ListNotations.
Local Open Scope nat_scope.

(* ------------------------------------------------------------------ full factorial --- *)
(* fullfact(levels): every index combination exactly once, for every factor count >= 1 *)
Theorem C13_fullfact_index_bijective : forall levels : list nat, levels <> [] ->
  exists x, fullfact levels = Ok x /\ NoDup x /\ length x = prod_list levels /\
            forall r, In r x <-> Forall2 lt r levels.
Proof. exact fullfact_index_bijective. Qed.

(* build_full_fact (FullFactorGenerator / FullFactorLevelsGenerator): the rows are exactly the Cartesian
   product of the level lists, and duplicate-free when the levels of each factor are distinct *)
Theorem C13_fullfact_bijective : forall (T : Type) (fl : list (list T)), fl <> [] ->
  exists rows, build_full_fact fl = Ok rows /\
    length rows = prod_list (map (@length T) fl) /\
    (forall r, In r rows <-> Forall2 (@In T) r fl) /\
    (Forall (@NoDup T) fl -> NoDup rows).
Proof. exact (@fullfact_bijective). Qed.

(* row q of the full factorial (index matrix / level values) is the mixed-radix representation of q, first factor
   fastest: the closed form through which the correspondence compares sampled rows of designs too big to write out *)
Theorem C13_fullfact_row_closed_form : forall (levels : list nat) (q : nat), levels <> [] -> q < prod_list levels ->
  exists x, fullfact levels = Ok x /\ length x = prod_list levels /\ nth_error x q = Some (digits levels q).
Proof. exact fullfact_row_closed_form. Qed.

Theorem C13_build_full_fact_row_closed_form : forall (T : Type) (fl : list (list T)) (q : nat),
  fl <> [] -> q < prod_list (map (@length T) fl) ->
  exists rows r, build_full_fact fl = Ok rows /\ length rows = prod_list (map (@length T) fl) /\
                 select_row (digits (map (@length T) fl) q) fl = Ok r /\ nth_error rows q = Some r.
Proof. exact (@build_full_fact_row_closed_form). Qed.

(* ------------------------------------------------------------------ Plackett-Burman -- *)
(* every supported size: run count = next multiple of four above n, entries -1/+1, balanced and
   pairwise orthogonal columns (pb_spec) *)
Theorem C13_pb_structure : forall n, 1 <= n <= 23 -> exists m, pbdesign n = Ok m /\ pb_spec n m.
Proof. exact pb_structure. Qed.

(* the unsupported sizes next to the range are rejected, as the code does (assert) *)
Theorem C13_pb_rejects : forall n, n = 0 \/ 24 <= n <= 27 -> pbdesign n = Err EAssert.
Proof. exact pb_rejects. Qed.

(* PlackettBurmanGenerator: the returned vectors use only the two bounds of each factor *)
Theorem C13_pb_levels : forall (T : Type) (fl : list (list T)),
  1 <= length fl <= 23 -> Forall (fun l => length l = 2) fl ->
  exists m rows,
    pbdesign (length fl) = Ok m /\ pb_spec (length fl) m /\
    build_plackett_burman fl = Ok rows /\
    length rows = 4 * (length fl / 4 + 1) /\
    Forall2 (fun code r => select_row (map pb_index code) fl = Ok r) m rows /\
    forall r, In r rows -> Forall2 (@In T) r fl.
Proof. exact (@pb_levels). Qed.

(* ------------------------------------------------------------------ Box-Behnken ------ *)
(* every n >= 3: the design is duplicate-free, has 4 C(n,2) + 1 rows, and its rows are exactly the
   +/- corners of every factor pair with the other factors at mid level (0) plus the centre run *)
Theorem C13_bb_structure : forall n, 3 <= n ->
  exists x, bbdesign n 1 = Ok x /\
    NoDup x /\
    length x = 2 * n * (n - 1) + 1 /\
    (forall row, In row x <-> bb_spec_row n row) /\
    (forall row, In row x -> bb_centre_row n row -> row = repeat 0%Z n).
Proof. exact bb_structure. Qed.

Theorem C13_bb_levels : forall (T : Type) (fl : list (list T)),
  3 <= length fl -> Forall (fun l => length l = 3) fl ->
  exists x rows,
    bbdesign (length fl) 1 = Ok x /\
    build_box_behnken fl = Ok rows /\
    length rows = 2 * length fl * (length fl - 1) + 1 /\
    Forall2 (fun code r => select_row (map bb_level code) fl = Ok r) x rows /\
    forall r, In r rows -> Forall2 (@In T) r fl.
Proof. exact (@bb_levels). Qed.

(* ------------------------------------------------------------------ generalized subset designs *)
(* every reduction r >= 2, every list of level counts >= 2 (no size bound): whenever
   build_gsd(levels, r, n = r) does not raise, the r complementary designs are duplicate-free and
   pairwise disjoint (NoDup of their concatenation) and together are exactly the full factorial *)
Theorem C13_gsd_partition : forall levels r ds,
  Forall (fun L => 2 <= L) levels -> 2 <= r -> build_gsd levels r r = Ok ds ->
  length ds = r /\
  NoDup (concat ds) /\
  (forall row, In row (concat ds) <-> Forall2 lt row levels) /\
  (forall row, In row (concat ds) <-> In row (fullfact_rows levels)).
Proof. exact gsd_partition. Qed.

(* any number n of complementary designs: duplicate-free, pairwise disjoint subsets of the full
   factorial, covering it as soon as n >= r *)
Theorem C13_gsd_complementary : forall levels r n ds,
  Forall (fun L => 2 <= L) levels -> 2 <= r -> build_gsd levels r n = Ok ds ->
  length ds = Nat.min n r /\
  NoDup (concat ds) /\
  (forall row, In row (concat ds) -> Forall2 lt row levels) /\
  (r <= n -> forall row, Forall2 lt row levels -> In row (concat ds)).
Proof. exact gsd_complementary. Qed.

(* the hypothesis "does not raise" is met by every design with >= 2 factors whose reduction does not
   exceed any level count (a single factor always fails the assertion of _map_partitions_to_design) *)
Theorem C13_gsd_succeeds : forall levels r,
  2 <= length levels -> 2 <= r -> Forall (fun L => r <= L) levels ->
  exists ds, build_gsd levels r r = Ok ds.
Proof. exact gsd_succeeds. Qed.

(* GSDGenerator.generate: a duplicate-free subset of the full factorial over the supplied values *)
Theorem C13_gsd_generate_subset : forall (T : Type) (values : list (list T)) r rows,
  Forall (fun l => 2 <= length l) values -> gsd_generate values r = Ok rows ->
  (forall v, In v rows -> Forall2 (@In T) v values) /\
  (Forall (@NoDup T) values -> NoDup rows).
Proof. exact (@gsd_generate_subset). Qed.

Print Assumptions C13_fullfact_index_bijective.
Print Assumptions C13_fullfact_bijective.
Print Assumptions C13_fullfact_row_closed_form.
Print Assumptions C13_build_full_fact_row_closed_form.
Print Assumptions C13_pb_structure.
Print Assumptions C13_pb_rejects.
Print Assumptions C13_pb_levels.
Print Assumptions C13_bb_structure.
Print Assumptions C13_bb_levels.
Print Assumptions C13_gsd_partition.
Print Assumptions C13_gsd_complementary.
Print Assumptions C13_gsd_succeeds.
Print Assumptions C13_gsd_generate_subset.

(* ------------------------------------------------------------------ non-vacuity ------ *)
(* concrete non-trivial inputs meet the hypotheses, and the models return designs on them *)
Example C13_ex_fullfact :
  [[1; 2]; [3; 4; 5]]%Z <> [] /\ Forall (@NoDup Z) [[1; 2]; [3; 4; 5]]%Z /\
  build_full_fact [[1; 2]; [3; 4; 5]]%Z =
    Ok [[1; 3]; [2; 3]; [1; 4]; [2; 4]; [1; 5]; [2; 5]]%Z /\
  fullfact [2; 3] = Ok [[0; 0]; [1; 0]; [0; 1]; [1; 1]; [0; 2]; [1; 2]].
Proof.
  split; [discriminate|]. split; [|split; reflexivity].
  repeat constructor; simpl; intuition discriminate.
Qed.

Example C13_ex_pb :
  pbdesign 3 = Ok [[-1; -1; 1]; [1; -1; -1]; [-1; 1; -1]; [1; 1; 1]]%Z /\
  (exists m, pbdesign 11 = Ok m /\ length m = 12) /\
  (exists m, pbdesign 19 = Ok m /\ length m = 20) /\
  (exists m, pbdesign 23 = Ok m /\ length m = 24) /\
  build_plackett_burman [[10; 20]; [30; 40]; [50; 60]]%Z =
    Ok [[10; 30; 60]; [20; 30; 50]; [10; 40; 50]; [20; 40; 60]]%Z /\
  pbdesign 24 = Err EAssert.
Proof.
  split; [vm_compute; reflexivity|].
  split; [eexists; split; [vm_compute; reflexivity|reflexivity]|].
  split; [eexists; split; [vm_compute; reflexivity|reflexivity]|].
  split; [eexists; split; [vm_compute; reflexivity|reflexivity]|].
  split; vm_compute; reflexivity.
Qed.

Example C13_ex_bb :
  bbdesign 3 1 = Ok [[-1; -1; 0]; [1; -1; 0]; [-1; 1; 0]; [1; 1; 0];
                     [-1; 0; -1]; [1; 0; -1]; [-1; 0; 1]; [1; 0; 1];
                     [0; -1; -1]; [0; 1; -1]; [0; -1; 1]; [0; 1; 1]; [0; 0; 0]]%Z /\
  (exists rows, build_box_behnken [[1; 2; 3]; [4; 5; 6]; [7; 8; 9]; [10; 11; 12]]%Z = Ok rows /\ length rows = 25).
Proof. split; [vm_compute; reflexivity|]. eexists. split; [vm_compute; reflexivity|reflexivity]. Qed.

(* the docstring example gsd([3, 4], 2, n=2), a three-factor reduction-4 family, and the Generator *)
Example C13_ex_gsd :
  Forall (fun L => 2 <= L) [3; 4] /\
  build_gsd [3; 4] 2 2 = Ok [[[0; 0]; [0; 2]; [2; 0]; [2; 2]; [1; 1]; [1; 3]];
                             [[0; 1]; [0; 3]; [2; 1]; [2; 3]; [1; 0]; [1; 2]]] /\
  (exists ds, build_gsd [3; 4; 6] 4 4 = Ok ds /\ map (@length _) ds = [18; 18; 18; 18]) /\
  (exists ds, build_gsd [2; 3; 5; 4] 3 3 = Ok ds /\ map (@length _) ds = [40; 40; 40]) /\
  Forall (fun l : list Z => 2 <= length l) [[1; 3; 2]; [6; 8; 4]]%Z /\
  gsd_generate [[1; 3; 2]; [6; 8; 4]]%Z 2 = Ok [[1; 6]; [1; 4]; [2; 6]; [2; 4]; [3; 8]]%Z.
Proof.
  split; [repeat constructor|]. split; [vm_compute; reflexivity|].
  split; [eexists; split; vm_compute; reflexivity|].
  split; [eexists; split; vm_compute; reflexivity|].
  split; [repeat constructor|]. vm_compute. reflexivity.
Qed.
