(* C16 - Multi-objective benchmarks satisfy the defining identities of their families.
   Property theorems only; each is closed by `exact`, followed by Print Assumptions.
   Models: Model/ParetoBench.v (artap/benchmark_pareto.py, loops and index expressions as in the
   code).  `m` is the number of objectives (len(self.costs)); the hypotheses `1 <= m` include the
   property's m >= 2; the dimension hypotheses are the property's (m + 9 for DTLZ2-4, m + k - 1
   with any k >= 1 for DTLZ1) and are what keeps every index of the code inside the vector. *)
From Coq Require Import Reals List Arith Lra.
From Artap Require Import Model.ParetoBench Proofs.ParetoBenchProofs.
Import ListNotations.
Local Open Scope R_scope.

(* DTLZ1: the objectives sum to (1 + g)/2, g the multimodal distance function of the last k variables *)
Theorem C16_dtlz1_sum : forall m k x, (1 <= m)%nat -> (1 <= k)%nat -> length x = (m + k - 1)%nat ->
  sum (dtlz1 m x) = (1 + g_multimodal (lastn k x)) / 2.
Proof. exact dtlz1_sum. Qed.

(* DTLZ2-4: the objective vector has Euclidean norm 1 + g, g of the last 10 variables *)
Theorem C16_dtlz2_norm : forall m x, (1 <= m)%nat -> length x = (m + 9)%nat ->
  norm2 (dtlz2 m x) = 1 + g_sphere (lastn 10 x).
Proof. exact dtlz2_norm. Qed.

Theorem C16_dtlz3_norm : forall m x, (1 <= m)%nat -> length x = (m + 9)%nat ->
  norm2 (dtlz3 m x) = 1 + g_multimodal (lastn 10 x).
Proof. exact dtlz3_norm. Qed.

Theorem C16_dtlz4_norm : forall m x, (1 <= m)%nat -> length x = (m + 9)%nat ->
  norm2 (dtlz4 m x) = 1 + g_sphere (lastn 10 x).
Proof. exact dtlz4_norm. Qed.

(* the ten distance variables are the variables after the m - 1 position variables *)
Theorem C16_distance_variables : forall m (x : list R), (1 <= m)%nat -> length x = (m + 9)%nat ->
  lastn 10 x = skipn (m - 1) x.
Proof. exact lastn_distance_vars. Qed.

(* Pareto-optimal set (distance variables at 0.5, any position variables): image on the simplex of
   sum 0.5 resp. on the unit sphere *)
Theorem C16_pareto_set_images : forall m x, (1 <= m)%nat -> length x = (m + 9)%nat ->
  Forall (fun y => y = 0.5) (lastn 10 x) ->
  sum (dtlz1 m x) = 0.5 /\ norm2 (dtlz2 m x) = 1 /\ norm2 (dtlz3 m x) = 1 /\ norm2 (dtlz4 m x) = 1.
Proof. exact pareto_set_images. Qed.

Theorem C16_dtlz1_pareto_set_image : forall m k x, (1 <= m)%nat -> (1 <= k)%nat ->
  length x = (m + k - 1)%nat -> Forall (fun y => y = 0.5) (lastn k x) -> sum (dtlz1 m x) = 0.5.
Proof. exact dtlz1_pareto_set_image. Qed.

(* ZDT1 (any dimension >= 2; the class fixes 30): f1 = x1, f2 = g (1 - sqrt (f1 / g)),
   g = 1 + 9 mean(x2..xn); on the box g >= 1 and 0 <= f1/g <= 1, so nothing is ill-defined *)
Theorem C16_zdt1_identity : forall x, (2 <= length x)%nat ->
  let g := 1 + 9 * mean (tl x) in
  nth 0 (zdt1 x) 0 = nth 0 x 0 /\
  nth 1 (zdt1 x) 0 = g * (1 - sqrt (nth 0 (zdt1 x) 0 / g)).
Proof. exact zdt1_identity. Qed.

Theorem C16_zdt1_well_defined : forall x, (2 <= length x)%nat -> in_box 0 1 x ->
  let g := 1 + 9 * mean (tl x) in 1 <= g /\ 0 <= nth 0 x 0 / g <= 1.
Proof. exact zdt1_well_defined. Qed.

(* bi-objective test problem on its box [0.1,1] x [0,5]: x1 <> 0 and f1 * f2 = 1 + x2 *)
Theorem C16_biobjective_identity : forall x, biobj_box x ->
  nth 0 x 0 <> 0 /\ nth 0 (biobj x) 0 * nth 1 (biobj x) 0 = 1 + nth 1 x 0.
Proof. exact biobjective_identity. Qed.

(* all objectives are non-negative on the box *)
Theorem C16_nonneg_on_box :
  (forall m k x, (1 <= m)%nat -> (1 <= k)%nat -> length x = (m + k - 1)%nat -> in_box 0 1 x ->
     all_nonneg (dtlz1 m x)) /\
  (forall m x, (1 <= m)%nat -> length x = (m + 9)%nat -> in_box 0 1 x ->
     all_nonneg (dtlz2 m x) /\ all_nonneg (dtlz3 m x) /\ all_nonneg (dtlz4 m x)) /\
  (forall x, (2 <= length x)%nat -> in_box 0 1 x -> all_nonneg (zdt1 x)) /\
  (forall x, biobj_box x -> all_nonneg (biobj x)).
Proof. exact nonneg_on_box. Qed.

Theorem C16_objective_counts : forall m x,
  length (dtlz1 m x) = m /\ length (dtlz2 m x) = m /\ length (dtlz3 m x) = m /\ length (dtlz4 m x) = m /\
  length (zdt1 x) = 2%nat /\ length (biobj x) = 2%nat.
Proof. exact objective_counts. Qed.

(* finding F6 (fixed in /repo): with the sine factor indexed x[m - i] instead of x[m - i - 1] the
   norm identity is false; the model of the old code is refuted at a corner of the box *)
Theorem C16_dtlz2_buggy_index_refuted : exists x, length x = (2 + 9)%nat /\ in_box 0 1 x /\
  norm2 (dtlz2_F6 2 x) <> 1 + g_sphere (lastn 10 x).
Proof. exact dtlz2_buggy_index_refuted. Qed.

Print Assumptions C16_dtlz1_sum.
Print Assumptions C16_dtlz2_norm.
Print Assumptions C16_dtlz3_norm.
Print Assumptions C16_dtlz4_norm.
Print Assumptions C16_distance_variables.
Print Assumptions C16_pareto_set_images.
Print Assumptions C16_dtlz1_pareto_set_image.
Print Assumptions C16_zdt1_identity.
Print Assumptions C16_zdt1_well_defined.
Print Assumptions C16_biobjective_identity.
Print Assumptions C16_nonneg_on_box.
Print Assumptions C16_objective_counts.
Print Assumptions C16_dtlz2_buggy_index_refuted.

(* non-vacuity: concrete non-trivial inputs meet the hypotheses *)
Definition ex_x3 : list R :=   (* m = 3, dimension 12, position variables 0.25 and 0.75, g > 0 *)
  [0.25; 0.75; 0.5; 0.1; 0.9; 0.5; 0.3; 0.5; 1; 0; 0.5; 0.7].
Definition ex_pareto3 : list R :=   (* a Pareto-optimal point that is not the all-0.5 point *)
  [0.25; 0.75; 0.5; 0.5; 0.5; 0.5; 0.5; 0.5; 0.5; 0.5; 0.5; 0.5].

Example C16_ex_box : (1 <= 3)%nat /\ length ex_x3 = (3 + 9)%nat /\ in_box 0 1 ex_x3 /\
  nth 0 ex_x3 0 <> 0.5 /\ g_sphere (lastn 10 ex_x3) = 0.9.
Proof.
  split; [repeat constructor|]. split; [reflexivity|]. split.
  - unfold ex_x3, in_box. repeat (apply Forall_cons; [lra|]). apply Forall_nil.
  - unfold ex_x3, g_sphere, lastn, sum. cbn [length Nat.sub skipn map fold_right nth]. split; lra.
Qed.

Example C16_ex_pareto : length ex_pareto3 = (3 + 9)%nat /\ in_box 0 1 ex_pareto3 /\
  Forall (fun y => y = 0.5) (lastn 10 ex_pareto3) /\ nth 0 ex_pareto3 0 <> 0.5.
Proof.
  split; [reflexivity|]. split; [|split].
  - unfold ex_pareto3, in_box. repeat (apply Forall_cons; [lra|]). apply Forall_nil.
  - unfold ex_pareto3, lastn. cbn [length Nat.sub skipn]. repeat (apply Forall_cons; [reflexivity|]). apply Forall_nil.
  - unfold ex_pareto3. cbn [nth]. lra.
Qed.

Example C16_ex_dtlz1_k5 : (1 <= 3)%nat /\ (1 <= 5)%nat /\ length (firstn 7 ex_x3) = (3 + 5 - 1)%nat /\
  in_box 0 1 (firstn 7 ex_x3).
Proof.
  split; [repeat constructor|]. split; [repeat constructor|]. split; [reflexivity|].
  unfold ex_x3, in_box. cbn [firstn]. repeat (apply Forall_cons; [lra|]). apply Forall_nil.
Qed.

Example C16_ex_zdt1_biobj : (2 <= length ex_x3)%nat /\ biobj_box [0.5; 2].
Proof.
  split; [unfold ex_x3; cbn [length]; repeat constructor|].
  exists 0.5, 2. split; [reflexivity|]. lra.
Qed.
