(* C10 - SQLite store round-trips problem and individuals; one row per id, last wins.
   Property theorems only; each is closed by `exact`, followed by Print Assumptions.
   Assumed (trusted, exercised by the correspondence): json.loads (json.dumps t) = t on JSON
   trees, and SQLite's INSERT .. ON CONFLICT(id) DO UPDATE / SELECT behave as `upsert` / the
   association list of Model/Store.v. *)
From Coq Require Import List ZArith Bool String.
From Artap Require Import Model.Store Proofs.StoreProofs.
Import ListNotations.
Local Open Scope Z_scope.
Local Open Scope string_scope.
Local Open Scope list_scope.

(* the view rebuilds, from the stored image, exactly the fields the property names
   (individuals inside feature values replaced by their ids: view_of / replace_features) *)
Theorem C10_from_to_dict : forall x, from_dict (to_dict x) = Some (view_of x).
Proof. exact from_to_dict. Qed.

Theorem C10_replace_id_spec :
  (forall id, replace_id (PInd id) = JNum (NInt id)) /\
  (forall l, replace_id (PSeq l) = JArr (map replace_id l)) /\
  (forall n, replace_id (PNum n) = JNum n) /\ (forall b, replace_id (PBool b) = JBool b) /\
  replace_id PNull = JNull.
Proof. exact replace_id_spec. Qed.

(* after ANY history of sync_individual / sync_all calls on a store with distinct row ids:
   ids stay distinct, every id maps to the image of its last synchronisation (or to the row
   it had before, if the history never wrote it), and no other id appears *)
Theorem C10_upsert_one_row_last_wins : forall ops st0, NoDup (keys st0) ->
  let st := exec ops st0 in
  NoDup (keys st) /\
  (forall id, lookup id st =
              match last_sync id (flatten ops) with Some x => Some (to_dict x) | None => lookup id st0 end) /\
  (forall id, In id (keys st) <-> In id (keys st0) \/ In id (map i_id (flatten ops))).
Proof. exact upsert_one_row_last_wins. Qed.

(* the raw row count of a store created empty: one row per distinct id ever synchronised *)
Theorem C10_row_count : forall ops,
  List.length (exec ops []) = List.length (nodup Z.eq_dec (map i_id (flatten ops))).
Proof. exact row_count. Qed.

(* what the read-mode view shows for an id: the fields of its last synchronisation *)
Theorem C10_view_returns_last_sync : forall ops st0 id x, NoDup (keys st0) ->
  last_sync id (flatten ops) = Some x ->
  option_map from_dict (lookup id (exec ops st0)) = Some (Some (view_of x)).
Proof. exact view_returns_last_sync. Qed.

(* a run = any history followed by the final sync_all over the recorded individuals *)
Theorem C10_run_store_complete : forall ops final st0, NoDup (keys st0) ->
  let st := exec (ops ++ [OSyncAll final]) st0 in
  NoDup (keys st) /\
  (forall x, In x final ->
     exists y, last_sync (i_id x) final = Some y /\ lookup (i_id x) st = Some (to_dict y)) /\
  (NoDup (map i_id final) -> forall x, In x final -> lookup (i_id x) st = Some (to_dict x)) /\
  (forall x, In x (flatten ops) -> lookup (i_id x) st <> None).
Proof. exact run_store_complete. Qed.

Theorem C10_problem_meta_roundtrip : forall name description params costs pnames cnames,
  Forall2 (fun d n => name_of d = Some n) params pnames -> NoDup pnames ->
  Forall2 (fun d n => name_of d = Some n) costs cnames -> NoDup cnames ->
  exists t, create_structure name description params costs = Some t /\
            t_individuals t = [] /\
            read_meta t = Some {| p_name := name; p_description := description;
                                  p_parameters := params; p_costs := costs |} /\
            forall st, read_meta (with_individuals t st) = read_meta t.
Proof. exact problem_meta_roundtrip. Qed.

(* a store re-opened in write mode on an existing file (second writing session): synchronising a reloaded
   individual again keeps every field the property names; state becomes null, parents / children are lost *)
Theorem C10_reload_resync : forall x k,
  from_dict (to_dict (loaded_of_row k (to_dict x))) =
  Some {| v_id := v_id (view_of x); v_vector := v_vector (view_of x); v_costs := v_costs (view_of x);
          v_state := JNull; v_costs_signed := v_costs_signed (view_of x);
          v_population_id := v_population_id (view_of x); v_algorithm_id := v_algorithm_id (view_of x);
          v_custom := v_custom (view_of x); v_features := v_features (view_of x) |} /\
  i_parents (loaded_of_row k (to_dict x)) = [] /\ i_children (loaded_of_row k (to_dict x)) = [].
Proof. exact reload_resync. Qed.

(* the boolean tree equality used by the correspondence decides equality *)
Theorem C10_jv_eqb_eq : forall a c, jv_eqb a c = true <-> a = c.
Proof. exact jv_eqb_eq. Qed.

Print Assumptions C10_from_to_dict.
Print Assumptions C10_replace_id_spec.
Print Assumptions C10_upsert_one_row_last_wins.
Print Assumptions C10_row_count.
Print Assumptions C10_view_returns_last_sync.
Print Assumptions C10_run_store_complete.
Print Assumptions C10_problem_meta_roundtrip.
Print Assumptions C10_reload_resync.
Print Assumptions C10_jv_eqb_eq.

(* non-vacuity: a concrete history with a repeated id, a parent reference and an individual
   inside a feature value; the repeated id keeps one row holding the later data *)
Definition ex_ind (id : Z) (c : Z) (feat : list (string * pv)) (parents : list pv) : individual :=
  {| i_id := id; i_vector := [JNum (NFlt 4607182418800017408); JNum (NInt 2)];
     i_costs := [JNum (NInt c)]; i_costs_signed := JArr [JNum (NInt c); JBool false];
     i_state := Evaluated; i_population_id := JNum (NInt 1); i_algorithm_id := JStr "a";
     i_custom := JObj [("k", JArr [JNull; JStr "v"])]; i_features := feat;
     i_parents := parents; i_children := [] |}.

Example C10_ex_history :
  let a1 := ex_ind 7 10 [("dominate", PSeq [PInd 8; PInd 9]); ("front_number", PNull)] [] in
  let b := ex_ind 8 20 [("crowding_distance", PNum (NFlt 9218868437227405312))] [PInd 7] in
  let a2 := ex_ind 7 30 [("dominate", PSeq [])] [] in
  let st := exec [OSync a1; OSync b; OSyncAll [a2; b]] [] in
  keys st = [7; 8] /\ lookup 7 st = Some (to_dict a2) /\ lookup 7 st <> Some (to_dict a1) /\
  last_sync 7 (flatten [OSync a1; OSync b; OSyncAll [a2; b]]) = Some a2 /\
  option_map v_features (from_dict (to_dict a1)) =
    Some (JObj [("dominate", JArr [JNum (NInt 8); JNum (NInt 9)]); ("front_number", JNull)]).
Proof. vm_compute. repeat split; congruence. Qed.

Example C10_ex_meta :
  let p1 := JObj [("name", JStr "x_1"); ("bounds", JArr [JNum (NInt 0); JNum (NInt 5)])] in
  let p2 := JObj [("name", JStr "x_2"); ("initial_value", JNum (NFlt 4612811918334230528))] in
  let c1 := JObj [("name", JStr "F"); ("criteria", JStr "minimize")] in
  Forall2 (fun d n => name_of d = Some n) [p1; p2] ["x_1"; "x_2"] /\ NoDup ["x_1"; "x_2"] /\
  Forall2 (fun d n => name_of d = Some n) [c1] ["F"] /\ NoDup ["F"] /\
  create_structure "p" "" [p1; p1] [c1] = None.
Proof.
  cbv zeta. repeat split; repeat constructor; simpl; intuition discriminate.
Qed.
