(* C14 - Robust (worst-case) and gradient evaluators compute what they promise, stably.
   Property theorems only; each is closed by `exact`, followed by Print Assumptions.

   Reading guide.  `wc_batches ... (init T) bs = (s, idss)`: starting from a new evaluator, the
   batches bs (lists of design vectors, one list per Algorithm.evaluate call / generation) were
   evaluated; s is the final state (heap of Individual objects, the two work lists, ghost logs),
   idss the heap cells of the submitted designs, batch by batch.  Every theorem is for ALL
   sequences of batches, hence also describes the designs of an early batch after any number of
   later batches.  T, the arithmetic, Python's sum(), the objective f, the sign conversion sgn,
   the feasibility flag, the tolerances and the number m of declared objectives are arbitrary. *)
From Coq Require Import List ZArith Arith Bool Lia.
From Artap Require Import Model.Evaluators Proofs.EvaluatorsProofs.
Import ListNotations.
Local Open Scope nat_scope.

Section C14.
  Variable T : Type.
  Variables (add sub mul div : T -> T -> T) (abs : T -> T).
  Variables (zero one mone delta : T).
  Variable psum : list T -> T.
  Variable m : nat.
  Variable tols : list T.
  Variable f : list T -> list T.
  Variable sgn : list T -> list T.
  Variable infeas : list T -> bool.

  (* The model takes the schedule of TRANSIENT failures of the objective (TimeoutError / RuntimeError, after
     which Job re-draws the design) as an input tape `fails`, by global call number.  The first group of
     theorems is about runs without such failures (the empty tape `nof`); the group at the end
     (C14_*_with_transient_failures) is for EVERY tape in which no job fails five times in a row. *)
  Local Notation nof := (fun _ : nat => @None (list T)).
  Local Notation wc_seq := (wc_batches T add sub mul abs zero one mone psum m tols f sgn infeas nof).
  Local Notation g_seq := (g_batches T add sub div zero delta f sgn infeas nof).
  Local Notation cell s id := (h_get T (s_heap T s) id).
  Local Notation c0 := (c0 T zero).
  Local Notation wcv := (wc_child_vecs T add mul zero one mone tols).
  Local Notation gcv := (g_child_vecs T add zero delta).

  (* Each design has exactly 2n children, distinct objects; child 2i is the design displaced by
     (-1)*tol_i on axis i, child 2i+1 by (+1)*tol_i on axis i (set_nth changes that coordinate
     only: C14_displaced_one_axis); each child's only parent is the design; the design itself
     has no parent. *)
  Theorem C14_worstcase_children : forall bs s idss, wc_seq (init T) bs = (s, idss) ->
    Forall2 (Forall2 (fun id v =>
      let d := cell s id in
      d_vec T d = v /\ d_parents T d = [] /\ NoDup (d_children T d) /\
      length (d_children T d) = 2 * length v /\
      (forall i, i < length v ->
         d_vec T (cell s (nth (2 * i) (d_children T d) 0)) =
           set_nth T i (add (nth i v zero) (mul mone (nth i tols zero))) v /\
         d_vec T (cell s (nth (2 * i + 1) (d_children T d) 0)) =
           set_nth T i (add (nth i v zero) (mul one (nth i tols zero))) v) /\
      Forall (fun c => d_parents T (cell s c) = [id] /\ d_children T (cell s c) = [] /\ c <> id)
             (d_children T d))) idss bs.
  Proof. exact (wc_children_thm T add sub mul abs zero one mone psum m tols f sgn infeas). Qed.

  Theorem C14_displaced_one_axis : forall i x (v : list T) d,
    length (set_nth T i x v) = length v /\
    (i < length v -> nth i (set_nth T i x v) d = x) /\
    (forall j, j <> i -> nth j (set_nth T i x v) d = nth j v d).
  Proof.
    exact (fun i x v d => conj (set_nth_length T i x v)
                               (conj (set_nth_same T i x v d) (fun j => set_nth_other T i j x v d))).
  Qed.

  (* After any sequence of batches every submitted design has the costs f(x) followed by exactly one
     extra entry: m + 1 entries.  The extra entry is Python's sum of |f0(x) - f0(child)| over the
     design's own 2n children, f0 = the FIRST user objective (costs[0]); it equals the same sum
     recomputed from the costs recorded in the children, is also features['sensitivity'], and sits
     in costs_signed between the m signed user objectives and the feasibility flag (m + 2 entries
     when the sign conversion keeps the length).  Children keep their m plain costs. *)
  Theorem C14_worstcase_cost_shape_fresh_batches : (forall v, length (f v) = m) -> 1 <= m ->
    forall bs s idss, wc_seq (init T) bs = (s, idss) ->
    Forall2 (Forall2 (fun id v =>
      let d := cell s id in
      let S := psum (map (fun w => abs (sub (c0 (f v)) (c0 (f w)))) (wcv v)) in
      d_costs T d = f v ++ [S] /\
      length (d_costs T d) = m + 1 /\
      S = psum (map (fun c => abs (sub (c0 (d_costs T d)) (c0 (d_costs T (cell s c))))) (d_children T d)) /\
      d_sens T d = Some S /\
      d_signed T d = map SV (sgn (f v)) ++ [SV S; SB (infeas v)] /\
      length (d_signed T d) = length (sgn (f v)) + 2 /\
      d_state T d = EVALUATED /\
      Forall (fun c => d_costs T (cell s c) = f (d_vec T (cell s c)) /\ d_state T (cell s c) = EVALUATED /\
                       d_sens T (cell s c) = None) (d_children T d))) idss bs.
  Proof. exact (wc_cost_shape_thm T add sub mul abs zero one mone psum m tols f sgn infeas). Qed.

  (* The work lists are empty after every batch, and the k-th run() call post-processed exactly
     the designs of the k-th batch: every design is processed in exactly one batch (the cells of
     all submitted designs are pairwise distinct). *)
  Theorem C14_worstcase_no_reprocessing : forall bs s idss, wc_seq (init T) bs = (s, idss) ->
    s_inds T s = [] /\ s_todo T s = [] /\ s_proc T s = idss /\ NoDup (concat idss) /\
    Forall2 (fun ids b => length ids = length b) idss bs.
  Proof. exact (wc_no_reprocessing_thm T add sub mul abs zero one mone psum m tols f sgn infeas). Qed.

  (* The objective is called on: the designs of a batch in order, then the children of each design
     in order; nothing else.  For n-dimensional designs that is 1 + 2n calls per design. *)
  Theorem C14_worstcase_call_budget : forall bs s idss, wc_seq (init T) bs = (s, idss) ->
    s_log T s = flat_map (fun b => b ++ flat_map wcv b) bs /\
    forall n, Forall (Forall (fun v => length v = n)) bs ->
              length (s_log T s) = (1 + 2 * n) * length (concat bs).
  Proof. exact (wc_call_log_thm T add sub mul abs zero one mone psum m tols f sgn infeas). Qed.

  (* Gradient evaluator (non-empty batches; an empty batch raises IndexError in run()).
     features['gradient'][i] = (f0(x + delta e_i) - f0(x)) / delta with f0 the first objective, and it
     is the quotient of the costs recorded in the i-th child and in the design; the design keeps
     exactly the costs f(x); there are exactly n children, child i = x with delta added on axis i. *)
  Theorem C14_gradient_forward_difference : forall bs, Forall (fun b => b <> []) bs ->
    exists s idss, g_seq (init T) bs = Some (s, idss) /\
    Forall2 (Forall2 (fun id v =>
      let d := cell s id in
      d_vec T d = v /\ d_costs T d = f v /\ d_state T d = EVALUATED /\
      d_grad T d = Some (map (fun i => div (sub (c0 (f (set_nth T i (add (nth i v zero) delta) v))) (c0 (f v))) delta)
                             (seq 0 (length v))) /\
      d_grad T d = Some (map (fun c => div (sub (c0 (d_costs T (cell s c))) (c0 (d_costs T d))) delta)
                             (d_children T d)) /\
      length (d_children T d) = length v /\ NoDup (d_children T d) /\
      (forall i, i < length v ->
         let c := nth i (d_children T d) 0 in
         d_vec T (cell s c) = set_nth T i (add (nth i v zero) delta) v /\
         d_costs T (cell s c) = f (d_vec T (cell s c)) /\ d_parents T (cell s c) = [id] /\ c <> id))) idss bs.
  Proof. exact (g_forward_difference_thm T add sub div zero delta f sgn infeas). Qed.

  (* The objective is called on the designs of a batch in order (F14 repair: before their neighbours are
     built), then on the n children of each design in order; nothing else: 1 + n calls per design, i.e.
     exactly n additional evaluations. *)
  Theorem C14_gradient_budget : forall bs, Forall (fun b => b <> []) bs ->
    exists s idss, g_seq (init T) bs = Some (s, idss) /\
    s_log T s = flat_map (fun b => b ++ flat_map gcv b) bs /\
    forall n, Forall (Forall (fun v => length v = n)) bs ->
              length (s_log T s) = (1 + n) * length (concat bs).
  Proof. exact (g_budget_thm T add sub div zero delta f sgn infeas). Qed.

  Theorem C14_gradient_no_reprocessing : forall bs, Forall (fun b => b <> []) bs ->
    exists s idss, g_seq (init T) bs = Some (s, idss) /\
    s_inds T s = [] /\ s_todo T s = [] /\ s_proc T s = idss /\ NoDup (concat idss) /\
    Forall2 (fun ids b => length ids = length b) idss bs.
  Proof. exact (g_no_reprocessing_thm T add sub div zero delta f sgn infeas). Qed.
  (* ---- histories in which a batch may contain designs that are not fresh (F11) ----
     A batch is a list of items: `New v` (a design created for this batch), `Pre v` (created and
     already evaluated by a plain Evaluator, never post-processed) and `Old k` (the k-th design
     created so far, submitted AGAIN); wf_hist: within a batch the Old indices are distinct and
     refer to designs of earlier batches.  hist_vecs gives the vector of every item. *)
  Local Notation wc_run := (wc_hist T add sub mul abs zero one mone psum m tols f sgn infeas nof).
  Local Notation g_run := (g_hist T add sub div zero delta f sgn infeas nof).

  (* After ANY well-formed history every design of every batch - however often it was submitted -
     has exactly m + 1 costs f(x) ++ [S], S = Python's sum of |f0(x) - f0(child)| over its CURRENT
     2n children (each processing replaces the children by 2n new ones with the same displaced
     vectors) and equal to the sum recomputed from the costs stored in those children, m + 2 signed
     entries, features['sensitivity'] = S; the children are linked to it, evaluated, with m costs. *)
  Theorem C14_worstcase_cost_shape : (forall v, length (f v) = m) -> 1 <= m ->
    forall bs, wf_hist T 0 bs ->
    forall s idss, wc_run (init T) [] bs = (s, idss) ->
    Forall2 (Forall2 (fun id v =>
      let d := cell s id in
      let S := psum (map (fun w => abs (sub (c0 (f v)) (c0 (f w)))) (wcv v)) in
      d_vec T d = v /\ d_parents T d = [] /\
      d_costs T d = f v ++ [S] /\ length (d_costs T d) = m + 1 /\
      S = psum (map (fun c => abs (sub (c0 (d_costs T d)) (c0 (d_costs T (cell s c))))) (d_children T d)) /\
      d_sens T d = Some S /\
      d_signed T d = map SV (sgn (f v)) ++ [SV S; SB (infeas v)] /\
      length (d_signed T d) = length (sgn (f v)) + 2 /\
      d_state T d = EVALUATED /\
      NoDup (d_children T d) /\ length (d_children T d) = 2 * length v /\
      map (fun c => d_vec T (cell s c)) (d_children T d) = wcv v /\
      Forall (fun c => d_parents T (cell s c) = [id] /\ d_costs T (cell s c) = f (d_vec T (cell s c)) /\
                       d_state T (cell s c) = EVALUATED /\ d_sens T (cell s c) = None /\ c <> id)
             (d_children T d))) idss (hist_vecs T [] bs).
  Proof.
    exact (fun Hf Hm bs Hwf s idss Hrun =>
             proj2 (proj2 (proj2 (proj2 (wc_hist_thm T add sub mul abs zero one mone psum m tols f sgn infeas
                                                       Hf Hm bs Hwf s idss Hrun))))).
  Qed.

  (* "Not re-processed" under resubmission: the work lists are empty after every batch and the k-th
     run() call post-processes exactly the designs submitted in batch k, in order (a design is
     post-processed once per batch it is submitted in, never in another one).  Objective calls: a
     design is evaluated once, when it is first submitted (Pre: before), because Job.evaluate is
     only reached for EMPTY individuals; every submission evaluates 2n NEW children.  The log is the
     static list hist_log: per batch the Pre vectors, then the New vectors, then the 2n child
     vectors of every item; for n-dimensional designs that is #designs + 2n * #submissions calls. *)
  Theorem C14_worstcase_processing_and_calls : (forall v, length (f v) = m) -> 1 <= m ->
    forall bs, wf_hist T 0 bs ->
    forall s idss, wc_run (init T) [] bs = (s, idss) ->
    s_inds T s = [] /\ s_todo T s = [] /\ s_proc T s = idss /\
    s_log T s = hist_log T
                  (fun infos => map snd (filter fst infos) ++ flat_map (fun p : bool * list T => wcv (snd p)) infos) [] bs /\
    forall n, Forall (Forall (fun v => length v = n)) (hist_vecs T [] bs) ->
              length (s_log T s) = length (flat_map (new_vecs T) bs) + 2 * n * length (concat bs).
  Proof.
    exact (fun Hf Hm bs Hwf s idss Hrun =>
             match wc_hist_thm T add sub mul abs zero one mone psum m tols f sgn infeas Hf Hm bs Hwf s idss Hrun with
             | conj A (conj B (conj C (conj D _))) =>
                 conj A (conj B (conj C (conj D (fun n Hn =>
                   eq_trans (f_equal (@length _) D)
                            (wc_hist_log_length T add mul zero one mone tols n bs [] Hn)))))
             end).
  Qed.

  (* The gradient evaluator under the same histories (non-empty batches): gradient, costs, children
     as for fresh batches, recomputed (with n new children, n more calls) at every submission. *)
  Theorem C14_gradient_with_resubmission : forall bs, wf_hist T 0 bs -> Forall (fun b => b <> []) bs ->
    exists s idss, g_run (init T) [] bs = Some (s, idss) /\
    s_inds T s = [] /\ s_todo T s = [] /\ s_proc T s = idss /\
    s_log T s = hist_log T
                  (fun infos => map snd (filter fst infos) ++ flat_map (fun p : bool * list T => gcv (snd p)) infos) [] bs /\
    Forall2 (Forall2 (fun id v =>
      let d := cell s id in
      d_vec T d = v /\ d_parents T d = [] /\ d_costs T d = f v /\ d_state T d = EVALUATED /\
      d_grad T d = Some (map (fun i => div (sub (c0 (f (set_nth T i (add (nth i v zero) delta) v))) (c0 (f v))) delta)
                             (seq 0 (length v))) /\
      d_grad T d = Some (map (fun c => div (sub (c0 (d_costs T (cell s c))) (c0 (d_costs T d))) delta) (d_children T d)) /\
      NoDup (d_children T d) /\ length (d_children T d) = length v /\
      map (fun c => d_vec T (cell s c)) (d_children T d) = gcv v /\
      Forall (fun c => d_parents T (cell s c) = [id] /\ d_costs T (cell s c) = f (d_vec T (cell s c)) /\
                       d_state T (cell s c) = EVALUATED /\ c <> id) (d_children T d))) idss (hist_vecs T [] bs).
  Proof. exact (g_hist_thm T add sub div zero delta f sgn infeas). Qed.

  (* ---- runs WITH transient failures of the objective (any failure tape, no five failures in a row) ----
     d_fail (ghost) = number of failed attempts of Job.evaluate on that individual; d_fail = 0 reads "its own
     evaluation never failed".  Worst case, after ANY sequence of batches of fresh designs, for every
     submitted design, x = its FINAL vector (the submitted one if its own evaluation never failed, else the
     last re-drawn one):
       - 2n distinct children, linked to it, evaluated once each, costs f(child vector);
       - every child whose own evaluation never failed is at the stated displacement from x (child 2i:
         x - tol_i e_i, child 2i+1: x + tol_i e_i; wc_child_vecs, C14_worstcase_children spells it out);
       - costs = f(x) ++ [S] (m + 1 entries), S = sum of |f0(x) - f0(child)| over the CURRENT children
         vectors, = features['sensitivity'], m + 2 signed entries;
       - corollary (last clause): if no child's own evaluation failed, all 2n children are displaced
         and S is the sum over the 2n displaced vectors: the full statement of the property.
     A child whose own evaluation failed was re-drawn by Job at a random point (what C06 prescribes for
     every design): it is then NOT at x -/+ tol e_i and S is computed against it - the open finding F13.
     The work lists are empty and run() call k processed exactly batch k, as without failures. *)
  Local Notation wc_seqF fails := (wc_batches T add sub mul abs zero one mone psum m tols f sgn infeas fails).
  Local Notation g_seqF fails := (g_batches T add sub div zero delta f sgn infeas fails).

  Theorem C14_worstcase_with_transient_failures : forall fails : nat -> option (list T),
    (forall k, exists j, j < 5 /\ fails (k + j) = None) ->
    (forall v, length (f v) = m) -> 1 <= m ->
    forall bs s idss, wc_seqF fails (init T) bs = (s, idss) ->
    s_inds T s = [] /\ s_todo T s = [] /\ s_proc T s = idss /\
    Forall2 (Forall2 (fun id v =>
      let d := cell s id in let x := d_vec T d in
      let S := psum (map (fun c => abs (sub (c0 (f x)) (c0 (f (d_vec T (cell s c)))))) (d_children T d)) in
      (d_fail T d = 0 -> x = v) /\ d_parents T d = [] /\ d_state T d = EVALUATED /\
      NoDup (d_children T d) /\ length (d_children T d) = 2 * length x /\
      (forall j, j < 2 * length x ->
         let c := nth j (d_children T d) 0 in
         (d_fail T (cell s c) = 0 -> d_vec T (cell s c) = nth j (wcv x) []) /\
         d_parents T (cell s c) = [id] /\ d_children T (cell s c) = [] /\
         d_costs T (cell s c) = f (d_vec T (cell s c)) /\ d_state T (cell s c) = EVALUATED /\ c <> id) /\
      d_costs T d = f x ++ [S] /\ length (d_costs T d) = m + 1 /\ d_sens T d = Some S /\
      d_signed T d = map SV (sgn (f x)) ++ [SV S; SB (infeas x)] /\
      (Forall (fun c => d_fail T (cell s c) = 0) (d_children T d) ->
         map (fun c => d_vec T (cell s c)) (d_children T d) = wcv x /\
         S = psum (map (fun w => abs (sub (c0 (f x)) (c0 (f w)))) (wcv x))))) idss bs.
  Proof. exact (wc_failures_thm T add sub mul abs zero one mone psum m tols f sgn infeas). Qed.

  (* Gradient evaluator (repaired code, F14; non-empty batches): the design keeps costs f(x) at its FINAL
     vector x, has n children; every child whose own evaluation never failed is x with delta added on its
     axis; features['gradient'][i] = (f0(child i) - f0(x)) / delta over the current children; if no child's
     own evaluation failed it is the forward difference (f0(x + delta e_i) - f0(x)) / delta (F13 otherwise). *)
  Theorem C14_gradient_with_transient_failures : forall fails : nat -> option (list T),
    (forall k, exists j, j < 5 /\ fails (k + j) = None) ->
    forall bs, Forall (fun b => b <> []) bs ->
    exists s idss, g_seqF fails (init T) bs = Some (s, idss) /\
    s_inds T s = [] /\ s_todo T s = [] /\ s_proc T s = idss /\
    Forall2 (Forall2 (fun id v =>
      let d := cell s id in let x := d_vec T d in
      (d_fail T d = 0 -> x = v) /\ d_parents T d = [] /\ d_state T d = EVALUATED /\ d_costs T d = f x /\
      NoDup (d_children T d) /\ length (d_children T d) = length x /\
      (forall i, i < length x ->
         let c := nth i (d_children T d) 0 in
         (d_fail T (cell s c) = 0 -> d_vec T (cell s c) = set_nth T i (add (nth i x zero) delta) x) /\
         d_parents T (cell s c) = [id] /\ d_costs T (cell s c) = f (d_vec T (cell s c)) /\
         d_state T (cell s c) = EVALUATED /\ c <> id) /\
      d_grad T d = Some (map (fun c => div (sub (c0 (f (d_vec T (cell s c)))) (c0 (f x))) delta) (d_children T d)) /\
      (Forall (fun c => d_fail T (cell s c) = 0) (d_children T d) ->
         d_grad T d = Some (map (fun i => div (sub (c0 (f (set_nth T i (add (nth i x zero) delta) x))) (c0 (f x))) delta)
                                (seq 0 (length x)))))) idss bs.
  Proof. exact (g_failures_thm T add sub div zero delta f sgn infeas). Qed.
End C14.

Print Assumptions C14_worstcase_children.
Print Assumptions C14_displaced_one_axis.
Print Assumptions C14_worstcase_cost_shape_fresh_batches.
Print Assumptions C14_worstcase_cost_shape.
Print Assumptions C14_worstcase_processing_and_calls.
Print Assumptions C14_gradient_with_resubmission.
Print Assumptions C14_worstcase_no_reprocessing.
Print Assumptions C14_worstcase_call_budget.
Print Assumptions C14_gradient_forward_difference.
Print Assumptions C14_gradient_budget.
Print Assumptions C14_gradient_no_reprocessing.
Print Assumptions C14_worstcase_with_transient_failures.
Print Assumptions C14_gradient_with_transient_failures.

(* non-vacuity: an integer instance (exact arithmetic, sum from the left) with two objectives
   f(x) = [x0^2 + x1; x0 - x1], tolerances [1; 2], three batches; the hypotheses of the theorems
   hold and the first batch's designs still have m + 1 = 3 costs at the end *)
Definition exf (v : list Z) : list Z := [nth 0 v 0 * nth 0 v 0 + nth 1 v 0; nth 0 v 0 - nth 1 v 0]%Z.
Definition exsgn (c : list Z) : list Z := map (fun x => (- x)%Z) c.
Definition exsum (l : list Z) : Z := fold_left Z.add l 0%Z.
Definition exbs : list (list (list Z)) := [[[1; 2]; [3; 4]]; [[5; 6]]; [[1; 2]]]%Z.

Example C14_ex_worstcase :
  (forall v, length (exf v) = 2) /\ 1 <= 2 /\
  let '(s, idss) := wc_batches Z Z.add Z.sub Z.mul Z.abs 0%Z 1%Z (-1)%Z exsum 2 [1; 2]%Z exf exsgn
                               (fun _ => true) (fun _ => None) (init Z) exbs in
  idss = [[0; 1]; [10]; [15]] /\
  map (fun id => d_costs Z (h_get Z (s_heap Z s) id)) (concat idss) =
    [[3; -1; 8]; [13; -1; 16]; [31; -1; 24]; [3; -1; 8]]%Z /\
  map (fun id => d_vec Z (h_get Z (s_heap Z s) id)) (d_children Z (h_get Z (s_heap Z s) 0)) =
    [[0; 2]; [2; 2]; [1; 0]; [1; 4]]%Z /\
  d_signed Z (h_get Z (s_heap Z s) 0) = [SV (-3)%Z; SV 1%Z; SV 8%Z; SB true] /\
  length (s_log Z s) = (1 + 2 * 2) * 4 /\ s_proc Z s = idss.
Proof. split; [reflexivity|]. split; [auto|]. vm_compute. repeat split. Qed.

Example C14_ex_gradient :
  Forall (fun b : list (list Z) => b <> []) exbs /\
  match g_batches Z Z.add Z.sub Z.div 0%Z 1%Z exf exsgn (fun _ => true) (fun _ => None) (init Z) exbs with
  | Some (s, idss) =>
      idss = [[0; 1]; [6]; [9]] /\
      map (fun id => d_grad Z (h_get Z (s_heap Z s) id)) (concat idss) =
        [Some [3; 1]; Some [7; 1]; Some [11; 1]; Some [3; 1]]%Z /\
      map (fun id => d_costs Z (h_get Z (s_heap Z s) id)) (concat idss) = [[3; -1]; [13; -1]; [31; -1]; [3; -1]]%Z /\
      length (s_log Z s) = (1 + 2) * 4
  | None => False
  end.
Proof. split; [repeat constructor; discriminate|]. vm_compute. repeat split. Qed.

(* F11 repaired (`len(costs) >= self.n`): a design handed to evaluate() again and again keeps
   m + 1 = 3 costs; it is evaluated once, and every submission costs 2n = 4 calls for new children.
   History: [x]; [x again]; [x again, y]; [z pre-evaluated, y again]. *)
Definition exhist : list (list (item Z)) :=
  [[New [1; 2]]; [Old 0]; [Old 0; New [3; 4]]; [Pre [5; 6]; Old 1]]%Z.

Example C14_ex_resubmission :
  wf_hist Z 0 exhist /\
  let '(s, idss) := wc_hist Z Z.add Z.sub Z.mul Z.abs 0%Z 1%Z (-1)%Z exsum 2 [1; 2]%Z exf exsgn
                            (fun _ => true) (fun _ => None) (init Z) [] exhist in
  idss = [[0]; [0]; [0; 9]; [18; 9]] /\
  map (map (fun id => d_costs Z (h_get Z (s_heap Z s) id))) idss =
    [[[3; -1; 8]]; [[3; -1; 8]]; [[3; -1; 8]; [13; -1; 16]]; [[31; -1; 24]; [13; -1; 16]]]%Z /\
  d_signed Z (h_get Z (s_heap Z s) 0) = [SV (-3)%Z; SV 1%Z; SV 8%Z; SB true] /\
  d_children Z (h_get Z (s_heap Z s) 0) = [10; 11; 12; 13] /\
  length (s_log Z s) = 3 + 2 * 2 * 6 /\ s_proc Z s = idss /\ s_inds Z s = [] /\ s_todo Z s = [].
Proof.
  split.
  - cbn. repeat split; repeat constructor; cbn; try lia; intuition discriminate.
  - vm_compute. repeat split.
Qed.

(* Transient failures (integer instance, one batch with the design [1;2], tolerances [1;2]): call 0 (the
   design's own evaluation) fails and Job re-draws it to [7;7]; call 4 (its third neighbour, created at
   [7;5]) fails and Job re-draws that neighbour to [9;9].  The tape satisfies the hypothesis of
   C14_*_with_transient_failures.  The neighbours are built around the FINAL vector [7;7]; the re-drawn
   neighbour is the open finding F13: it sits at [9;9] and the extra objective 64 = 13 + 15 + 34 + 2 is
   computed against it (|56 - 90| = 34 instead of |56 - 54| = 2 for [7;5]). *)
Definition exfails (k : nat) : option (list Z) :=
  match k with 0 => Some [7; 7]%Z | 4 => Some [9; 9]%Z | _ => None end.

Example C14_ex_transient_failures :
  (forall k, exists j, j < 5 /\ exfails (k + j) = None) /\
  let '(s, idss) := wc_batches Z Z.add Z.sub Z.mul Z.abs 0%Z 1%Z (-1)%Z exsum 2 [1; 2]%Z exf exsgn
                               (fun _ => true) exfails (init Z) [[[1; 2]]]%Z in
  let cell id := h_get Z (s_heap Z s) id in
  idss = [[0]] /\
  d_vec Z (cell 0) = [7; 7]%Z /\ d_fail Z (cell 0) = 1 /\
  d_costs Z (cell 0) = [56; 0; 64]%Z /\ d_sens Z (cell 0) = Some 64%Z /\
  d_children Z (cell 0) = [1; 2; 3; 4] /\
  map (fun c => d_vec Z (cell c)) [1; 2; 3; 4] = [[6; 7]; [8; 7]; [9; 9]; [7; 9]]%Z /\
  map (fun c => d_fail Z (cell c)) [1; 2; 3; 4] = [0; 0; 1; 0] /\
  s_log Z s = [[1; 2]; [7; 7]; [6; 7]; [8; 7]; [7; 5]; [9; 9]; [7; 9]]%Z /\
  s_proc Z s = idss /\ s_inds Z s = [] /\ s_todo Z s = [].
Proof.
  split.
  - intros k. destruct k as [|[|[|[|[|k]]]]];
      [exists 1|exists 0|exists 0|exists 0|exists 1|exists 0]; split; try lia; reflexivity.
  - vm_compute. repeat split.
Qed.

(* the same tape under the gradient evaluator (delta = 1): neighbours [8;7] and [7;8] around the final
   vector [7;7]; call 4 does not occur (1 + 1 + 2 calls), so no neighbour is re-drawn and the stored
   gradient is the forward difference at [7;7] *)
Example C14_ex_transient_failures_gradient :
  match g_batches Z Z.add Z.sub Z.div 0%Z 1%Z exf exsgn (fun _ => true) exfails (init Z) [[[1; 2]]]%Z with
  | Some (s, idss) =>
      let cell id := h_get Z (s_heap Z s) id in
      idss = [[0]] /\ d_vec Z (cell 0) = [7; 7]%Z /\ d_fail Z (cell 0) = 1 /\ d_costs Z (cell 0) = [56; 0]%Z /\
      map (fun c => d_vec Z (cell c)) (d_children Z (cell 0)) = [[8; 7]; [7; 8]]%Z /\
      d_grad Z (cell 0) = Some [15; 1]%Z /\
      s_log Z s = [[1; 2]; [7; 7]; [8; 7]; [7; 8]]%Z
  | None => False
  end.
Proof. vm_compute. repeat split. Qed.
