(* C15 - Single-objective benchmarks: total on their box, optimum where and as documented.
   Property theorems only; each is closed by `exact`, followed by Print Assumptions.
   Models: Model/Bench.v (artap/benchmark_functions.py, artap/benchmark_robust.py; the coded formulas, fixes F3-F5
   included).  For a benchmark record b (formula, accepted dimensions, box, direction, documented optimum and
   coordinates):
     opt_value_stmt b : for every accepted dimension n the documented coordinates lie in the box and the value
                        there is within 1e-3 of the documented optimum (where no coordinates are documented -
                        Michalewicz 5/10, Schubert - some point of the box has such a value);
     opt_bound_stmt b : for every accepted dimension n and EVERY point x of the box, f x is not better than the
                        documented optimum by more than 1e-3 in the declared direction.
   Dimension bounds that are part of b_dims: Schwefel n <= 3 000 000 (only because the documented coordinates
   420.9687 are rounded: the value there is 2.7e-10 per coordinate; the bound clause holds in every dimension, see
   C15_schwefel_every_dimension), EqualityConstr n <= 10^6 (isclose slack 1e-9). *)
From Coq Require Import Reals List Lia Lra.
From Artap Require Import Model.Bench Proofs.BenchLemmas Proofs.BenchProofsA Proofs.BenchProofsB Proofs.BenchProofsC Proofs.BenchProofsD Proofs.BenchProofsE.
Import ListNotations.
Local Open Scope R_scope.

(* the two clauses for every deterministic benchmark record, every accepted dimension, every point of the box.
   Group 1: proved by hand (sums of squares, |cos| <= 1, exp(-t) <= 1, prod a_i <= exp(sum(a_i - 1))): only the
   axioms of Coq's classical reals. *)
Definition c15_analytic_benchmarks : list bench :=
  [rosenbrock_b; ackley_b; sphere_b; easom_b; eqconstr_b; griewank_b; perm_b; rastrigin_b; zakharov_b; xsy1_b; booth_b; alpine_b].

Theorem C15_analytic_benchmarks : Forall (fun b => opt_value_stmt b /\ opt_bound_stmt b) c15_analytic_benchmarks.
Proof.
  exact (Forall_cons _ (conj rosenbrock_opt_value rosenbrock_opt_bound) (Forall_cons _ (conj ackley_opt_value ackley_opt_bound) (Forall_cons _ (conj sphere_opt_value sphere_opt_bound) (Forall_cons _ (conj easom_opt_value easom_opt_bound) (Forall_cons _ (conj eqconstr_opt_value eqconstr_opt_bound) (Forall_cons _ (conj griewank_opt_value griewank_opt_bound) (Forall_cons _ (conj perm_opt_value perm_opt_bound) (Forall_cons _ (conj rastrigin_opt_value rastrigin_opt_bound) (Forall_cons _ (conj zakharov_opt_value zakharov_opt_bound) (Forall_cons _ (conj xsy1_opt_value xsy1_opt_bound) (Forall_cons _ (conj booth_opt_value booth_opt_bound) (Forall_cons _ (conj alpine_opt_value alpine_opt_bound) (Forall_nil _))))))))))))).
Qed.
Print Assumptions C15_analytic_benchmarks.

(* Group 2: global bounds by the verified interval branch-and-bound of the Interval library (per coordinate / per term
   for the separable Schwefel and Michalewicz, per factor for Schubert, in the last coordinate for XinSheYang2, in x2
   after bounding every Gaussian atom for Synthetic5D/10D), then induction / case analysis by hand. *)
Definition c15_interval_benchmarks : list bench :=
  [schwefel_b; michalewicz_b; sixhump_b; schubert_b; xsy2_b; gramacylee_b; synthetic1d_b; synthetic2d_b; synthetic5d_b; synthetic10d_b].

Theorem C15_interval_benchmarks : Forall (fun b => opt_value_stmt b /\ opt_bound_stmt b) c15_interval_benchmarks.
Proof.
  exact (Forall_cons _ (conj schwefel_opt_value schwefel_opt_bound) (Forall_cons _ (conj michalewicz_opt_value michalewicz_opt_bound) (Forall_cons _ (conj sixhump_opt_value sixhump_opt_bound) (Forall_cons _ (conj schubert_opt_value schubert_opt_bound) (Forall_cons _ (conj xsy2_opt_value xsy2_opt_bound) (Forall_cons _ (conj gramacylee_opt_value gramacylee_opt_bound) (Forall_cons _ (conj synthetic1d_opt_value synthetic1d_opt_bound) (Forall_cons _ (conj synthetic2d_opt_value synthetic2d_opt_bound) (Forall_cons _ (conj synthetic5d_opt_value synthetic5d_opt_bound) (Forall_cons _ (conj synthetic10d_opt_value synthetic10d_opt_bound) (Forall_nil _))))))))))).
Qed.
Print Assumptions C15_interval_benchmarks.

(* XinSheYang3 is randomised: one benchmark per tape of uniform(0,1) draws; the clauses hold for every tape *)
Theorem C15_xsy3_benchmark : forall eps,
  opt_value_stmt (xsy3_b eps) /\ (Forall (fun e => 0 <= e <= 1) eps -> opt_bound_stmt (xsy3_b eps)).
Proof. exact (fun eps => conj (xsy3_opt_value eps) (xsy3_opt_bound eps)). Qed.
Print Assumptions C15_xsy3_benchmark.

(* where the documented coordinates are exact reals the documented optimum is taken exactly, in every dimension *)
Theorem C15_exact_optima :
  (forall n, rosenbrock (repeat 1 n) = 0) /\ (forall n, (1 <= n)%nat -> ackley (repeat 0 n) = 0) /\
  (forall n, sphere (repeat 0 n) = 0) /\ (forall n, easom (repeat PI n) = -1) /\
  (forall n, (1 <= n)%nat -> eqconstr (repeat (1 / sqrt (INR n)) n) = -1) /\ (forall n, griewank (repeat 0 n) = 0) /\
  (forall n, perm (inv_seq n) = 0) /\ (forall n, rastrigin (repeat 0 n) = 0) /\ (forall n, zakharov (repeat 0 n) = 0) /\
  (forall n, xsy1 (repeat 0 n) = 0) /\ (forall n, xsy2 (repeat 0 n) = -1) /\ (forall eps n, xsy3 eps (inv_seq n) = 0) /\
  booth [1; 3] = 0 /\ (forall n, alpine (repeat 0 n) = 0).
Proof.
  exact (conj rosenbrock_opt_exact (conj ackley_opt_exact (conj sphere_opt_exact (conj easom_opt_exact
        (conj eqconstr_opt_exact (conj griewank_opt_exact (conj perm_opt_exact (conj rastrigin_opt_exact
        (conj zakharov_opt_exact (conj xsy1_opt_exact (conj xsy2_opt_exact (conj xsy3_opt_exact
        (conj booth_opt_exact alpine_opt_exact))))))))))))).
Qed.
Print Assumptions C15_exact_optima.

(* every denominator of the formulas is non-zero and every sqrt argument non-negative on the box (constant
   denominators 4000, 15, 3 and the Gaussian widths aside): Ackley n and mean square, Schwefel |c|, EqualityConstr n,
   Griewank sqrt(i+1), Michalewicz pi, Perm (j+1)^i, XinSheYang3 i+1, GramacyLee 2x *)
Theorem C15_well_defined :
  (forall x, (1 <= length x)%nat -> dimR x <> 0 /\ 0 <= sum_map (fun c => c ^ 2) x / dimR x) /\
  (forall c : R, 0 <= Rabs c) /\
  (forall x : list R, 0 <= dimR x) /\
  (forall i : nat, 0 <= INR (S i) /\ sqrt (INR (S i)) <> 0) /\
  PI <> 0 /\
  (forall i j : nat, INR (S j) ^ i <> 0) /\
  (forall i : nat, INR (S i) <> 0) /\
  (forall a, 1 / 2 <= a <= 5 / 2 -> 2 * a <> 0).
Proof.
  exact (conj ackley_well_defined (conj schwefel_well_defined (conj eqconstr_well_defined (conj griewank_well_defined
        (conj michalewicz_well_defined (conj perm_well_defined (conj xsy3_well_defined gramacylee_well_defined))))))).
Qed.
Print Assumptions C15_well_defined.

(* Schwefel in EVERY dimension (no bound on n): with the full-precision constant of fix F9 the coded formula is
   non-negative on the box *)
Theorem C15_schwefel_every_dimension : forall x, in_box (-500) 500 x -> 0 <= schwefel x.
Proof. exact schwefel_lower. Qed.
Print Assumptions C15_schwefel_every_dimension.

(* Perm and "one finite float" (open finding F10): on the box [-n, n]^n the real value of Perm is representable in
   binary64 (at most the largest finite double, (2^53 - 1) 2^971) in every dimension n <= 80, and is not at the corner
   (81, .., 81) of the 81-dimensional box: in dimension 81 no float implementation can return a finite cost
   everywhere on the box (dimensions >= 82 are not part of the statement) *)
Theorem C15_perm_binary64_range :
  (forall n x, (1 <= n <= 80)%nat -> in_boxes (b_box perm_b n) x -> 0 <= perm x <= max_binary64) /\
  (exists x, in_boxes (b_box perm_b 81) x /\ max_binary64 < perm x).
Proof. exact (conj perm_representable perm_exceeds_81). Qed.
Print Assumptions C15_perm_binary64_range.

(* the formulas / declarations before the fixes F4, F3, F5 violate the clauses (refutations of the pre-fix code):
   the parity factor of ModifiedEasom in dimension 1, EqualityConstr without its constraint at (1,1), and the origin
   of the box for Synthetic5D/10D declared 'minimize' *)
Theorem C15_prefix_code_refuted :
  (exists n, (1 <= n)%nat /\ ~ Rabs (easom_prefix (repeat PI n) - (-1)) <= tol) /\
  (exists x, in_boxes (cube 0 1 2) x /\ ~ not_better Minimize (-1) (eqconstr_prefix x)) /\
  (exists x, in_boxes (cube 0 5 5) x /\ ~ not_better Minimize (12 / 10) (synthetic5d x)) /\
  (exists x, in_boxes (cube 0 5 10) x /\ ~ not_better Minimize (12 / 10) (synthetic10d x)).
Proof.
  exact (conj easom_prefix_refuted (conj eqconstr_prefix_refuted
        (conj synthetic5d_minimize_refuted synthetic10d_minimize_refuted))).
Qed.
Print Assumptions C15_prefix_code_refuted.

(* non-vacuity: concrete points and dimensions meet the hypotheses of the bound theorems *)
Example C15_nonvacuous_rastrigin : b_dims rastrigin_b 3 /\ in_boxes (b_box rastrigin_b 3) [1; - (2); 5].
Proof. split; [unfold rastrigin_b, b_dims, any_dim; lia | unfold in_boxes; simpl; repeat constructor; simpl; lra]. Qed.

Example C15_nonvacuous_sixhump : b_dims sixhump_b 2 /\ in_boxes (b_box sixhump_b 2) [-3; 2].
Proof. split; [reflexivity | unfold in_boxes; simpl; repeat constructor; simpl; lra]. Qed.

Example C15_nonvacuous_schwefel : b_dims schwefel_b 3000 /\ in_boxes (b_box schwefel_b 2) [-500; 4209687 / 10000].
Proof.
  split; [unfold schwefel_b, b_dims; split; [lia | rewrite INR_IZR_INZ; simpl; lra]
         | unfold in_boxes; simpl; repeat constructor; simpl; lra].
Qed.

Example C15_nonvacuous_xsy3 : Forall (fun e => 0 <= e <= 1) [0; 1 / 2; 1] /\ b_dims (xsy3_b [0; 1 / 2; 1]) 3.
Proof. split; [repeat constructor; lra | unfold xsy3_b, b_dims; split; [lia | reflexivity]]. Qed.

Example C15_nonvacuous_eqconstr : b_dims eqconstr_b 2 /\ in_boxes (b_box eqconstr_b 2) [3 / 5; 4 / 5]
  /\ Rabs (eqc_sum [3 / 5; 4 / 5] - 1) <= eqc_atol.
Proof.
  split; [unfold eqconstr_b, b_dims; split; [lia | simpl; lra] |].
  split; [unfold in_boxes; simpl; repeat constructor; simpl; lra |].
  unfold eqc_sum, eqc_atol. simpl. replace (3 / 5 * (3 / 5) + (4 / 5 * (4 / 5) + 0) - 1) with 0 by field. rewrite Rabs_R0. lra.
Qed.
