(* C07 - Parallel evaluation is equivalent to serial evaluation under every schedule.
   Property theorems only; each is closed by `exact`, followed by Print Assumptions.

   Granularity (as the property states it): an interleaving is a merge of the tasks' step lists of
   Model/Parallel.v, where the objective call and the store synchronisation are separate steps.  Thread
   switches inside one step (CPython byte code, GIL, joblib dispatch, SQLite's locking protocol) are
   exercised by the correspondence runs, not modelled: the claimed level is "proof, partial".  The
   OperationalError retry of sync_individual IS modelled (Model/Parallel.v XRefused: a refused write attempt
   is a step without effect; theorems C07_refused_store_writes_* below), under the assumption that the lock
   is eventually released.
   Every theorem quantifies over every batch (any size), every merge (hence every worker count: a run
   with k workers is one of the merges) and every objective / constraint / re-roll oracle that is
   `local_env` (does not look at the global call number). *)
From Coq Require Import List ZArith Bool Arith Permutation.
From Artap Require Import Model.Job Model.Parallel Proofs.JobProofs Proofs.ParallelProofs.
Import ListNotations.
Local Open Scope nat_scope.

Section C07.
  Context {T : Type} (ltb : T -> T -> bool) (zero : T) (roundp : nat -> T -> T) (smul : bool -> T -> T).

  Notation exec := (exec ltb zero roundp smul).
  Notation run := (run ltb zero roundp smul).
  Notation evaluate_serial := (evaluate_serial ltb zero roundp smul).

  (* steps of different designs commute on the observable abstraction (individuals by id equal; failed
     list, sync log and call log equal as multisets and equal per design; pending results equal) *)
  Theorem C07_steps_commute : forall (e : env T) ps a b, local_env e -> st_id a <> st_id b ->
    peq (exec e (exec e ps a) b) (exec e (exec e ps b) a).
  Proof. exact (steps_commute T ltb zero roundp smul). Qed.

  (* any family of step lists owned by pairwise distinct designs: every interleaving is observably the
     concatenation (the serial order), from every shared state *)
  Theorem C07_any_interleaving_equals_serial : forall (e : env T), local_env e ->
    forall ls tr, merge ls tr -> forall ids, owned ids ls -> NoDup ids ->
    forall ps, peq (run e tr ps) (run e (concat ls) ps).
  Proof. exact (interleaving_serial T ltb zero roundp smul). Qed.

  (* bridge to C05 / C06: the tasks' small steps in submission order are Model/Job.v's evaluate_serial *)
  Theorem C07_serial_steps_is_job_evaluate : forall (e : env T), local_env e -> forall batch heap0 st ps st',
    NoDup batch -> p_st ps = st ->
    (forall id, In id batch -> nth_error (s_heap st) id = nth_error heap0 id) ->
    evaluate_serial e st batch = (st', Done) ->
    p_st (run e (concat (par_tasks e heap0 batch)) ps) = st'.
  Proof. exact (serial_steps_is_job_evaluate T ltb zero roundp smul). Qed.

  (* the property: for every interleaving of the workers the final designs (vector, costs, signed costs,
     state, feasibility), problem.individuals, problem.failed (multiset), the store (per-design snapshot
     sequence, hence the row of every id) and the objective calls (per design, and as a multiset) are those of
     the serial evaluation of the same batch *)
  Theorem C07_parallel_equals_evaluate_serial : forall (e : env T), local_env e -> forall batch st st' tr,
    NoDup batch -> evaluate_serial e st batch = (st', Done) ->
    merge (par_tasks e (s_heap st) batch) tr ->
    let st_par := p_st (run e tr (lift st)) in
    s_heap st_par = s_heap st' /\ s_pop st_par = s_pop st' /\
    Permutation (s_failed st_par) (s_failed st') /\
    (forall id, syncs_by id (s_store st_par) = syncs_by id (s_store st')) /\
    Permutation (s_store st_par) (s_store st') /\
    (forall id, calls_by id (s_calls st_par) = calls_by id (s_calls st')) /\
    Permutation (map (@strip T) (s_calls st_par)) (map (@strip T) (s_calls st')).
  Proof. exact (parallel_equals_evaluate_serial T ltb zero roundp smul). Qed.

  (* the objective succeeds exactly once for every EMPTY design of the batch and is not called at all for any
     other design, under every interleaving *)
  Theorem C07_objective_once_per_design : forall (e : env T), local_env e -> forall batch st st' tr,
    NoDup batch -> s_calls st = [] -> evaluate_serial e st batch = (st', Done) ->
    merge (par_tasks e (s_heap st) batch) tr ->
    forall id i, nth_error (s_heap st) id = Some i ->
      (istate i = Empty -> In id batch -> length (okc e id (s_calls (p_st (run e tr (lift st))))) = 1) /\
      (istate i <> Empty \/ ~ In id batch -> calls_by id (s_calls (p_st (run e tr (lift st)))) = []).
  Proof. exact (objective_once T ltb zero roundp smul). Qed.

  (* with a store attached every evaluated design is persisted with its final data: the row of its id is
     the design as it is at the end, and that design is EVALUATED *)
  Theorem C07_every_evaluated_design_persisted : forall (e : env T), local_env e -> forall batch st st' tr,
    NoDup batch -> evaluate_serial e st batch = (st', Done) ->
    merge (par_tasks e (s_heap st) batch) tr ->
    forall id i, In id batch -> nth_error (s_heap st) id = Some i -> istate i = Empty ->
    exists i', nth_error (s_heap (p_st (run e tr (lift st)))) id = Some i' /\
               row_of id (s_store (p_st (run e tr (lift st)))) = Some i' /\ istate i' = Evaluated.
  Proof. exact (evaluated_design_persisted T ltb zero roundp smul). Qed.

  (* no torn records: the costs a design ends with are the objective's value for the vector it ends with,
     from a call made for this design in this run *)
  Theorem C07_costs_belong_to_vector : forall (e : env T), local_env e -> forall batch st st' tr,
    NoDup batch -> s_calls st = [] -> evaluate_serial e st batch = (st', Done) ->
    merge (par_tasks e (s_heap st) batch) tr ->
    forall id i, In id batch -> nth_error (s_heap st) id = Some i -> istate i = Empty ->
    exists i' c costs, nth_error (s_heap (p_st (run e tr (lift st)))) id = Some i' /\
      In (strip c) (calls_by id (s_calls (p_st (run e tr (lift st))))) /\
      e_obj e c = Ok costs /\ c_vec c = ivec i' /\ icosts i' = costs /\ istate i' = Evaluated.
  Proof. exact (parallel_costs_belong_to_vector T ltb zero roundp smul). Qed.

  (* the store under lock contention: a write attempt SQLite refuses ("database is locked") is retried by
     sync_individual until it goes through (Model/Parallel.v xstep); an execution may contain any number of refused
     attempts anywhere, provided every write goes through in the end (the execution without the refused attempts
     is a complete interleaving of the tasks = "the lock is eventually released"): the observation is that of
     evaluate_serial - in particular a refused write is never taken for a failed evaluation *)
  Notation xrun := (xrun ltb zero roundp smul).

  Theorem C07_refused_store_writes_invisible : forall (e : env T), local_env e -> forall batch st st' xtr,
    NoDup batch -> evaluate_serial e st batch = (st', Done) ->
    merge (par_tasks e (s_heap st) batch) (erase xtr) ->
    let st_par := p_st (xrun e xtr (lift st)) in
    s_heap st_par = s_heap st' /\ s_pop st_par = s_pop st' /\
    Permutation (s_failed st_par) (s_failed st') /\
    (forall id, syncs_by id (s_store st_par) = syncs_by id (s_store st')) /\
    Permutation (s_store st_par) (s_store st') /\
    (forall id, calls_by id (s_calls st_par) = calls_by id (s_calls st')) /\
    Permutation (map (@strip T) (s_calls st_par)) (map (@strip T) (s_calls st')).
  Proof. exact (refused_writes_invisible T ltb zero roundp smul). Qed.

  Theorem C07_refused_store_writes_once_and_persisted : forall (e : env T), local_env e -> forall batch st st' xtr,
    NoDup batch -> s_calls st = [] -> evaluate_serial e st batch = (st', Done) ->
    merge (par_tasks e (s_heap st) batch) (erase xtr) ->
    Permutation (s_failed (p_st (xrun e xtr (lift st)))) (s_failed st') /\
    forall id i, In id batch -> nth_error (s_heap st) id = Some i -> istate i = Empty ->
      length (okc e id (s_calls (p_st (xrun e xtr (lift st))))) = 1 /\
      exists i', nth_error (s_heap (p_st (xrun e xtr (lift st)))) id = Some i' /\
                 row_of id (s_store (p_st (xrun e xtr (lift st)))) = Some i' /\ istate i' = Evaluated.
  Proof. exact (refused_writes_once_and_persisted T ltb zero roundp smul). Qed.
End C07.

Print Assumptions C07_steps_commute.
Print Assumptions C07_any_interleaving_equals_serial.
Print Assumptions C07_serial_steps_is_job_evaluate.
Print Assumptions C07_parallel_equals_evaluate_serial.
Print Assumptions C07_objective_once_per_design.
Print Assumptions C07_every_evaluated_design_persisted.
Print Assumptions C07_costs_belong_to_vector.
Print Assumptions C07_refused_store_writes_invisible.
Print Assumptions C07_refused_store_writes_once_and_persisted.

(* ---------------------------------------------------------------------------------------------------
   Non-vacuity: a concrete world over Z (objective = [x0 + x1; x0 * x1], first objective maximised,
   one constraint x0 - 2 < 0; design 1 fails on its first attempt and is re-rolled to [5; 1]; design 2
   is already evaluated, design 3 was left IN_PROGRESS) meets the hypotheses; a genuinely interleaved
   trace of three workers is a merge, ends with every EMPTY design evaluated and stored, and equals
   the serial evaluation. *)
Local Open Scope Z_scope.

Definition ex_env : env Z :=
  {| e_signs := [true; false];
     e_obj := fun c => match c_id c, c_att c with
                       | 1%nat, 0%nat => Transient
                       | _, _ => match c_vec c with
                                 | [x; y] => Ok [x + y; x * y]
                                 | _ => Fatal 1
                                 end
                       end;
     e_cons := fun v => match v with x :: _ => [x - 2] | [] => [] end;
     e_reroll := fun c => [5; 1] |}.

Definition ex_smul (b : bool) (x : Z) : Z := if b then - x else x.

Definition ex_heap : list (ind Z) :=
  [fresh [1; 2]; fresh [3; 4]; {| ivec := [7; 7]; icosts := [0; 0]; isigned := Some ([0; 0], true); istate := Evaluated; ifeas := false; iprec := 7%nat |};
   {| ivec := [9; 9]; icosts := []; isigned := None; istate := InProgress; ifeas := false; iprec := 7%nat |}; fresh [0; 6]].

Definition ex_st : state Z := {| s_heap := ex_heap; s_pop := [0; 1; 2; 3; 4]%nat; s_failed := []; s_store := []; s_calls := [] |}.
Definition ex_batch : list nat := [0; 1; 2; 3; 4]%nat.

Lemma ex_local : local_env ex_env.
Proof. intros c c' H1 H2 H3. unfold ex_env; cbn. rewrite H1, H2, H3. split; reflexivity. Qed.

Definition s (id att : nat) (k : kind) : step := mkstep id att k.

(* all objectives before any sync; the last submitted design finishes first *)
Definition ex_trace : list step :=
  [s 0 0 KStart; s 1 0 KStart; s 4 0 KStart; s 0 0 KObj; s 4 0 KObj; s 1 0 KObj; s 1 0 KFail; s 4 0 KWrite;
   s 1 0 KReroll; s 0 0 KWrite; s 1 1 KStart; s 1 1 KObj; s 4 0 KSync; s 1 1 KWrite; s 1 1 KSync; s 0 0 KSync].

Ltac pick_task :=
  cbn [app];
  match goal with
  | |- merge ((?x :: ?l) :: ?r) (?x :: ?tr) => apply (@merge_step _ [] x l r tr)
  | |- merge (?a :: (?x :: ?l) :: ?r) (?x :: ?tr) => apply (@merge_step _ [a] x l r tr)
  | |- merge (?a :: ?b :: (?x :: ?l) :: ?r) (?x :: ?tr) => apply (@merge_step _ [a; b] x l r tr)
  | |- merge (?a :: ?b :: ?c :: (?x :: ?l) :: ?r) (?x :: ?tr) => apply (@merge_step _ [a; b; c] x l r tr)
  | |- merge (?a :: ?b :: ?c :: ?d :: (?x :: ?l) :: ?r) (?x :: ?tr) => apply (@merge_step _ [a; b; c; d] x l r tr)
  end.

Example C07_ex_trace_is_merge : merge (par_tasks ex_env ex_heap ex_batch) ex_trace.
Proof.
  vm_compute. repeat pick_task. cbn [app]. apply merge_done. repeat constructor.
Qed.

Example C07_ex_hypotheses_met :
  local_env ex_env /\ NoDup ex_batch /\ s_calls ex_st = [] /\
  snd (evaluate_serial Z.ltb 0 (fun _ x => x) ex_smul ex_env ex_st ex_batch) = Done /\
  length (concat (par_tasks ex_env ex_heap ex_batch)) = 16%nat.
Proof.
  split; [exact ex_local|]. split; [repeat constructor; cbn; intuition discriminate|].
  vm_compute. repeat split.
Qed.

Example C07_ex_interleaved_run :
  let st_par := p_st (run Z.ltb 0 (fun _ x => x) ex_smul ex_env ex_trace (lift ex_st)) in
  let st_ser := fst (evaluate_serial Z.ltb 0 (fun _ x => x) ex_smul ex_env ex_st ex_batch) in
  s_heap st_par = s_heap st_ser /\
  map (@istate Z) (s_heap st_par) = [Evaluated; Evaluated; Evaluated; InProgress; Evaluated] /\
  map (@icosts Z) (s_heap st_par) = [[3; 2]; [6; 5]; [0; 0]; []; [6; 0]] /\
  map (@isigned Z) (s_heap st_par) = [Some ([-3; 2], false); Some ([-6; 5], true); Some ([0; 0], true); None; Some ([-6; 0], false)] /\
  map (fun id => row_of id (s_store st_par)) ex_batch = map (fun id => row_of id (s_store st_ser)) ex_batch /\
  map (fun id => match row_of id (s_store st_par) with Some i => Some (icosts i) | None => None end) ex_batch =
    [Some [3; 2]; Some [6; 5]; None; None; Some [6; 0]] /\
  s_store st_par <> s_store st_ser /\ map (@c_id Z) (s_calls st_par) <> map (@c_id Z) (s_calls st_ser) /\
  map (@ivec Z) (s_failed st_par) = [[3; 4]].
Proof. vm_compute. repeat split; discriminate. Qed.

(* the locality hypothesis cannot be dropped: an objective that returns the global call number gives
   different costs under two interleavings of two designs *)
Definition ex_env_global : env Z :=
  {| e_signs := [false]; e_obj := fun c => Ok [Z.of_nat (c_no c)]; e_cons := fun _ => []; e_reroll := fun c => c_vec c |}.

Example C07_ex_locality_needed :
  let heap := [fresh [1]; fresh [2]] in
  let st := {| s_heap := heap; s_pop := []; s_failed := []; s_store := []; s_calls := [] |} in
  let t0 := task_steps ex_env_global heap 0 in
  let t1 := task_steps ex_env_global heap 1 in
  merge [t0; t1] (t0 ++ t1) /\ merge [t0; t1] (t1 ++ t0) /\
  s_heap (p_st (run Z.ltb 0 (fun _ x => x) ex_smul ex_env_global (t0 ++ t1) (lift st))) <>
  s_heap (p_st (run Z.ltb 0 (fun _ x => x) ex_smul ex_env_global (t1 ++ t0) (lift st))).
Proof.
  vm_compute. split; [|split].
  - repeat pick_task. cbn [app]. apply merge_done. repeat constructor.
  - repeat pick_task. cbn [app]. apply merge_done. repeat constructor.
  - discriminate.
Qed.

(* the store refuses writes: design 4 is refused three times, design 1 six times in a row, design 0 once, each while it
   is writing (after its KWrite, before its KSync); without
   the refusals the execution is the merge above, and the run ends exactly as without them: nothing in failed but the
   one scripted failure, one row per evaluated design *)
Definition x (id att : nat) (k : kind) : xstep := XStep (mkstep id att k).
Definition ex_xtrace : list xstep :=
  [x 0 0 KStart; x 1 0 KStart; x 4 0 KStart; x 0 0 KObj; x 4 0 KObj; x 1 0 KObj; x 1 0 KFail; x 4 0 KWrite;
   XRefused 4 0; x 1 0 KReroll; x 0 0 KWrite; XRefused 4 0; x 1 1 KStart; x 1 1 KObj; XRefused 4 0; x 4 0 KSync;
   x 1 1 KWrite; XRefused 1 1; XRefused 1 1; XRefused 1 1; XRefused 1 1; XRefused 1 1; XRefused 1 1; x 1 1 KSync;
   XRefused 0 0; x 0 0 KSync].

Example C07_ex_refused_writes :
  erase ex_xtrace = ex_trace /\ refusals_while_writing [] ex_xtrace = true /\
  length (filter (fun y => match y with XRefused _ _ => true | _ => false end) ex_xtrace) = 10%nat /\
  let st_x := p_st (xrun Z.ltb 0 (fun _ x => x) ex_smul ex_env ex_xtrace (lift ex_st)) in
  st_x = p_st (run Z.ltb 0 (fun _ x => x) ex_smul ex_env ex_trace (lift ex_st)) /\
  map (@ivec Z) (s_failed st_x) = [[3; 4]] /\ length (s_calls st_x) = 4%nat /\ length (s_store st_x) = 3%nat.
Proof. vm_compute. repeat split. Qed.
