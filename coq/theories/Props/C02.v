(* C02 - Non-dominated sorting assigns every individual its true Pareto rank.
   Property theorems only; each is closed by `exact`, followed by Print Assumptions.
   `fnds cmp pop` is the model of Selector.fast_nondominated_sorting (Model/Fnds.v): the list of
   features['front_number'] after the call, in population order.  `dominators cmp pop i` are the
   positions whose member dominates member i according to the comparator (C02_dominators_spec). *)
From Coq Require Import List ZArith Bool Floats Permutation.
From Artap Require Import Base.Ord Base.FloatInst Base.QInst Model.Dominance Proofs.DominanceProofs
                          Model.Fnds Proofs.FndsProofs.
Import ListNotations.

Section C02.
  Context {T : Type} (ltb : T -> T -> bool) (H : SWO ltb).

  (* what "dominates" means in the statements below: verdict 1 of the C01 comparator *)
  Theorem C02_dominators_spec : forall pop i j,
    In j (dominators (pareto_compare ltb) pop i) <->
    exists c a, nth_error pop j = Some c /\ nth_error pop i = Some a /\
                pareto_compare ltb (cost c) (cost a) = 1.
  Proof. exact (dominators_spec (pareto_compare ltb)). Qed.

  (* the property: every individual carries a front number; it is 1 if nobody dominates it and
     otherwise one more than the largest front number among its dominators *)
  Theorem C02_fnds_rank : forall pop, NoDup (map iid pop) -> uniform_len pop ->
    exists fr, fnds (pareto_compare ltb) pop = Some fr /\ length fr = length pop /\
      forall i, i < length pop ->
        nth i fr None = Some (S (list_max (map (rank_at fr) (dominators (pareto_compare ltb) pop i)))).
  Proof.
    exact (fun pop Hnd Hu =>
             fnds_rank (pareto_compare ltb) (pareto_antisym ltb H) pop (pareto_trans_on ltb H pop Hu) Hnd).
  Qed.

  (* nobody is left unranked and the model's fuel never runs out *)
  Theorem C02_fnds_total : forall pop, NoDup (map iid pop) -> uniform_len pop ->
    exists fr, fnds (pareto_compare ltb) pop = Some fr /\ length fr = length pop /\
      forall i, i < length pop -> exists k, nth i fr None = Some k /\ 1 <= k.
  Proof.
    exact (fun pop Hnd Hu =>
             fnds_total (pareto_compare ltb) (pareto_antisym ltb H) pop (pareto_trans_on ltb H pop Hu) Hnd).
  Qed.

  (* front 1 is exactly the non-dominated subset *)
  Theorem C02_front1_is_nondominated_set : forall pop fr i, NoDup (map iid pop) -> uniform_len pop ->
    fnds (pareto_compare ltb) pop = Some fr -> i < length pop ->
    (nth i fr None = Some 1 <-> dominators (pareto_compare ltb) pop i = []).
  Proof.
    exact (fun pop fr i Hnd Hu Hf =>
             front1_is_nondominated_set (pareto_compare ltb) pop fr i
               (fnds_is_ranking (pareto_compare ltb) (pareto_antisym ltb H) pop fr (pareto_trans_on ltb H pop Hu) Hnd Hf)).
  Qed.

  (* members of one front never dominate each other *)
  Theorem C02_same_front_no_domination : forall pop fr i j, NoDup (map iid pop) -> uniform_len pop ->
    fnds (pareto_compare ltb) pop = Some fr ->
    nth i fr None = nth j fr None -> ~ In j (dominators (pareto_compare ltb) pop i).
  Proof.
    exact (fun pop fr i j Hnd Hu Hf =>
             same_front_no_domination (pareto_compare ltb) pop fr i j
               (fnds_is_ranking (pareto_compare ltb) (pareto_antisym ltb H) pop fr (pareto_trans_on ltb H pop Hu) Hnd Hf)).
  Qed.

  (* in every input order: a member gets the same front number wherever it stands *)
  Theorem C02_fnds_order_independent : forall pop pop' fr fr', NoDup (map iid pop) -> uniform_len pop ->
    Permutation pop pop' ->
    fnds (pareto_compare ltb) pop = Some fr -> fnds (pareto_compare ltb) pop' = Some fr' ->
    forall i i' x, nth_error pop i = Some x -> nth_error pop' i' = Some x -> nth i fr None = nth i' fr' None.
  Proof.
    exact (fun pop pop' fr fr' Hnd Hu =>
             fnds_order_independent (pareto_compare ltb) (pareto_antisym ltb H) pop pop' fr fr'
               (pareto_trans_on ltb H pop Hu) Hnd).
  Qed.

  (* the front number depends only on the member's cost vector and on the set of cost vectors present
     (so duplicated cost vectors share a front), and the rank equation has a single solution *)
  Theorem C02_rank_cost_only : forall pop pop' fr fr', uniform_len pop ->
    (forall c, In c (map cost pop) <-> In c (map cost pop')) ->
    is_ranking (pareto_compare ltb) pop fr -> is_ranking (pareto_compare ltb) pop' fr' ->
    forall i i' a b, nth_error pop i = Some a -> nth_error pop' i' = Some b -> cost a = cost b ->
      nth i fr None = nth i' fr' None.
  Proof.
    exact (fun pop pop' fr fr' Hu =>
             ranking_cost_only (pareto_compare ltb) (pareto_antisym ltb H) pop pop' fr fr' (pareto_trans_on ltb H pop Hu)).
  Qed.

  Theorem C02_rank_unique : forall pop fr fr', uniform_len pop ->
    is_ranking (pareto_compare ltb) pop fr -> is_ranking (pareto_compare ltb) pop fr' -> fr = fr'.
  Proof.
    exact (fun pop fr fr' Hu =>
             rank_unique (pareto_compare ltb) (pareto_antisym ltb H) pop fr fr' (pareto_trans_on ltb H pop Hu)).
  Qed.
End C02.

(* the sorter is correct for every comparator that satisfies the C01 laws on the population *)
Theorem C02_fnds_rank_generic : forall (C : Type) (cmp : C -> C -> nat),
  (forall p q, cmp q p = swap (cmp p q)) ->
  forall pop, trans_on cmp (map cost pop) -> NoDup (map iid pop) ->
  exists fr, fnds cmp pop = Some fr /\ length fr = length pop /\
    forall i, i < length pop ->
      nth i fr None = Some (S (list_max (map (rank_at fr) (dominators cmp pop i)))).
Proof. exact (@fnds_rank). Qed.

(* the instance the correspondence executes: binary64 costs with Python's `<` *)
Theorem C02_float_fnds_rank : forall pop : list (ind (list float * Z)), NoDup (map iid pop) -> uniform_len pop ->
  exists fr, fnds (pareto_compare fltb) pop = Some fr /\ length fr = length pop /\
    forall i, i < length pop ->
      nth i fr None = Some (S (list_max (map (rank_at fr) (dominators (pareto_compare fltb) pop i)))).
Proof. exact (C02_fnds_rank fltb fltb_SWO). Qed.

Print Assumptions C02_dominators_spec.
Print Assumptions C02_fnds_rank.
Print Assumptions C02_fnds_total.
Print Assumptions C02_front1_is_nondominated_set.
Print Assumptions C02_same_front_no_domination.
Print Assumptions C02_fnds_order_independent.
Print Assumptions C02_rank_cost_only.
Print Assumptions C02_rank_unique.
Print Assumptions C02_fnds_rank_generic.
Print Assumptions C02_float_fnds_rank.

(* non-vacuity: a concrete population (duplicates, an infeasible-marked member, a three-deep chain)
   meets the hypotheses, and the model returns the ranks the property requires *)
Definition C02_ex_pop : list (ind (list Z * Z)) :=
  [ mk_ind 10 ([1; 1]%Z, 1%Z); mk_ind 11 ([2; 2]%Z, 1%Z); mk_ind 12 ([1; 3]%Z, 1%Z);
    mk_ind 13 ([3; 3]%Z, 1%Z); mk_ind 14 ([0; 5]%Z, 0%Z); mk_ind 15 ([2; 2]%Z, 1%Z) ].

Example C02_ex_hyps : NoDup (map iid C02_ex_pop) /\ uniform_len C02_ex_pop.
Proof.
  split.
  - cbn. repeat constructor; cbn; intuition discriminate.
  - intros x y Hx Hy. cbn in Hx, Hy.
    repeat (destruct Hx as [<-|Hx]); try destruct Hx; repeat (destruct Hy as [<-|Hy]); try destruct Hy; reflexivity.
Qed.

Example C02_ex_ranks :
  fnds (pareto_compare Z.ltb) C02_ex_pop = Some [Some 2; Some 3; Some 3; Some 4; Some 1; Some 3] /\
  dominators (pareto_compare Z.ltb) C02_ex_pop 3 = [0; 1; 2; 4; 5] /\
  dominators (pareto_compare Z.ltb) C02_ex_pop 4 = [].
Proof. vm_compute. repeat split. Qed.
