(* C20 - design-point equality means equal coordinates and agrees with hashing. *)
From Coq Require Import List Bool ZArith Lia.
From Artap Require Import Model.IndividualEq Proofs.IndividualEqProofs.
Import ListNotations.

Section C20.
  Context {T : Type} (ltb : T -> T -> bool) (absdiff : T -> T -> T) (tol : T).
  Local Notation close := (close ltb absdiff tol).
  Local Notation ind_eq := (ind_eq ltb absdiff tol).

  (* equal exactly when all coordinates coincide to the tolerance (n >= 0, equal lengths) *)
  Theorem C20_eq_iff_all_close : forall v w, length v = length w ->
    (ind_eq v w = Some true <-> Forall2 (fun a b => close a b = true) v w).
  Proof. exact (eq_iff_all_close ltb absdiff tol). Qed.

  Theorem C20_eq_total : forall v w, length v = length w -> ind_eq v w <> None.
  Proof. exact (eq_total ltb absdiff tol). Qed.

  (* a difference in any one coordinate, whichever it is, makes the points unequal *)
  Theorem C20_eq_detects_any_coordinate : forall v w i a b, length v = length w ->
    nth_error v i = Some a -> nth_error w i = Some b -> close a b = false -> ind_eq v w = Some false.
  Proof. exact (eq_detects_any_coordinate ltb absdiff tol). Qed.

  Theorem C20_eq_symmetric : (forall a b, close a b = close b a) ->
    forall v w, length v = length w -> ind_eq v w = ind_eq w v.
  Proof. exact (eq_sym ltb absdiff tol). Qed.

  Theorem C20_identical_same_hash : forall (h : list T -> Z) (x y : indiv),
    ivec x = ivec y -> ihash h x = ihash h y.
  Proof. exact (identical_same_hash (T := T)). Qed.

  (* membership test / duplicate detection during offspring generation *)
  Theorem C20_mem_spec : forall x l,
    mem ltb absdiff tol x l = true <-> exists item, In item l /\ item_eq ltb absdiff tol item x = true.
  Proof. exact (mem_spec ltb absdiff tol). Qed.

  Theorem C20_item_eq_spec : forall item x : indiv, length (ivec item) = length (ivec x) ->
    (item_eq ltb absdiff tol item x = true <->
     fst item = fst x \/ Forall2 (fun a b => close a b = true) (ivec item) (ivec x)).
  Proof. exact (item_eq_spec ltb absdiff tol). Qed.

  Theorem C20_generate_rejects_only_repeats : forall (child : indiv) offs,
    child_repeated ltb absdiff tol child offs = true <->
    exists o, In o offs /\ ind_eq (ivec child) (ivec o) = Some true.
  Proof. exact (child_repeated_spec ltb absdiff tol). Qed.

  (* list.remove / Archive.remove hits the first equal element and nothing else *)
  Theorem C20_remove_hits_equal_only : forall x l r, list_remove ltb absdiff tol x l = Some r ->
    exists l1 y l2, l = l1 ++ y :: l2 /\ r = l1 ++ l2 /\ item_eq ltb absdiff tol y x = true /\
                    forall z, In z l1 -> item_eq ltb absdiff tol z x = false.
  Proof. exact (remove_spec ltb absdiff tol). Qed.

  Theorem C20_remove_fails_iff_absent : forall x l,
    list_remove ltb absdiff tol x l = None <-> mem ltb absdiff tol x l = false.
  Proof. exact (remove_none ltb absdiff tol). Qed.

  (* set(): survivors are inputs, no survivor repeats an earlier one, every input is
     represented by a survivor with the same hash that is equal to it *)
  Theorem C20_set_dedupe_exact : forall (h : list T -> Z) l,
    incl (dedupe ltb absdiff tol h l) l /\ NoRepeat ltb absdiff tol h (dedupe ltb absdiff tol h l) /\
    ((forall y, same_key ltb absdiff tol h y y = true) ->
     forall x, In x l -> covered ltb absdiff tol h (dedupe ltb absdiff tol h l) x).
  Proof. exact (dedupe_spec ltb absdiff tol). Qed.

  Theorem C20_merged_is_equal : forall (h : list T -> Z) (e x : indiv),
    length (ivec e) = length (ivec x) -> same_key ltb absdiff tol h e x = true ->
    ihash h e = ihash h x /\
    (fst e = fst x \/ Forall2 (fun a b => close a b = true) (ivec e) (ivec x)).
  Proof. exact (same_key_close ltb absdiff tol). Qed.

  (* equality, hashing and the duplicate test are functions of the two vectors (and, for the
     container primitives, of object identity) only.  The model individual has no other field:
     Individual.id, costs, state, population_id, features ... cannot influence any result above. *)
  Theorem C20_depends_on_vectors_only : forall (h : list T -> Z) (x y x' y' : indiv),
    ivec x = ivec x' -> ivec y = ivec y' -> Nat.eqb (fst x) (fst y) = Nat.eqb (fst x') (fst y') ->
    item_eq ltb absdiff tol x y = item_eq ltb absdiff tol x' y' /\ ihash h x = ihash h x' /\
    child_repeated ltb absdiff tol x [y] = child_repeated ltb absdiff tol x' [y'].
  Proof. exact (item_eq_vectors_only ltb absdiff tol). Qed.

  (* GeneticAlgorithm.generate, the whole while loop, for every stream of child pairs and N >= 2:
     a child of a consumed pair that is not among the returned offspring is equal (all coordinates
     within the tolerance) to a returned design - no distinct design is discarded; the only other
     way to be dropped is to be the second child of the last pair when the list is already full *)
  Theorem C20_generate_discards_only_repeats : forall N pairs r left, 2 <= N ->
    generate ltb absdiff tol N pairs [] = (r, left) ->
    forall k c1 c2, nth_error pairs k = Some (c1, c2) -> k < length pairs - left ->
      (In c1 r \/ exists o, In o r /\ ind_eq (ivec c1) (ivec o) = Some true) /\
      (In c2 r \/ (exists o, In o r /\ ind_eq (ivec c2) (ivec o) = Some true) \/
       (S k = length pairs - left /\ length r = N)).
  Proof. exact (generate_discards_only_repeats ltb absdiff tol). Qed.

  (* ... and no returned offspring is equal to one returned before it - no repeated design is accepted *)
  Theorem C20_generate_accepts_no_repeat : forall N pairs r left, 2 <= N ->
    generate ltb absdiff tol N pairs [] = (r, left) ->
    length r <= N /\
    forall l1 e l2, r = l1 ++ e :: l2 -> forall o, In o l1 -> ind_eq (ivec e) (ivec o) <> Some true.
  Proof. exact (generate_accepts_no_repeat ltb absdiff tol). Qed.
End C20.

Print Assumptions C20_eq_iff_all_close.
Print Assumptions C20_eq_total.
Print Assumptions C20_eq_detects_any_coordinate.
Print Assumptions C20_eq_symmetric.
Print Assumptions C20_identical_same_hash.
Print Assumptions C20_mem_spec.
Print Assumptions C20_item_eq_spec.
Print Assumptions C20_generate_rejects_only_repeats.
Print Assumptions C20_remove_hits_equal_only.
Print Assumptions C20_remove_fails_iff_absent.
Print Assumptions C20_set_dedupe_exact.
Print Assumptions C20_merged_is_equal.
Print Assumptions C20_depends_on_vectors_only.
Print Assumptions C20_generate_discards_only_repeats.
Print Assumptions C20_generate_accepts_no_repeat.

(* non-vacuity with exact integers (tolerance 2 on a grid of integers): the symmetry premise
   holds, and concrete vectors exercise both verdicts *)
Definition zabsdiff (a b : Z) : Z := Z.abs (a - b).
Example C20_ex_sym_premise : forall a b, close Z.ltb zabsdiff 2%Z a b = close Z.ltb zabsdiff 2%Z b a.
Proof. intros a b. unfold close, zabsdiff. f_equal. lia. Qed.
Example C20_ex_values :
  ind_eq Z.ltb zabsdiff 2%Z [1; 2; 3]%Z [9; 2; 3]%Z = Some false /\
  ind_eq Z.ltb zabsdiff 2%Z [1; 2; 3]%Z [1; 3; 2]%Z = Some true /\
  length [1; 2; 3]%Z = length [9; 2; 3]%Z /\
  map fst (dedupe Z.ltb zabsdiff 2%Z (fun v => fold_right Z.add 0%Z v)
             [(0, [1; 2]%Z); (1, [5; 5]%Z); (2, [1; 2]%Z); (3, [2; 1]%Z)]) = [0; 1].
Proof. vm_compute. repeat split. Qed.

(* generate on a concrete stream, N = 3, tolerance 2: (1,[5;5]) is a repeat of (0,[5;6]) and is
   discarded, (3,[9;9]) is distinct and kept, the second child of the last pair finds the list full *)
Example C20_ex_generate :
  generate Z.ltb zabsdiff 2%Z 3
    [((0, [5; 6]%Z), (1, [5; 5]%Z)); ((2, [5; 9]%Z), (3, [9; 9]%Z)); ((4, [0; 0]%Z), (5, [1; 1]%Z))] []
  = ([(0, [5; 6]%Z); (2, [5; 9]%Z); (3, [9; 9]%Z)], 1) /\ 2 <= 3.
Proof. vm_compute. split; [reflexivity | lia]. Qed.
