(* Property C12: space-filling samplers have their defining coverage structure.
   Statements over the exact-rational model Model/Samplers.v (regime R3); proofs in
   Proofs/SamplersProofs.v.  Every theorem is unbounded in the sample count, the parameter count,
   the bounds and the oracle tapes, except C12_primes_correct and C12_halton_radical_inverse, which are
   stated for up to 300 parameters: the hypothesis `length bs <= 300` (needed for "the bases are the first
   primes") stands in front of the WHOLE statement of C12_halton_radical_inverse.  The radical-inverse law
   for any list of bases the generator returns, without that bound, is Proofs/SamplersProofs.v
   halton_radical_inverse (not restated here). *)
From Coq Require Import List ZArith QArith Qabs Bool Arith Permutation SetoidList.
From Artap Require Import Model.Samplers Proofs.SamplersProofs.
Import ListNotations.
Local Open Scope Q_scope.

(* Latin hypercube: for all N >= 1, all draws in [0,1), all permutations (one per column), all bounds lb < ub:
   column j has exactly one sample in stratum s = [lb + s w, lb + (s+1) w), w = (ub - lb)/N, for every s < N *)
Theorem C12_lhs_stratified : forall N bs u perms, (0 < N)%nat ->
  (forall i j, (i < N)%nat -> (j < length bs)%nat -> in_unit (mat u i j)) ->
  (forall j, (j < length bs)%nat -> Permutation (nth j perms []) (seq 0 N)) ->
  forall j, (j < length bs)%nat -> blo bs j < bhi bs j ->
  forall s, (s < N)%nat ->
    count (in_stratumb N (blo bs j) (bhi bs j) s) (column j (build_lhs N bs u perms)) = 1%nat.
Proof. exact lhs_stratified. Qed.
Print Assumptions C12_lhs_stratified.

(* ... and sample i of column j is the one in the stratum the column's permutation names at position i *)
Theorem C12_lhs_sample_in_stratum : forall N bs u perms i j, (0 < N)%nat -> (i < N)%nat -> (j < length bs)%nat ->
  (forall r, (r < N)%nat -> in_unit (mat u r j)) -> blo bs j < bhi bs j ->
  (nth i (nth j perms []) 0 < N)%nat ->
  in_stratum N (blo bs j) (bhi bs j) (nth i (nth j perms []) 0%nat) (mat (build_lhs N bs u perms) i j).
Proof. exact lhs_sample_stratum. Qed.
Print Assumptions C12_lhs_sample_in_stratum.

(* Halton: for up to 300 parameters the generator succeeds, returns N points, its bases are the first n primes,
   and point i (i >= 1: the burn-in point is dropped), coordinate j is lb_j + phi_{p_j}(i) (ub_j - lb_j), phi the
   radical inverse (sum of digit_k(i) / p^(k+1) over the base-p digits of i) *)
Theorem C12_halton_radical_inverse : forall N bs, (length bs <= 300)%nat ->
  exists base X, first_primes (length bs) base /\ build_halton N bs = Some X /\
    length X = N /\ rect (length bs) X /\
    forall i j, (1 <= i <= N)%nat -> (j < length bs)%nat -> blo bs j <= bhi bs j ->
      mat X (i - 1) j == blo bs j + phi (nth j base 0%nat) i * (bhi bs j - blo bs j).
Proof. exact halton_points. Qed.
Print Assumptions C12_halton_radical_inverse.

(* selected rows: `build_halton_at N bs idxs` (the closed form of single rows, halton_row_at, which the correspondence
   evaluates for large N where only selected points are compared) returns exactly the rows with the listed point numbers
   (counted from 1) of `build_halton N bs`, the design the theorem above speaks about; it returns iff build_halton does
   and every listed number is in 1..N *)
Theorem C12_halton_selected_rows : forall N bs idxs,
  (forall rows, build_halton N bs = Some rows -> Forall (fun i => (1 <= i <= N)%nat) idxs ->
     build_halton_at N bs idxs = Some (map (fun i => nth (i - 1) rows []) idxs)) /\
  (forall sel, build_halton_at N bs idxs = Some sel ->
     exists rows, build_halton N bs = Some rows /\ Forall (fun i => (1 <= i <= N)%nat) idxs /\
                  sel = map (fun i => nth (i - 1) rows []) idxs).
Proof. exact halton_selected_rows. Qed.
Print Assumptions C12_halton_selected_rows.

(* the 2/3-wheel sieve and the enlargement loop of halton() deliver the first n primes (n <= 300) *)
Theorem C12_primes_correct : forall n, (n <= 300)%nat ->
  exists base, halton_base n = Some base /\ first_primes n base.
Proof. exact primes_correct. Qed.
Print Assumptions C12_primes_correct.

(* uniform grid, k >= 2: k^n rows; a vector is a row iff each coordinate is one of the k levels
   lb + i (ub - lb)/(k - 1) of its parameter; no combination twice (lb < ub) *)
Theorem C12_grid_complete : forall k bs, (2 <= k)%nat ->
  length (uniform_grid k bs) = (k ^ length bs)%nat /\
  (forall v, InA (eqlistA Qeq) v (uniform_grid k bs) <-> Forall2 (is_level k) bs v) /\
  (Forall (fun b => fst b < snd b) bs -> NoDupA (eqlistA Qeq) (uniform_grid k bs)).
Proof. exact grid_complete. Qed.
Print Assumptions C12_grid_complete.

(* the levels run from the lower to the upper bound *)
Theorem C12_grid_first_last : forall k b, (2 <= k)%nat -> level k b 0 == fst b /\ level k b (k - 1) == snd b.
Proof. exact grid_first_last. Qed.
Print Assumptions C12_grid_first_last.

(* random generator: exactly N designs, each coordinate in its box up to half a unit of the precision
   it is rounded to (default 1e-12); exactly one draw per coordinate is consumed *)
Theorem C12_random_count_in_box : forall N ps tape vs, Forall ok_param ps -> Forall in_unit tape ->
  random_generate N ps tape = Some vs ->
  length vs = N /\ Forall (Forall2 in_box_p ps) vs /\ length tape = (N * length ps)%nat.
Proof. exact random_count_in_box. Qed.
Print Assumptions C12_random_count_in_box.

Theorem C12_random_total : forall N ps tape, length tape = (N * length ps)%nat ->
  exists vs, random_generate N ps tape = Some vs.
Proof. exact random_total. Qed.
Print Assumptions C12_random_total.

(* all four return one coordinate per declared parameter (and the LHS returns N rows) *)
Theorem C12_dimension_ok :
  (forall N bs u perms, length (build_lhs N bs u perms) = N /\ rect (length bs) (build_lhs N bs u perms)) /\
  (forall N bs X, build_halton N bs = Some X -> rect (length bs) X) /\
  (forall k bs, rect (length bs) (uniform_grid k bs)) /\
  (forall N ps tape vs, Forall ok_param ps -> Forall in_unit tape ->
     random_generate N ps tape = Some vs -> rect (length ps) vs).
Proof. exact dimension_ok. Qed.
Print Assumptions C12_dimension_ok.

(* ---- non-vacuity: concrete non-trivial inputs meet the hypotheses ---------------------------- *)
Definition ex_bs : list (Q * Q) := [(0, 3); (-(1), 1)].
Definition ex_u : list (list Q) := [[1 # 2; 0]; [1 # 4; 3 # 4]; [0; 1 # 3]].
Definition ex_perms : list (list nat) := [[2; 0; 1]; [1; 2; 0]]%nat.

Example C12_lhs_hypotheses_met :
  (forall i j, (i < 3)%nat -> (j < length ex_bs)%nat -> in_unit (mat ex_u i j)) /\
  (forall j, (j < length ex_bs)%nat -> Permutation (nth j ex_perms []) (seq 0 3)) /\
  (forall j, (j < length ex_bs)%nat -> blo ex_bs j < bhi ex_bs j) /\
  map (map Qred) (build_lhs 3 ex_bs ex_u ex_perms) = [[2; 1 # 6]; [1 # 2; 5 # 9]; [5 # 4; -(1)]].
Proof.
  split; [|split; [|split]].
  - intros [|[|[|i]]] [|[|j]] Li Lj; cbn in Li, Lj; try (exfalso; apply (Nat.nlt_0_r _ (proj2 (Nat.succ_lt_mono _ _) (proj2 (Nat.succ_lt_mono _ _) (proj2 (Nat.succ_lt_mono _ _) Li)))));
      try (exfalso; apply (Nat.nlt_0_r _ (proj2 (Nat.succ_lt_mono _ _) (proj2 (Nat.succ_lt_mono _ _) Lj))));
      split; reflexivity || discriminate.
  - intros [|[|j]] Lj; cbn in *.
    + apply (Permutation_trans (l' := [0; 2; 1]%nat)); [apply perm_swap|apply perm_skip, perm_swap].
    + apply (Permutation_trans (l' := [1; 0; 2]%nat)); [apply perm_skip, perm_swap|apply perm_swap].
    + exfalso. apply (Nat.nlt_0_r _ (proj2 (Nat.succ_lt_mono _ _) (proj2 (Nat.succ_lt_mono _ _) Lj))).
  - intros [|[|j]] Lj; cbn in *; try reflexivity.
    exfalso. apply (Nat.nlt_0_r _ (proj2 (Nat.succ_lt_mono _ _) (proj2 (Nat.succ_lt_mono _ _) Lj))).
  - vm_compute. reflexivity.
Qed.

Example C12_halton_example :
  option_map (map (map Qred)) (build_halton 4 [(0, 1); (-(1), 1); (10, 20)]) =
    Some [[1 # 2; -(1 # 3); 12]; [1 # 4; 1 # 3; 14]; [3 # 4; -(7 # 9); 16]; [1 # 8; -(1 # 9); 18]] /\
  Qred (phi 3 5) = 7 # 9 /\ Qred (phi 2 6) = 3 # 8.
Proof. vm_compute. repeat split. Qed.

(* point 243 = 3^5 of a 243-point design, bases 2 and 3: 243 = 11110011_2, 243 = 100000_3 (radical inverse 1/729) *)
Example C12_halton_selected_example :
  option_map (map (map Qred)) (build_halton_at 243 [(0, 1); (0, 729)] [1; 242; 243]%nat) =
    Some [[1 # 2; 243]; [79 # 256; 726]; [207 # 256; 1]] /\
  build_halton_at 243 [(0, 1); (0, 729)] [244%nat] = None /\ build_halton_at 243 [(0, 1); (0, 729)] [0%nat] = None.
Proof. vm_compute. repeat split. Qed.

Example C12_grid_example :
  map (map Qred) (uniform_grid 3 [(0, 1); (-(1), 1)]) =
    [[0; -(1)]; [0; 0]; [0; 1]; [1 # 2; -(1)]; [1 # 2; 0]; [1 # 2; 1]; [1; -(1)]; [1; 0]; [1; 1]].
Proof. vm_compute. reflexivity. Qed.

Example C12_random_example :
  Forall ok_param [(0, 10, 1 # 2); (-(1), 1, 1 # 4)] /\ Forall in_unit [1 # 8; 1 # 3; 3 # 4; 0] /\
  option_map (map (map Qred)) (random_generate 2 [(0, 10, 1 # 2); (-(1), 1, 1 # 4)] [1 # 8; 1 # 3; 3 # 4; 0]) =
    Some [[1; -(1 # 4)]; [15 # 2; -(1)]].
Proof.
  split; [|split].
  - repeat constructor; cbn; discriminate.
  - repeat constructor; cbn; discriminate.
  - vm_compute. reflexivity.
Qed.
