(* C01 - Constrained Pareto dominance is the textbook strict partial order.
   Property theorems only; each is closed by `exact`, followed by Print Assumptions. *)
From Coq Require Import List ZArith Bool Floats.
From Artap Require Import Base.Ord Base.FloatInst Base.QInst Model.Dominance Proofs.DominanceProofs.
Import ListNotations.

Section C01.
  Context {T : Type} (ltb : T -> T -> bool) (H : SWO ltb).

  (* feasibility marker first: smaller |marker| wins, equal magnitudes fall through *)
  Theorem C01_marker_precedence : forall pc qc pm qm,
    pareto_compare ltb (pc, pm) (qc, qm) =
      if (Z.abs pm <? Z.abs qm)%Z then 1 else if (Z.abs qm <? Z.abs pm)%Z then 2
      else pareto_compare ltb (pc, 0%Z) (qc, 0%Z).
  Proof. exact (pareto_marker_lex ltb). Qed.

  (* at equal feasibility: 1 iff p dominates q, 2 iff q dominates p, 0 iff neither *)
  Theorem C01_pareto_spec : forall pc qc m, length pc = length qc ->
    (pareto_compare ltb (pc, m) (qc, m) = 1 <-> dominates ltb pc qc) /\
    (pareto_compare ltb (pc, m) (qc, m) = 2 <-> dominates ltb qc pc) /\
    (pareto_compare ltb (pc, m) (qc, m) = 0 <-> ~ dominates ltb pc qc /\ ~ dominates ltb qc pc).
  Proof. exact (pareto_spec ltb H). Qed.

  Theorem C01_range : forall p q, pareto_compare ltb p q <= 2.
  Proof. exact (pareto_range ltb H). Qed.

  Theorem C01_irreflexive : forall p, pareto_compare ltb p p = 0.
  Proof. exact (pareto_irrefl ltb H). Qed.

  Theorem C01_antisymmetric : forall p q, pareto_compare ltb q p = swap (pareto_compare ltb p q).
  Proof. exact (pareto_antisym ltb H). Qed.

  Theorem C01_transitive : forall p q r, same_len p q -> same_len q r ->
    pareto_compare ltb p q = 1 -> pareto_compare ltb q r = 1 -> pareto_compare ltb p r = 1.
  Proof. exact (pareto_trans ltb H). Qed.

  (* epsilon comparator: same verdict whenever scaling keeps differing coordinates apart
     and the vectors are not identical up to marker magnitude *)
  Theorem C01_eps_agrees : forall sc d1 d2 pc qc pm qm, separated ltb sc pc qc ->
    better ltb pc qc = true \/ better ltb qc pc = true \/ Z.abs pm <> Z.abs qm ->
    eps_compare ltb sc d1 d2 (pc, pm) (qc, qm) = pareto_compare ltb (pc, pm) (qc, qm).
  Proof. exact (eps_agrees ltb H). Qed.

  Theorem C01_eps_names_loser : forall sc d1 d2 pc m,
    eps_compare ltb sc d1 d2 (pc, m) (pc, m) = 1 \/ eps_compare ltb sc d1 d2 (pc, m) (pc, m) = 2.
  Proof. exact (eps_names_loser ltb H). Qed.

  Theorem C01_eps_identical_rejects : forall sc d pc m, eps_compare ltb sc d d (pc, m) (pc, m) = 2.
  Proof. exact (eps_identical_rejects ltb H). Qed.
End C01.

(* The float instance: Python's `<` on the non-NaN binary64 values is a strict weak order *)
Theorem C01_float_order : SWO fltb /\
  forall x y, PrimFloat.is_nan x = false -> PrimFloat.is_nan y = false -> fltb x y = PrimFloat.ltb x y.
Proof. exact (conj fltb_SWO fltb_is_ltb). Qed.

Theorem C01_float_transitive : forall p q r, same_len p q -> same_len q r ->
  pareto_compare fltb p q = 1 -> pareto_compare fltb q r = 1 -> pareto_compare fltb p r = 1.
Proof. exact (pareto_trans fltb fltb_SWO). Qed.

Print Assumptions C01_marker_precedence.
Print Assumptions C01_pareto_spec.
Print Assumptions C01_range.
Print Assumptions C01_irreflexive.
Print Assumptions C01_antisymmetric.
Print Assumptions C01_transitive.
Print Assumptions C01_eps_agrees.
Print Assumptions C01_eps_names_loser.
Print Assumptions C01_eps_identical_rejects.
Print Assumptions C01_float_order.
Print Assumptions C01_float_transitive.

(* non-vacuity: concrete non-trivial vectors meet the hypotheses *)
Example C01_ex_dominates :
  pareto_compare Z.ltb ([1; 2; 3]%Z, 1%Z) ([1; 3; 3]%Z, 1%Z) = 1 /\
  pareto_compare Z.ltb ([1; 3; 3]%Z, 1%Z) ([2; 3; 4]%Z, 1%Z) = 1 /\
  same_len ([1; 2; 3]%Z, 1%Z) ([1; 3; 3]%Z, 1%Z) /\
  pareto_compare Z.ltb ([1; 5]%Z, 1%Z) ([2; 4]%Z, 1%Z) = 0 /\
  pareto_compare Z.ltb ([9; 9]%Z, 0%Z) ([1; 1]%Z, 1%Z) = 1.
Proof. vm_compute. repeat split. Qed.

Example C01_ex_separated :
  separated Z.ltb (fun _ x => (x / 2)%Z) [2; 4]%Z [6; 4]%Z /\ better Z.ltb [2; 4]%Z [6; 4]%Z = true.
Proof.
  split; [|reflexivity]. intros i a b Ha Hb.
  destruct i as [|[|[|i]]]; cbn in Ha, Hb; try discriminate;
    inversion Ha; inversion Hb; subst; vm_compute; repeat split; congruence.
Qed.
