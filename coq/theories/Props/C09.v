(* C09 - Runs keep exact generation bookkeeping, budget and generational elitism.
   Property theorems only; each is closed by `exact`, followed by Print Assumptions.
   Models: Model/Runs.v (generate, NSGAII.run, EpsMOEA.run + pop_acceptance, OMOPSO/SMPSO.run,
   Problem.populations()).  Variation operators, the objective (with transient failures) and
   random.choice are tapes; sort + truncate is the function `select` with the C02 / C03
   specification as hypotheses. *)
From Coq Require Import List Bool Arith ZArith Lia.
From Artap Require Import Model.Runs Proofs.RunsProofs.
Import ListNotations.
Local Open Scope nat_scope.

Section C09.
  Context {V C : Type}.
  Variable veq : V -> V -> bool.          (* Individual.__eq__ on vectors: a.__eq__(b) *)
  Variable vexact : V -> V -> bool.       (* tape check only *)
  Variable cmp : C -> C -> nat.           (* dominance comparator (verdicts 0/1/2) *)
  Local Notation ind := (rind V C).

  (* generate: exactly N offspring and no offspring == an earlier one, for every candidate
     stream that lets the while loop terminate *)
  Theorem C09_generate_exact : forall N stream ctr offs ctr',
    2 <= N -> generate veq N stream [] ctr = Some (offs, ctr') ->
    length offs = N /\ pairwise (later_differs veq) offs.
  Proof. exact (fun N stream ctr offs ctr' => generate_exact veq N stream ctr offs ctr'). Qed.

  (* eps-MOEA, OMOPSO, SMPSO: tags 0..G, N designs each, N*(G+1) successful objective calls *)
  Theorem C09_pso_epsmoea_bookkeeping :
    (forall N G init e0 gens st,
       2 <= N -> length init = N -> eps_run veq vexact cmp N G init e0 gens = Some st ->
       map (fun tl => (fst tl, length (snd tl))) (populations (es_rec st)) = map (fun t => (t, N)) (seq 0 (S G)) /\
       (forall t, length (population (es_rec st) t) = if t <=? G then N else 0) /\
       successes (es_log st) = N * (G + 1)) /\
    (forall N G init (e0 : list (ev_entry V C)) gens st,
       1 <= N -> length init = N -> pso_run vexact G init e0 gens = Some st ->
       map (fun tl => (fst tl, length (snd tl))) (populations (ps_rec st)) = map (fun t => (t, N)) (seq 0 (S G)) /\
       (forall t, length (population (ps_rec st) t) = if t <=? G then N else 0) /\
       successes (ps_log st) = N * (G + 1)).
  Proof.
    exact (conj (fun N G init e0 gens st HN L E =>
                   match epsmoea_bookkeeping veq vexact cmp N G init e0 gens st HN L E with
                   | conj A (conj B (conj Sc _)) => conj A (conj B Sc) end)
                (pso_bookkeeping vexact)).
  Qed.

  (* the eps-MOEA working population has N members after every acceptance step *)
  Theorem C09_epsmoea_population_size : forall N G init e0 gens st,
    2 <= N -> length init = N -> eps_run veq vexact cmp N G init e0 gens = Some st ->
    length (es_pop st) = N /\ Forall (fun n => n = N) (es_sizes st) /\ length (es_sizes st) = N * G.
  Proof.
    exact (fun N G init e0 gens st HN L E =>
             match epsmoea_bookkeeping veq vexact cmp N G init e0 gens st HN L E with
             | conj _ (conj _ (conj _ R)) => R end).
  Qed.

  (* pop_acceptance keeps the list length ... *)
  Theorem C09_pop_acceptance_size : forall (pop : list ind) x ch r,
    pop_acceptance veq cmp pop x ch = Some r -> length r = length pop.
  Proof. exact (pop_acceptance_size veq cmp). Qed.

  (* ... and follows the three-way case statement, whatever random.choice answers *)
  Theorem C09_pop_acceptance_cases : forall (pop : list ind) x ch r,
    pop_acceptance veq cmp pop x ch = Some r ->
    (dominates_some cmp pop x ->
       exists c p, nth_error pop c = Some p /\ cmp (rcost x) (rcost p) = 1 /\ r = remove_nth c pop ++ [x]) /\
    (~ dominates_some cmp pop x -> dominated_by_some cmp pop x -> r = pop) /\
    (~ dominates_some cmp pop x -> ~ dominated_by_some cmp pop x ->
       exists j, j < length pop /\ r = remove_nth j pop ++ [x]).
  Proof. exact (pop_acceptance_cases veq cmp). Qed.

  Theorem C09_pop_acceptance_total : forall (pop : list ind) x,
    pop <> [] -> (forall y : ind, item_equal veq y y = true) ->
    exists ch r, pop_acceptance veq cmp pop x ch = Some r.
  Proof. exact (pop_acceptance_total veq cmp). Qed.

  (* ---------------- NSGA-II ---------------- *)
  Variable select : list ind -> nat -> list ind.   (* fast_nondominated_sorting; nondominated_truncate *)
  Variable same : ind -> ind -> bool.              (* set(): equal hash and == *)
  Variable front : list ind -> ind -> nat.         (* front number of x inside pool *)
  Variable okc : C -> Prop.                        (* well-formed signed cost vector *)
  Local Notation wf_pool := (wf_pool okc).
  Local Notation nosame := (nosame same).

  Hypothesis H_select_len : forall pool k, wf_pool pool ->
    length (select pool k) = Nat.min k (length (dedupe_by same pool)).
  Hypothesis H_select_nodup : forall pool k, wf_pool pool -> pairwise nosame (select pool k).
  Hypothesis H_select_incl : forall pool k, wf_pool pool -> incl (select pool k) (dedupe_by same pool).
  Hypothesis H_select_elitist : forall pool k s d, wf_pool pool ->
    In s (select pool k) -> In d (dedupe_by same pool) -> ~ In d (select pool k) ->
    front pool s <= front pool d.
  Hypothesis H_front_rank : forall pool x, wf_pool pool -> In x pool ->
    front pool x = S (list_max (map (front pool)
                                    (filter (fun y => Nat.eqb (cmp (rcost y) (rcost x)) 1) pool))).
  Hypothesis H_same_veq : forall e x : ind, same e x = true -> rid e = rid x \/ veq (rvec x) (rvec e) = true.
  Hypothesis H_veq_refl : forall v, veq v v = true.

  (* tags exactly 1..G with N designs each, no design repeated inside a generation >= 2,
     N*G successful objective calls - for every N >= 2, G >= 1, every candidate stream and every
     fault schedule for which the run returns (H_fresh: see notes) *)
  Theorem C09_nsga2_bookkeeping : forall N G init e0 gens st,
    2 <= N -> 1 <= G -> length init = N -> okc_entries okc e0 -> Forall (okc_gen okc) gens ->
    nsga2_run veq vexact select N G init e0 gens = Some st -> Forall (fresh_tr veq) (s_trace st) ->
    map (fun tl => (fst tl, length (snd tl))) (populations (s_rec st)) = map (fun t => (t, N)) (seq 1 G) /\
    (forall t, length (population (s_rec st) t) = if (1 <=? t) && (t <=? G) then N else 0) /\
    (forall t, 2 <= t -> pairwise nosame (population (s_rec st) t)) /\
    successes (s_log st) = N * G.
  Proof.
    exact (nsga2_bookkeeping veq vexact select same okc H_select_len H_select_nodup
             H_select_incl H_same_veq H_veq_refl).
  Qed.

  (* H_fresh holds by itself when no objective call fails *)
  Theorem C09_no_failures_fresh : forall N k st g st',
    2 <= N -> no_failures g -> nsga2_step veq vexact select N k st g = Some st' ->
    exists tr, s_trace st' = s_trace st ++ [tr] /\ fresh_tr veq tr.
  Proof. exact (no_failures_fresh veq vexact select). Qed.

  (* elitism between consecutive generations *)
  Theorem C09_nsga2_elitism : forall N G init e0 gens st,
    2 <= N -> 1 <= G -> length init = N -> okc_entries okc e0 -> Forall (okc_gen okc) gens ->
    nsga2_run veq vexact select N G init e0 gens = Some st -> Forall (fresh_tr veq) (s_trace st) ->
    forall t, 1 <= t -> t < G ->
    exists tr, nth_error (s_trace st) (t - 1) = Some tr /\
      t_parents tr = population (s_rec st) t /\ t_next tr = population (s_rec st) (S t) /\
      map rvec (t_copies tr) = map rvec (t_parents tr) /\ map rcost (t_copies tr) = map rcost (t_parents tr) /\
      (det_pool same (t_offs tr ++ t_copies tr) ->
       forall d, In d (t_copies tr) -> kept same (t_next tr) d = false ->
       forall s, In s (t_next tr) -> cmp (rcost d) (rcost s) <> 1).
  Proof.
    exact (nsga2_elitism veq vexact cmp select same front okc H_select_len H_select_nodup
             H_select_incl H_select_elitist H_front_rank H_same_veq H_veq_refl).
  Qed.

  (* unconstrained single objective: for every member of generation t some member of
     generation t+1 is at least as good, hence the best recorded cost never gets worse *)
  Theorem C09_single_objective_best_monotone : forall (ltc : C -> C -> bool),
    (forall c, ltc c c = false) -> (forall a b, cmp a b = 1 <-> ltc a b = true) ->
    forall N G init e0 gens st,
    2 <= N -> 1 <= G -> length init = N -> okc_entries okc e0 -> Forall (okc_gen okc) gens ->
    nsga2_run veq vexact select N G init e0 gens = Some st -> Forall (fresh_tr veq) (s_trace st) ->
    Forall (fun tr => det_pool same (t_offs tr ++ t_copies tr)) (s_trace st) ->
    forall t, 1 <= t -> t < G ->
    (forall p, In p (population (s_rec st) t) ->
       exists s, In s (population (s_rec st) (S t)) /\ ltc (rcost p) (rcost s) = false) /\
    ((forall x y z, ltc x y = false -> ltc y z = false -> ltc x z = false) ->
     forall best best' : C,
       (exists p, In p (population (s_rec st) t) /\ rcost p = best) ->
       (forall s, In s (population (s_rec st) (S t)) -> ltc (rcost s) best' = false) ->
       ltc best best' = false).
  Proof.
    exact (fun ltc Hi Hs N G init e0 gens st HN HG L Ok0 Ok E Fr Det t T1 T2 =>
      conj (single_objective_best_monotone veq vexact cmp select same front okc H_select_len H_select_nodup
              H_select_incl H_select_elitist H_front_rank H_same_veq H_veq_refl ltc Hi Hs
              N G init e0 gens st HN HG L Ok0 Ok E Fr Det t T1 T2)
           (fun NT => best_cost_never_worse veq vexact cmp select same front okc H_select_len H_select_nodup
              H_select_incl H_select_elitist H_front_rank H_same_veq H_veq_refl ltc Hi Hs
              N G init e0 gens st NT HN HG L Ok0 Ok E Fr Det t T1 T2)).
  Qed.
End C09.

Print Assumptions C09_generate_exact.
Print Assumptions C09_nsga2_bookkeeping.
Print Assumptions C09_no_failures_fresh.
Print Assumptions C09_pso_epsmoea_bookkeeping.
Print Assumptions C09_epsmoea_population_size.
Print Assumptions C09_nsga2_elitism.
Print Assumptions C09_single_objective_best_monotone.
Print Assumptions C09_pop_acceptance_size.
Print Assumptions C09_pop_acceptance_cases.
Print Assumptions C09_pop_acceptance_total.

(* ---------------- non-vacuity: concrete inputs meet the hypotheses ---------------- *)
(* design vectors = lists of integers, == means |a - b| < 2 coordinate-wise (tolerance equality,
   reflexive and symmetric but not transitive, as 1e-10 on floats); signed cost = one integer *)
Definition ex_close (a b : Z) : bool := (Z.abs (a - b) <? 2)%Z.
Fixpoint ex_veq (v w : list Z) : bool :=
  match v, w with
  | [], _ => true
  | a :: v', b :: w' => ex_close a b && ex_veq v' w'
  | _ :: _, [] => false
  end.
Fixpoint ex_vexact (v w : list Z) : bool :=
  match v, w with
  | [], [] => true
  | a :: v', b :: w' => Z.eqb a b && ex_vexact v' w'
  | _, _ => false
  end.
Definition ex_ind : Type := rind (list Z) Z.
Definition ex_cmp (a b : Z) : nat := if (a <? b)%Z then 1 else if (b <? a)%Z then 2 else 0.

(* generate: the stream repeats children; exactly 3 pairwise different offspring come out *)
Example C09_ex_generate :
  generate ex_veq 3 [([5; 5], [5; 6]); ([5; 5], [9; 9]); ([9; 10], [1; 1])]%Z [] 7
  = Some ([(7, [5; 5]%Z); (10, [9; 9]%Z); (12, [1; 1]%Z)], 13) /\ 2 <= 3.
Proof. vm_compute. split; [reflexivity|repeat constructor]. Qed.

(* pop_acceptance: the three branches on a concrete population (single objective) *)
Example C09_ex_pop_acceptance :
  let pop := [mk_rind 0 [0%Z] 5%Z; mk_rind 1 [4%Z] 3%Z; mk_rind 2 [8%Z] 7%Z] in
  map rid (match pop_acceptance ex_veq ex_cmp pop (mk_rind 3 [9%Z] 4%Z) (Some 2) with Some r => r | None => [] end) = [0; 1; 3] /\
  pop_acceptance ex_veq ex_cmp pop (mk_rind 3 [9%Z] 9%Z) None = Some pop /\
  map rid (match pop_acceptance ex_veq ex_cmp [mk_rind 0 [0%Z] 5%Z; mk_rind 1 [1%Z] 5%Z]
                   (mk_rind 3 [9%Z] 5%Z) (Some 1) with Some r => r | None => [] end) = [1; 3] /\
  dominates_some ex_cmp pop (mk_rind 3 [9%Z] 4%Z) /\ ~ dominates_some ex_cmp pop (mk_rind 3 [9%Z] 9%Z).
Proof.
  cbv zeta. repeat split; try (vm_compute; reflexivity).
  - exists (mk_rind 2 [8%Z] 7%Z). split; [right; right; left; reflexivity|reflexivity].
  - intros (p & [<-|[<-|[<-|[]]]] & D); vm_compute in D; discriminate.
Qed.

(* NSGA-II: the hypotheses on `select` are jointly satisfiable (here: mutually non-dominated
   designs, so one front, and truncation = the first k representatives of set()), and a concrete
   run with a transient failure meets every premise of C09_nsga2_bookkeeping *)
Definition ex_same (e x : ex_ind) : bool := Nat.eqb (rid e) (rid x) || ex_vexact (rvec e) (rvec x).
Definition ex_select (pool : list ex_ind) (k : nat) : list ex_ind := firstn k (dedupe_by ex_same pool).
Definition ex_flat (a b : Z) : nat := 0.
Definition ex_front (pool : list ex_ind) (x : ex_ind) : nat := 1.

Lemma ex_veq_refl v : ex_veq v v = true.
Proof. induction v as [|a v IH]; cbn; auto. rewrite IH. unfold ex_close. replace (a - a)%Z with 0%Z by lia. reflexivity. Qed.
Lemma ex_vexact_veq v w : ex_vexact v w = true -> ex_veq w v = true.
Proof.
  revert w. induction v as [|a v IH]; intros [|b w]; cbn; auto; try discriminate.
  intros E. apply andb_true_iff in E. destruct E as (E1 & E2). apply Z.eqb_eq in E1. subst.
  rewrite (IH _ E2). unfold ex_close. replace (b - b)%Z with 0%Z by lia. reflexivity.
Qed.

Definition ex_run :=
  nsga2_run ex_veq ex_vexact ex_select 2 2 [[0]; [10]]%Z
    [mk_ev [0%Z] [] 5%Z; mk_ev [10%Z] [[20%Z]] 7%Z]                     (* second design fails once: replaced by [20] *)
    [mk_gen [([0], [0]); ([30], [20])]%Z [mk_ev [0%Z] [] 5%Z; mk_ev [30%Z] [] 1%Z]].

Example C09_ex_nsga2_premises :
  (forall pool k, length (ex_select pool k) = Nat.min k (length (dedupe_by ex_same pool))) /\
  (forall pool k, pairwise (nosame ex_same) (ex_select pool k)) /\
  (forall pool k, incl (ex_select pool k) (dedupe_by ex_same pool)) /\
  (forall pool x, ex_front pool x = S (list_max (map (ex_front pool)
       (filter (fun y => Nat.eqb (ex_flat (rcost y) (rcost x)) 1) pool)))) /\
  (forall e x : ex_ind, ex_same e x = true -> rid e = rid x \/ ex_veq (rvec x) (rvec e) = true) /\
  (forall v, ex_veq v v = true) /\
  exists st, ex_run = Some st /\ Forall (fresh_tr ex_veq) (s_trace st) /\
             map (fun tl => (fst tl, map rvec (snd tl))) (populations (s_rec st))
             = [(1, [[0]; [20]]%Z); (2, [[0]; [30]]%Z)] /\
             successes (s_log st) = 4 /\ failures (s_log st) = 1.
Proof.
  repeat match goal with |- _ /\ _ => split end.
  - intros. apply firstn_length.
  - intros. apply pairwise_firstn. apply dedupe_by_norepeat.
  - intros pool k x Ix. eapply in_firstn; eauto.
  - intros pool x. unfold ex_front, ex_flat. cbn [Nat.eqb]. induction pool; cbn; auto.
  - intros e x E. unfold ex_same in E. apply orb_true_iff in E. destruct E as [E|E].
    + left. apply Nat.eqb_eq; auto.
    + right. apply ex_vexact_veq; auto.
  - apply ex_veq_refl.
  - eexists. split; [vm_compute; reflexivity|]. cbn [s_trace s_rec s_log].
    split; [|vm_compute; auto].
    repeat constructor; vm_compute; reflexivity.
Qed.
