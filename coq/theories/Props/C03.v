(* C03 - Environmental selection is elitist: rank first, then crowding, no duplicates;
   crowding-distance formula; binary tournament.
   Property theorems only; each is closed by `exact`, followed by Print Assumptions.
   T = cost type with comparison ltb (a strict weak order: Python's `<` on non-NaN floats) and
   abstract add / sub / div / zero; Ext T = Fin t | Inf for crowding distances;
   A = type of individuals with the projections the code reads. *)
From Coq Require Import List ZArith QArith Bool Floats Permutation Lia.
From Artap Require Import Base.Ord Base.FloatInst Base.QInst Model.Dominance Model.Selection
                          Proofs.SelectionProofs Proofs.SelectionQInst.
Import ListNotations.
Local Close Scope Q_scope.

Section C03_crowding.
  Context {T : Type} (ltb : T -> T -> bool) (H : SWO ltb) (add sub div : T -> T -> T) (zero : T).
  Context {A : Type} (costs : A -> list T).
  Local Notation crowding := (crowding ltb add sub div zero costs).
  Local Notation nobj := (nobj costs).

  (* fronts of one or two members: everybody infinite, order untouched *)
  Theorem C03_crowding_small : forall f, length f <= 2 ->
    map fst (crowding f) = f /\ forall x e, In (x, e) (crowding f) -> e = Inf.
  Proof. exact (crowding_small ltb add sub div zero costs). Qed.

  (* the call only reorders the front list *)
  Theorem C03_crowding_permutes : forall f, Permutation (map fst (crowding f)) f.
  Proof. exact (crowding_perm ltb add sub div zero costs). Qed.

  (* ties allowed: for every objective some holder of the minimum and some holder of the maximum
     is infinite *)
  Theorem C03_crowding_extremes : forall f d, 3 <= length f -> d < nobj f ->
    (exists x, In (x, Inf) (crowding f) /\ is_min ltb zero costs d f x) /\
    (exists x, In (x, Inf) (crowding f) /\ is_max ltb zero costs d f x).
  Proof. exact (crowding_extremes ltb H add sub div zero costs). Qed.

  (* tie-free front: whoever is extreme in some objective is infinite; everybody else gets, for
     ANY operators add/sub/div (hence for binary64 bit for bit), the sum over the objectives in
     order of (least greater value - greatest smaller value) / (maximum - minimum), each term
     added only when `maximum - minimum > 0` as in the code *)
  Theorem C03_crowding_interior : forall f, 3 <= length f -> tie_free ltb zero costs f ->
    forall x e, In (x, e) (crowding f) ->
      ((exists d, d < nobj f /\ extreme_at ltb zero costs d f x) -> e = Inf) /\
      ((forall d, d < nobj f -> ~ extreme_at ltb zero costs d f x) ->
       exists nbs, length nbs = nobj f /\
                   (forall d, d < nobj f -> neighbours ltb zero costs d f x (nth d nbs (dnb zero))) /\
                   e = Fin (fold_left (gadd ltb add sub div zero) nbs zero)).
  Proof. exact (crowding_interior ltb H add sub div zero costs). Qed.

  (* when a < b implies 0 < b - a (true for Q and for IEEE subtraction) the guard disappears *)
  Theorem C03_crowding_interior_formula : forall f,
    (forall a b, ltb a b = true -> ltb zero (sub b a) = true) ->
    3 <= length f -> tie_free ltb zero costs f ->
    forall x e, In (x, e) (crowding f) -> (forall d, d < nobj f -> ~ extreme_at ltb zero costs d f x) ->
      exists nbs, length nbs = nobj f /\
                  (forall d, d < nobj f -> neighbours ltb zero costs d f x (nth d nbs (dnb zero))) /\
                  e = Fin (fold_left add (map (gterm sub div) nbs) zero).
  Proof. exact (crowding_interior_formula ltb H add sub div zero costs). Qed.

  (* with ties: finite distances lie in [0, number of objectives] - under the named arithmetic
     premises (bound k stands for the number k) *)
  Theorem C03_crowding_bounds : forall (one : T) (bound : nat -> T),
    term_bounds_hyp ltb sub div zero one -> add_bounds_hyp ltb add zero one bound ->
    bound_mono_hyp ltb bound -> bound_start_hyp ltb zero bound ->
    forall f x v, In (x, Fin v) (crowding f) ->
      Ord.leb ltb zero v = true /\ Ord.leb ltb v (bound (nobj f)) = true.
  Proof. exact (fun one bound => crowding_bounds ltb H add sub div zero one bound costs). Qed.
End C03_crowding.

(* the premises are theorems for exact rationals *)
Theorem C03_crowding_bounds_Q : forall (A : Type) (costs : A -> list Q) f x v,
  In (x, Fin v) (crowding Qltb Qplus Qminus Qdiv 0%Q costs f) ->
  (0 <= v)%Q /\ (v <= inject_Z (Z.of_nat (nobj costs f)))%Q.
Proof. exact (@crowding_bounds_Q). Qed.

Section C03_truncate.
  Context {T : Type} (ltb : T -> T -> bool) (H : SWO ltb).
  Context {A : Type} (iid : A -> nat) (front : A -> nat) (cdist : A -> Ext T) (deq : A -> A -> bool).
  Local Notation truncate := (truncate ltb iid front cdist deq).
  Local Notation dedupe := (dedupe deq).

  (* what set(population) keeps: members of the population, no entry equal to a later one, every
     member represented by an equal entry; identity when all designs are distinct.  Its length is
     "the number of distinct designs". *)
  Theorem C03_dedupe_exact : forall l,
    incl (dedupe l) l /\ distinct_pairs deq (dedupe l) /\
    ((forall x, deq x x = true) -> forall x, In x l -> exists e, In e (dedupe l) /\ deq e x = true) /\
    (distinct_pairs deq l -> dedupe l = l).
  Proof. exact (dedupe_exact deq). Qed.

  (* for EVERY iteration order of the set (any `order` the model accepts): min(k, #distinct)
     survivors, all from the de-duplicated population, no individual and no design twice,
     no survivor with a worse front number than a discarded one, and at equal front number no
     survivor with a smaller crowding distance than a discarded one *)
  Theorem C03_truncate_spec : forall pop order k res,
    truncate pop order k = Some res ->
    length res = Nat.min k (length (dedupe pop)) /\
    incl res (dedupe pop) /\
    NoDup res /\
    ((forall x y, In x pop -> In y pop -> deq x y = deq y x) -> NoDupDesign deq res) /\
    (forall s d, In s res -> In d (dedupe pop) -> ~ In d res -> front s <= front d) /\
    (forall s d, In s res -> In d (dedupe pop) -> ~ In d res -> front s = front d ->
                 ext_ltb ltb (cdist s) (cdist d) = false).
  Proof. exact (truncate_spec ltb H iid front cdist deq). Qed.

  (* the model accepts every permutation of the de-duplicated population *)
  Theorem C03_truncate_total : forall pop order k, NoDup (map iid pop) ->
    Permutation order (map iid (dedupe pop)) -> truncate pop order k <> None.
  Proof. exact (truncate_total ltb iid front cdist deq). Qed.

  (* all designs distinct: the clauses are about the population itself; in particular in the
     front that is cut no discarded member has a larger crowding distance than a kept one *)
  Theorem C03_truncate_all_distinct : forall pop order k res,
    distinct_pairs deq pop -> truncate pop order k = Some res ->
    length res = Nat.min k (length pop) /\ incl res pop /\
    (forall s d, In s res -> In d pop -> ~ In d res -> front s <= front d) /\
    (forall s d, In s res -> In d pop -> ~ In d res -> front s = front d ->
                 ext_ltb ltb (cdist s) (cdist d) = false).
  Proof. exact (truncate_all_distinct ltb H iid front cdist deq). Qed.

  (* discarded designs, duplicates included: when equal designs carry equal front numbers, no
     survivor has a worse front number than any individual none of whose equals survived *)
  Theorem C03_truncate_discarded_design : forall pop order k res,
    truncate pop order k = Some res ->
    (forall x, deq x x = true) ->
    (forall e x, In e pop -> In x pop -> deq e x = true -> front e = front x) ->
    forall s d, In s res -> In d pop -> (forall r, In r res -> deq r d = false) -> front s <= front d.
  Proof. exact (truncate_discarded_design ltb H iid front cdist deq). Qed.

  (* hence, when the front numbers satisfy the rank equation of non-dominated sorting
     (front x = 1 + max front of the dominators of x, the C02 statement), no survivor is
     dominated by a discarded individual / design *)
  Theorem C03_truncate_no_dominated_survivor : forall (cost : A -> list T * Z) pop order k res,
    truncate pop order k = Some res -> rank_equation ltb front cost pop ->
    (forall s d, In s res -> In d (dedupe pop) -> ~ In d res ->
                 pareto_compare ltb (cost d) (cost s) <> 1) /\
    ((forall x, deq x x = true) ->
     (forall e x, In e pop -> In x pop -> deq e x = true -> front e = front x) ->
     forall s d, In s res -> In d pop -> (forall r, In r res -> deq r d = false) ->
                 pareto_compare ltb (cost d) (cost s) <> 1).
  Proof. exact (truncate_no_dominated_survivor ltb H iid front cdist deq). Qed.
End C03_truncate.

Section C03_tournament.
  Context {T : Type} (ltb : T -> T -> bool) (H : SWO ltb).
  Context {A : Type} (front : A -> nat) (cost : A -> list T * Z).
  Local Notation tournament := (tournament ltb front cost).

  (* for every sampled pair and every coin: the winner is a member of the population, one of the
     two candidates drawn, and it `beats` the other one: not a worse front number and, at equal
     front number, not dominated by it *)
  Theorem C03_tournament_spec : forall pop smp coin w, tournament pop smp coin = Some w ->
    In w pop /\
    match smp with
    | None => pop = [w]
    | Some (i, j) => i <> j /\ exists c0 c1, nth_error pop i = Some c0 /\ nth_error pop j = Some c1 /\
                     ((w = c0 /\ beats ltb front cost c0 c1) \/ (w = c1 /\ beats ltb front cost c1 c0))
    end.
  Proof. exact (tournament_spec ltb H front cost). Qed.

  Theorem C03_tournament_total : forall pop i j, i <> j -> i < length pop -> j < length pop ->
    (exists w, tournament pop (Some (i, j)) None = Some w) \/
    (forall b, b < 2 -> exists w, tournament pop (Some (i, j)) (Some b) = Some w).
  Proof. exact (tournament_total ltb front cost). Qed.
End C03_tournament.

(* all of the above hold at binary64 with Python's `<`: it is a strict weak order on floats *)
Theorem C03_float_order : SWO fltb /\
  forall x y, PrimFloat.is_nan x = false -> PrimFloat.is_nan y = false -> fltb x y = PrimFloat.ltb x y.
Proof. exact (conj fltb_SWO fltb_is_ltb). Qed.

Print Assumptions C03_crowding_small.
Print Assumptions C03_crowding_permutes.
Print Assumptions C03_crowding_extremes.
Print Assumptions C03_crowding_interior.
Print Assumptions C03_crowding_interior_formula.
Print Assumptions C03_crowding_bounds.
Print Assumptions C03_crowding_bounds_Q.
Print Assumptions C03_dedupe_exact.
Print Assumptions C03_truncate_spec.
Print Assumptions C03_truncate_total.
Print Assumptions C03_truncate_all_distinct.
Print Assumptions C03_truncate_discarded_design.
Print Assumptions C03_truncate_no_dominated_survivor.
Print Assumptions C03_tournament_spec.
Print Assumptions C03_tournament_total.
Print Assumptions C03_float_order.

(* ------------------------------------------------------------------ non-vacuity (exact rationals) *)
Local Open Scope Q_scope.

(* a tie-free front of five points with two objectives: (id, [f1; f2]) *)
Definition ex_front : list (nat * list Q) :=
  [(0%nat, [3; 1]); (1%nat, [0; 8]); (2%nat, [1; 4]); (3%nat, [4; 0]); (4%nat, [2; 2])].
Definition ex_costs (x : nat * list Q) : list Q := snd x.
Definition ex_crowding := crowding Qltb Qplus Qminus Qdiv 0 ex_costs ex_front.

(* hypotheses of C03_crowding_interior(_formula) are met, and the front has interior members *)
Ltac c03_forall := match goal with
  | |- Forall _ [] => constructor
  | |- Forall _ (_ :: _) => constructor; [vm_compute; auto | c03_forall]
  end.
Ltac c03_fop := match goal with
  | |- ForallOrdPairs _ [] => constructor
  | |- ForallOrdPairs _ (_ :: _) => constructor; [c03_forall | c03_fop]
  end.

Example C03_ex_tie_free : (3 <= length ex_front)%nat /\ tie_free Qltb 0 ex_costs ex_front.
Proof.
  split; [vm_compute; lia|].
  intros d Hd. change (nobj ex_costs ex_front) with 2%nat in Hd.
  destruct d as [|[|d]]; [| |lia]; unfold tie_free_at, ex_front; c03_fop.
Qed.

(* ids in the order the call leaves them (sorted by the last objective) with their distances:
   1 and 3 hold the extremes; 2: (2-0)/4 + (8-2)/8, 4: (3-1)/4 + (4-1)/8, 0: (4-2)/4 + (2-0)/8 *)
Example C03_ex_crowding_values :
  map (fun p => (fst (fst p), snd p)) ex_crowding =
    [(3%nat, Inf); (0%nat, Fin (0 + 2 / 4 + 2 / 8)); (4%nat, Fin (0 + 2 / 4 + 3 / 8));
     (2%nat, Fin (0 + 2 / 4 + 6 / 8)); (1%nat, Inf)].
Proof. vm_compute. reflexivity. Qed.

Example C03_ex_interior_not_extreme :
  In ((2%nat, [1; 4]), Fin (0 + 2 / 4 + 6 / 8)) ex_crowding /\
  forall d, (d < nobj ex_costs ex_front)%nat -> ~ extreme_at Qltb 0 ex_costs d ex_front (2%nat, [1; 4]).
Proof.
  split; [vm_compute; tauto|].
  intros d Hd. change (nobj ex_costs ex_front) with 2%nat in Hd.
  assert (In1 : In (1%nat, [0; 8]) ex_front) by (unfold ex_front; cbn [In]; tauto).
  assert (In3 : In (3%nat, [4; 0]) ex_front) by (unfold ex_front; cbn [In]; tauto).
  destruct d as [|[|d]]; [| |lia]; intros [Hmin|Hmax].
  - specialize (Hmin _ In1). vm_compute in Hmin. discriminate.
  - specialize (Hmax _ In3). vm_compute in Hmax. discriminate.
  - specialize (Hmin _ In3). vm_compute in Hmin. discriminate.
  - specialize (Hmax _ In1). vm_compute in Hmax. discriminate.
Qed.

(* a front with ties and a zero-range objective: finite values stay within [0, 2] *)
Example C03_ex_ties :
  map snd (crowding Qltb Qplus Qminus Qdiv 0 ex_costs
             [(0%nat, [1; 5]); (1%nat, [1; 5]); (2%nat, [2; 5]); (3%nat, [2; 5]); (4%nat, [3; 5])]) =
  [Inf; Fin (0 + 1 / 2); Fin (0 + 1 / 2); Fin (0 + 1 / 2); Inf].
Proof. vm_compute. reflexivity. Qed.

(* a ranked population (id, design, front, crowding, costs) with a duplicated design *)
Record ex_ind := { e_id : nat; e_design : nat; e_front : nat; e_cd : Ext Q; e_cost : list Q }.
Definition ex_deq (a b : ex_ind) : bool := Nat.eqb (e_design a) (e_design b).
Definition ex_cost (a : ex_ind) : list Q * Z := (e_cost a, 0%Z).
Definition ex_pop : list ex_ind :=
  [ {| e_id := 0; e_design := 10; e_front := 2; e_cd := Inf;        e_cost := [2; 2] |};
    {| e_id := 1; e_design := 11; e_front := 1; e_cd := Inf;        e_cost := [0; 3] |};
    {| e_id := 2; e_design := 12; e_front := 1; e_cd := Fin (1 # 2); e_cost := [1; 2] |};
    {| e_id := 3; e_design := 11; e_front := 1; e_cd := Inf;        e_cost := [0; 3] |};
    {| e_id := 4; e_design := 13; e_front := 1; e_cd := Fin (3 # 2); e_cost := [2; 1] |};
    {| e_id := 5; e_design := 14; e_front := 1; e_cd := Inf;        e_cost := [3; 0] |} ].

Example C03_ex_truncate :
  option_map (map e_id) (truncate Qltb e_id e_front e_cd ex_deq ex_pop [5; 2; 0; 4; 1]%nat 3) = Some [5; 1; 4]%nat /\
  option_map (map e_id) (truncate Qltb e_id e_front e_cd ex_deq ex_pop [0; 1; 2; 4; 5]%nat 9) = Some [1; 5; 4; 2; 0]%nat /\
  truncate Qltb e_id e_front e_cd ex_deq ex_pop [0; 1; 2; 3; 4]%nat 3 = None /\
  NoDup (map e_id ex_pop) /\ (forall x y, ex_deq x y = ex_deq y x) /\ (forall x, ex_deq x x = true).
Proof.
  split; [vm_compute; reflexivity|]. split; [vm_compute; reflexivity|]. split; [vm_compute; reflexivity|].
  split; [|split].
  - apply (NoDup_count_occ' Nat.eq_dec). intros x Hx. cbn in Hx.
    repeat (destruct Hx as [<-|Hx]; [vm_compute; reflexivity|]). contradiction.
  - intros x y. apply Nat.eqb_sym.
  - intros x. apply Nat.eqb_refl.
Qed.

Example C03_ex_rank_equation :
  rank_equation Qltb e_front ex_cost ex_pop /\
  (forall e x, In e ex_pop -> In x ex_pop -> ex_deq e x = true -> e_front e = e_front x).
Proof.
  split.
  - intros x Hx. unfold ex_pop in Hx. cbn [In] in Hx.
    repeat (destruct Hx as [<-|Hx]; [vm_compute; reflexivity|]). contradiction.
  - intros e x He Hx Hd. unfold ex_pop in He, Hx. cbn [In] in He, Hx.
    repeat (destruct He as [<-|He]; [repeat (destruct Hx as [<-|Hx];
              [first [reflexivity | (vm_compute in Hd; discriminate)]|]); contradiction|]).
    contradiction.
Qed.

Example C03_ex_tournament :
  option_map e_id (tournament Qltb e_front ex_cost ex_pop (Some (0, 4)%nat) None) = Some 4%nat /\
  option_map e_id (tournament Qltb e_front ex_cost ex_pop (Some (2, 4)%nat) (Some 0%nat)) = Some 2%nat /\
  option_map e_id (tournament Qltb e_front ex_cost ex_pop (Some (2, 4)%nat) (Some 1%nat)) = Some 4%nat /\
  tournament Qltb e_front ex_cost ex_pop (Some (2, 4)%nat) None = None /\
  tournament Qltb e_front ex_cost ex_pop (Some (2, 2)%nat) None = None /\
  (* equal (stale) front numbers but one dominates: no coin is drawn, the dominating one wins *)
  option_map fst (tournament Qltb (fun _ => 1%nat) (fun x : nat * list Q => (snd x, 0%Z))
                    [(0%nat, [2; 2]); (1%nat, [1; 2])] (Some (0, 1)%nat) None) = Some 1%nat.
Proof. vm_compute. repeat split. Qed.
