(* C11 - a crash at any moment leaves the SQLite store readable and consistent.
   Property theorems only; each is closed by `exact`, followed by Print Assumptions.

   Model (Model/Crash.v): the durable state is the committed table; a synchronisation is
   [execute upsert; commit] on its own connection, sync_all is [execute*; commit]; a crash point is a
   prefix of the step sequence; statements of connections that have not committed are lost.
   Assumed (trusted, exercised by the correspondence, NOT modelled): a commit of SQLite is atomic and
   durable against process death (rollback journal), the file stays openable.  The objective and the
   signed-cost computation are arbitrary functions (Section variables of the model). *)
From Coq Require Import List ZArith Bool String.
From Artap Require Import Model.Store Model.Crash Proofs.StoreProofs Proofs.CrashProofs.
Import ListNotations.
Local Open Scope Z_scope.
Local Open Scope string_scope.
Local Open Scope list_scope.

(* Every trace that obeys the order of job.py / datastore.py (`legal`: a condition on the order of the
   events only), cut at ANY point: the recovered table has one row per id, a row for every id whose
   synchronisation had returned, and every row - and every statement still in flight - is the complete
   image of an individual whose costs and signed costs are the objective's for its stored vector. *)
Theorem C11_crash_legal_consistent : forall objective signed designs db0 tr pre,
  NoDup (keys db0) -> (forall k r, lookup k db0 = Some r -> Crash.good_row objective signed k r) ->
  Crash.legal objective signed (Crash.init_state designs db0) tr = true -> Crash.prefix pre tr ->
  let st := Crash.run_steps objective signed pre (Crash.init_state designs db0) in
  NoDup (keys (Crash.recovered st)) /\
  (forall i, In (Crash.SReturn i) pre -> In i (keys (Crash.recovered st))) /\
  (forall k r, lookup k (Crash.recovered st) = Some r -> Crash.good_row objective signed k r) /\
  (forall c k r, In (k, r) (Crash.c_pend st c) -> Crash.good_row objective signed k r).
Proof. exact crash_legal_consistent. Qed.

(* every interleaving of the per-design step lists of Job.evaluate + sync_individual (serial evaluation is
   the interleaving that runs them one after the other) obeys that order ... *)
Theorem C11_jobs_merge_legal : forall objective signed designs db0 ids tr, NoDup ids ->
  Crash.merge (map Crash.job ids) tr ->
  Crash.legal objective signed (Crash.init_state designs db0) tr = true.
Proof. exact jobs_merge_legal. Qed.

(* ... also when the final sync_all over recorded designs follows *)
Theorem C11_run_with_final_sync_all_legal : forall objective signed designs db0 ids tr c final, NoDup ids ->
  Crash.merge (map Crash.job ids) tr -> incl final ids ->
  Crash.legal objective signed (Crash.init_state designs db0) (tr ++ Crash.sync_all_steps c final) = true.
Proof. exact run_with_final_sync_all_legal. Qed.

(* the planned statement (DESIGN A.6): serial and interleaved evaluation, every crash point *)
Theorem C11_crash_prefix_consistent : forall objective signed designs ids tr c final pre, NoDup ids ->
  Crash.merge (map Crash.job ids) tr -> incl final ids ->
  Crash.prefix pre (tr ++ Crash.sync_all_steps c final) ->
  let db := Crash.recovered (Crash.run_steps objective signed pre (Crash.init_state designs [])) in
  NoDup (keys db) /\
  (forall i, In (Crash.SReturn i) pre -> In i (keys db)) /\
  (forall k r, lookup k db = Some r -> Crash.good_row objective signed k r).
Proof. exact crash_prefix_consistent. Qed.

(* Failed evaluations (objective raises TimeoutError / RuntimeError; Job.evaluate draws a replacement vector and
   tries again): a job is any number of failed attempts [SStart i; SFail i v] followed by the successful one
   and its synchronisation, with NO store statement in between.  Every interleaving of such jobs obeys the order ... *)
Theorem C11_jobs_retry_merge_legal : forall objective signed designs db0 (jobs : list (Z * list (list jv))) tr,
  NoDup (map fst jobs) ->
  Crash.merge (map (fun iv => Crash.job_retry (fst iv) (snd iv)) jobs) tr ->
  Crash.legal objective signed (Crash.init_state designs db0) tr = true.
Proof. exact jobs_retry_merge_legal. Qed.

(* ... so at every crash point - inside a retried objective call, between a failed attempt and its retry, around
   every statement and commit - the recovered table has one row per id, a row for every id whose synchronisation had
   returned, and only complete images: a design whose evaluation has failed so far has no row with the replacement vector *)
Theorem C11_crash_prefix_consistent_retry : forall objective signed designs (jobs : list (Z * list (list jv))) tr c final pre,
  NoDup (map fst jobs) ->
  Crash.merge (map (fun iv => Crash.job_retry (fst iv) (snd iv)) jobs) tr -> incl final (map fst jobs) ->
  Crash.prefix pre (tr ++ Crash.sync_all_steps c final) ->
  let db := Crash.recovered (Crash.run_steps objective signed pre (Crash.init_state designs [])) in
  NoDup (keys db) /\
  (forall i, In (Crash.SReturn i) pre -> In i (keys db)) /\
  (forall k r, lookup k db = Some r -> Crash.good_row objective signed k r).
Proof. exact crash_prefix_consistent_retry. Qed.

(* the order is needed: a trace with a store statement between a failed attempt and its retry is not legal *)
Theorem C11_write_after_failed_attempt_illegal : forall objective signed st c i v tr,
  Crash.legal objective signed st (SStart i :: SFail i v :: SExec c i :: tr) = false.
Proof. exact write_after_failed_attempt_illegal. Qed.

(* a complete image is readable by the view, with the row's id, and the costs it shows are the objective's
   value for the vector it shows (no partially written individual) *)
Theorem C11_good_row_readable : forall objective signed k r, Crash.good_row objective signed k r ->
  exists x, from_dict r = Some (view_of x) /\ v_id (view_of x) = JNum (NInt k) /\
            v_vector (view_of x) = JArr (i_vector x) /\ v_costs (view_of x) = JArr (objective (i_vector x)) /\
            v_costs_signed (view_of x) = signed (i_vector x) (objective (i_vector x)) /\
            (v_state (view_of x) = JStr "evaluated" \/ v_state (view_of x) = JStr "empty" \/ v_state (view_of x) = JNull).
Proof. exact good_row_readable. Qed.

(* the name / parameter / cost rows are written before the constructor returns; no step touches them *)
Theorem C11_meta_survives : forall t st, read_meta (with_individuals t st) = read_meta t.
Proof. exact meta_survives. Qed.

Print Assumptions C11_crash_legal_consistent.
Print Assumptions C11_jobs_merge_legal.
Print Assumptions C11_run_with_final_sync_all_legal.
Print Assumptions C11_crash_prefix_consistent.
Print Assumptions C11_jobs_retry_merge_legal.
Print Assumptions C11_crash_prefix_consistent_retry.
Print Assumptions C11_write_after_failed_attempt_illegal.
Print Assumptions C11_good_row_readable.
Print Assumptions C11_meta_survives.

(* non-vacuity: two designs evaluated in parallel, an explicit interleaving of their job lists, cut after
   design 2 has committed while the statement of design 1 is executed but not committed *)
Definition ex_obj (v : list jv) : list jv := [JArr v; JNum (NInt 7)].
Definition ex_sg (v c : list jv) : jv := JArr (c ++ [JBool true]).
Definition ex_designs : list (Z * list jv) := [(1, [JNum (NInt 10)]); (2, [JNum (NInt 20); JNum (NInt 21)])].
Definition ex_trace : list Crash.step :=
  [SStart 1; SStart 2; SCosts 2; SCosts 1; SSigned 1; SDone 1; SSigned 2; SExec 1 1; SDone 2; SExec 2 2;
   SCommit 2; SCommit 1; SReturn 1; SReturn 2].

Example C11_ex_merge : Crash.merge (map Crash.job [1; 2]) ex_trace.
Proof.
  unfold ex_trace, Crash.job. simpl.
  repeat (first [refine (merge_pick [] _ _ _ _ _) | refine (merge_pick [_] _ _ _ _ _)]).
  apply merge_done. intros t [<-|[<-|[]]]; reflexivity.
Qed.

Example C11_ex_crash :
  let pre := firstn 11 ex_trace in
  let st := Crash.run_steps ex_obj ex_sg pre (Crash.init_state ex_designs []) in
  Crash.prefix pre (ex_trace ++ Crash.sync_all_steps 9 [1; 2]) /\
  Crash.legal ex_obj ex_sg (Crash.init_state ex_designs []) ex_trace = true /\
  keys (Crash.recovered st) = [2] /\ map fst (Crash.c_pend st 1) = [1] /\ Crash.c_ret st = [] /\
  option_map (fun r => option_map v_costs (from_dict r)) (lookup 2 (Crash.recovered st))
    = Some (Some (JArr (ex_obj [JNum (NInt 20); JNum (NInt 21)]))) /\
  keys (Crash.recovered (Crash.run_steps ex_obj ex_sg ex_trace (Crash.init_state ex_designs []))) = [2; 1] /\
  (* an order the code does not produce is rejected: execute before the state is final *)
  Crash.legal ex_obj ex_sg (Crash.init_state ex_designs []) [SStart 1; SCosts 1; SExec 1 1] = false.
Proof.
  cbv zeta. split; [exists (skipn 11 ex_trace ++ Crash.sync_all_steps 9 [1; 2]); reflexivity|].
  vm_compute. repeat split; reflexivity.
Qed.

(* a second session: the first process dies with the statement of design 2 executed but uncommitted; a new
   process re-opens the file (design 1 is rebuilt from its row), synchronises the reloaded design 1 again
   and evaluates design 3; the uncommitted statement is gone, row 1 is still a complete image (state null) *)
Example C11_ex_reopen :
  let tr := [SStart 1; SCosts 1; SSigned 1; SDone 1; SExec 1 1; SCommit 1; SReturn 1;
             SStart 2; SCosts 2; SSigned 2; SDone 2; SExec 2 2;
             SReopen; SExecOld 5 1; SCommit 5; SReturn 1; SNew 3 [JNum (NInt 30)]; SStart 3; SCosts 3; SSigned 3; SDone 3;
             SExec 6 3; SCommit 6] in
  let designs := ex_designs in
  let st := Crash.run_steps ex_obj ex_sg tr (Crash.init_state designs []) in
  Crash.legal ex_obj ex_sg (Crash.init_state designs []) tr = true /\
  keys (Crash.recovered st) = [1; 3] /\
  option_map (fun r => option_map (fun v => (v_state v, v_costs v)) (from_dict r)) (lookup 1 (Crash.recovered st))
    = Some (Some (JNull, JArr (ex_obj [JNum (NInt 10)]))).
Proof. vm_compute. repeat split; reflexivity. Qed.

(* failed attempts: design 1 fails twice (replacement vectors [11], then [12]) while design 2 is evaluated in
   parallel; the process dies inside the third attempt of design 1: only design 2 has a row.  The complete run
   stores design 1 with the vector that was evaluated in the end.  A write between the failed attempt and
   the retry (not legal) would leave the replacement vector with the costs of nothing in the table. *)
Definition ex_retry_trace : list Crash.step :=
  [SStart 1; SStart 2; SFail 1 [JNum (NInt 11)]; SCosts 2; SStart 1; SSigned 2; SDone 2; SFail 1 [JNum (NInt 12)];
   SExec 2 2; SCommit 2; SStart 1; SReturn 2; SCosts 1; SSigned 1; SDone 1; SExec 1 1; SCommit 1; SReturn 1].

Example C11_ex_retry_merge :
  Crash.merge (map (fun iv => Crash.job_retry (fst iv) (snd iv)) [(1, [[JNum (NInt 11)]; [JNum (NInt 12)]]); (2, [])]) ex_retry_trace.
Proof.
  unfold ex_retry_trace, Crash.job_retry, Crash.job. simpl.
  repeat (first [refine (merge_pick [] _ _ _ _ _) | refine (merge_pick [_] _ _ _ _ _)]).
  apply merge_done. intros t [<-|[<-|[]]]; reflexivity.
Qed.

Example C11_ex_retry_crash :
  let st0 := Crash.init_state ex_designs [] in
  let pre := firstn 12 ex_retry_trace in
  let st := Crash.run_steps ex_obj ex_sg pre st0 in
  Crash.legal ex_obj ex_sg st0 ex_retry_trace = true /\
  keys (Crash.recovered st) = [2] /\ Crash.c_ret st = [2] /\
  option_map (fun r => option_map (fun v => (v_vector v, v_costs v)) (from_dict r))
             (lookup 1 (Crash.recovered (Crash.run_steps ex_obj ex_sg ex_retry_trace st0)))
    = Some (Some (JArr [JNum (NInt 12)], JArr (ex_obj [JNum (NInt 12)]))) /\
  (* the store written on the failure path: not legal, and the table then holds vector [11] with no costs *)
  let bad := [SStart 1; SFail 1 [JNum (NInt 11)]; SExec 1 1; SCommit 1; SStart 1] in
  Crash.legal ex_obj ex_sg st0 bad = false /\
  option_map (fun r => option_map (fun v => (v_vector v, v_costs v)) (from_dict r))
             (lookup 1 (Crash.recovered (Crash.run_steps ex_obj ex_sg bad st0)))
    = Some (Some (JArr [JNum (NInt 11)], JArr [])).
Proof. vm_compute. repeat split; reflexivity. Qed.
