(* C08 - Variation, sampling and search never leave the declared parameter box.
   Property theorems only; each is closed by `exact`, followed by Print Assumptions. *)
From Coq Require Import List ZArith QArith Bool Floats.
From Artap Require Import Base.Ord Base.FloatInst Base.QInst Model.Variation Proofs.VariationProofs.
Import ListNotations.

Section C08.
  Context {T : Type} (ltb : T -> T -> bool) (H : SWO ltb).

  (* clip(v, lo, hi) with lo <= hi: not below lo, not above hi, and one of its three arguments *)
  Theorem C08_clip_in_box : forall v lo hi, ltb hi lo = false ->
    ltb (clip ltb v lo hi) lo = false /\ ltb hi (clip ltb v lo hi) = false /\
    (clip ltb v lo hi = v \/ clip ltb v lo hi = lo \/ clip ltb v lo hi = hi).
  Proof. exact (clip_in_box ltb H). Qed.

  (* polynomial / uniform / non-uniform mutation: same dimension, every coordinate in its box, for
     every probability, draw tape and pre-clip oracle (hence every distribution index, perturbation
     and iteration number, which only enter through the oracle values) *)
  Theorem C08_pm_in_box : forall prob params parent tape child,
    Forall (wf ltb) params -> in_box ltb params parent ->
    pm_mutate ltb prob params parent tape = Some child ->
    length child = length parent /\ in_box ltb params child.
  Proof. exact (pm_in_box ltb H). Qed.

  Theorem C08_uniform_in_box : forall prob params parent tape child,
    Forall (wf ltb) params -> in_box ltb params parent ->
    uniform_mutate ltb prob params parent tape = Some child ->
    length child = length parent /\ in_box ltb params child.
  Proof. exact (uniform_in_box ltb H). Qed.

  Theorem C08_nonuniform_in_box : forall prob params parent tape child,
    Forall (wf ltb) params -> in_box ltb params parent ->
    nonuniform_mutate ltb prob params parent tape = Some child ->
    length child = length parent /\ in_box ltb params child.
  Proof. exact (nonuniform_in_box ltb H). Qed.

  (* SBX: both children, for every test `far` of "parents differ by more than EPSILON" *)
  Theorem C08_sbx_in_box : forall far half prob params p1 p2 tape c1 c2,
    Forall (wf ltb) params -> in_box ltb params p1 -> in_box ltb params p2 ->
    sbx_cross ltb far half prob params p1 p2 tape = Some (c1, c2) ->
    length c1 = length p1 /\ length c2 = length p2 /\ in_box ltb params c1 /\ in_box ltb params c2.
  Proof. exact (sbx_in_box ltb H). Qed.

  (* swarm position update: whatever the position and the velocity were, the new position is in
     the box (for every addition and every velocity correction) *)
  Theorem C08_position_in_box : forall add bounce params xs vs xs' vs',
    Forall (wf ltb) params -> length xs = length params ->
    position_update ltb add bounce params xs vs = Some (xs', vs') ->
    in_box ltb params xs' /\ length vs' = length vs.
  Proof. exact (position_in_box ltb H). Qed.

  (* Run level.  `outer` is the declared box widened by the generators' rounding precision
     (gen_vector_in_box below); `derived` is the closure of "in the outer box" under the modelled
     mutators, SBX and both position updates, with arbitrary tapes.  The full statement is about
     the set of vectors a run submits for evaluation; it is proved for every set all of whose
     members are derived.  That the five run loops only submit derived vectors is not a theorem:
     it is checked on every real run by the harness (provenance check + box oracle). *)
  Definition C08_run_full_statement (outer : list (T * T)) (evaluated : list T -> Prop) : Prop :=
    forall v, evaluated v -> in_box ltb outer v.

  Theorem C08_run_in_box_partial : forall far half add bounce1 bounce2 params outer (evaluated : list T -> Prop),
    boxes ltb params outer ->
    (forall v, evaluated v -> derived ltb far half add bounce1 bounce2 params outer v) ->
    C08_run_full_statement outer evaluated.
  Proof. exact (run_in_box ltb H). Qed.
End C08.

(* random generator (exact rationals): within half a precision step of [lb, ub] *)
Theorem C08_gen_number_in_box : forall r lb ub p, (0 <= r -> r < 1 -> lb <= ub -> 0 <= p ->
  lb - effective_precision p / 2 <= gen_number r lb ub p /\
  gen_number r lb ub p <= ub + effective_precision p / 2)%Q.
Proof. exact gen_number_in_box. Qed.

Theorem C08_gen_vector_in_box : forall params draws v,
  Forall q_wf params -> Forall (fun r => 0 <= r /\ r < 1)%Q draws ->
  gen_vector params draws = Some v ->
  length v = length params /\ Forall2 q_inside params v.
Proof. exact gen_vector_in_box. Qed.

(* the binary64 instance: Python's `<`, for every float value of v including infinities *)
Theorem C08_float_clip_in_box : forall v lo hi, fltb hi lo = false ->
  fltb (clip fltb v lo hi) lo = false /\ fltb hi (clip fltb v lo hi) = false /\
  (clip fltb v lo hi = v \/ clip fltb v lo hi = lo \/ clip fltb v lo hi = hi).
Proof. exact (clip_in_box fltb fltb_SWO). Qed.

Theorem C08_float_sbx_in_box : forall far half prob params p1 p2 tape c1 c2,
  Forall (wf fltb) params -> in_box fltb params p1 -> in_box fltb params p2 ->
  sbx_cross fltb far half prob params p1 p2 tape = Some (c1, c2) ->
  length c1 = length p1 /\ length c2 = length p2 /\ in_box fltb params c1 /\ in_box fltb params c2.
Proof. exact (sbx_in_box fltb fltb_SWO). Qed.

Print Assumptions C08_clip_in_box.
Print Assumptions C08_pm_in_box.
Print Assumptions C08_uniform_in_box.
Print Assumptions C08_nonuniform_in_box.
Print Assumptions C08_sbx_in_box.
Print Assumptions C08_position_in_box.
Print Assumptions C08_run_in_box_partial.
Print Assumptions C08_gen_number_in_box.
Print Assumptions C08_gen_vector_in_box.
Print Assumptions C08_float_clip_in_box.
Print Assumptions C08_float_sbx_in_box.

(* non-vacuity: concrete boxes, parents, tapes meet the hypotheses and the operators do change
   the vectors (Z instance: far = "differ", half = 5 on a 0..10 scale) *)
Example C08_ex_box :
  Forall (wf Z.ltb) [(0, 10); (-5, 5)]%Z /\ in_box Z.ltb [(0, 10); (-5, 5)]%Z [3; 5]%Z /\
  in_box Z.ltb [(0, 10); (-5, 5)]%Z [10; -5]%Z.
Proof. repeat constructor. Qed.

Example C08_ex_pm :
  pm_mutate Z.ltb 5%Z [(0, 10); (-5, 5)]%Z [3; 5]%Z [Draw 2; Draw 9; Pre 14; Draw 7]%Z = Some [10; 5]%Z /\
  nonuniform_mutate Z.ltb 5%Z [(0, 10); (-5, 5)]%Z [3; 5]%Z [Draw 9; Draw 1; Draw 0; Draw 3; Pre (-7)]%Z
    = Some [3; -5]%Z.
Proof. vm_compute. split; reflexivity. Qed.

Example C08_ex_sbx :
  sbx_cross Z.ltb (fun a b => negb (a =? b)%Z) 5%Z 9%Z [(0, 10); (-5, 5)]%Z [3; 5]%Z [10; -5]%Z
    [Draw 1; Draw 2; Draw 6; Pre (-2); Pre 12; Draw 8; Draw 7]%Z = Some ([0; 5], [10; -5])%Z.
Proof. vm_compute. reflexivity. Qed.

Example C08_ex_position :
  position_update Z.ltb Z.add Z.opp [(0, 10); (-5, 5)]%Z [3; 5]%Z [9; -20]%Z = Some ([10; -5], [-9; 20])%Z.
Proof. vm_compute. reflexivity. Qed.

Example C08_ex_gen_number :
  (gen_number (1 # 3) (-3) 5 (1 # 100) == -33 # 100)%Q /\ (0 <= 1 # 3 /\ 1 # 3 < 1 /\ -3 <= 5)%Q /\
  q_wf (-3, 5, 0)%Q /\
  (* 0.75 / 0.5 = 1.5 and 0.25 / 0.5 = 0.5 are ties: rounded to the even neighbours 2 and 0 *)
  gen_vector [(-3, 5, 1 # 100); (0, 1, 1 # 2)]%Q [1 # 3; 3 # 4]%Q = Some [-33 # 100; 2 # 2]%Q /\
  gen_vector [(-3, 5, 1 # 100); (0, 1, 1 # 2)]%Q [1 # 3; 1 # 4]%Q = Some [-33 # 100; 0 # 2]%Q.
Proof. vm_compute. repeat split; try reflexivity; discriminate. Qed.
