(* C08 - Variation, sampling and search never leave the declared parameter box.
   Property theorems only; each is closed by `exact`, followed by Print Assumptions. *)
From Coq Require Import List ZArith QArith Bool Floats.
From Artap Require Import Base.Ord Base.FloatInst Base.QInst Model.Variation Model.VariationRun Model.VariationGen
     Proofs.VariationProofs Proofs.VariationRunProofs Proofs.VariationGenProofs.
Import ListNotations.

Section C08.
  Context {T : Type} (ltb : T -> T -> bool) (H : SWO ltb).

  (* ---- operators ------------------------------------------------------------------------------------- *)
  (* clip(v, lo, hi) with lo <= hi: not below lo, not above hi, and one of its three arguments *)
  Theorem C08_clip_in_box : forall v lo hi, ltb hi lo = false ->
    ltb (clip ltb v lo hi) lo = false /\ ltb hi (clip ltb v lo hi) = false /\
    (clip ltb v lo hi = v \/ clip ltb v lo hi = lo \/ clip ltb v lo hi = hi).
  Proof. exact (clip_in_box ltb H). Qed.

  (* polynomial / uniform / non-uniform mutation: same dimension, every coordinate in its box, for
     every probability, draw tape and pre-clip oracle (hence every distribution index, perturbation
     and iteration number, which only enter through the oracle values) *)
  Theorem C08_pm_in_box : forall prob params parent tape child,
    Forall (wf ltb) params -> in_box ltb params parent ->
    pm_mutate ltb prob params parent tape = Some child ->
    length child = length parent /\ in_box ltb params child.
  Proof. exact (pm_in_box ltb H). Qed.

  Theorem C08_uniform_in_box : forall prob params parent tape child,
    Forall (wf ltb) params -> in_box ltb params parent ->
    uniform_mutate ltb prob params parent tape = Some child ->
    length child = length parent /\ in_box ltb params child.
  Proof. exact (uniform_in_box ltb H). Qed.

  Theorem C08_nonuniform_in_box : forall prob params parent tape child,
    Forall (wf ltb) params -> in_box ltb params parent ->
    nonuniform_mutate ltb prob params parent tape = Some child ->
    length child = length parent /\ in_box ltb params child.
  Proof. exact (nonuniform_in_box ltb H). Qed.

  (* SBX: both children, for every test `far` of "parents differ by more than EPSILON" *)
  Theorem C08_sbx_in_box : forall far half prob params p1 p2 tape c1 c2,
    Forall (wf ltb) params -> in_box ltb params p1 -> in_box ltb params p2 ->
    sbx_cross ltb far half prob params p1 p2 tape = Some (c1, c2) ->
    length c1 = length p1 /\ length c2 = length p2 /\ in_box ltb params c1 /\ in_box ltb params c2.
  Proof. exact (sbx_in_box ltb H). Qed.

  (* the same for parents that are only inside a wider box `outer` (the declared box plus the rounding slack
     of the generators): children are inside `outer`; varied coordinates are inside the declared box *)
  Theorem C08_mutation_in_box_outer : forall k prob params outer parent tape child,
    boxes ltb params outer -> in_box ltb outer parent ->
    mutate_with ltb k prob params parent tape = Some child ->
    length child = length parent /\ in_box ltb outer child.
  Proof. exact (mutate_with_in_box ltb H). Qed.

  Theorem C08_sbx_in_box_outer : forall far half prob params outer p1 p2 tape c1 c2,
    boxes ltb params outer -> in_box ltb outer p1 -> in_box ltb outer p2 ->
    sbx_cross ltb far half prob params p1 p2 tape = Some (c1, c2) ->
    length c1 = length p1 /\ length c2 = length p2 /\ in_box ltb outer c1 /\ in_box ltb outer c2.
  Proof. exact (sbx_in_box_outer ltb H). Qed.

  (* swarm position update: whatever the position and the velocity were, the new position is in
     the box (for every addition and every velocity correction) *)
  Theorem C08_position_in_box : forall add bounce params xs vs xs' vs',
    Forall (wf ltb) params -> length xs = length params ->
    position_update ltb add bounce params xs vs = Some (xs', vs') ->
    in_box ltb params xs' /\ length vs' = length vs.
  Proof. exact (position_in_box ltb H). Qed.

  (* ---- design-of-experiment generators that pick levels (any ordered type) ------------------------------ *)
  Theorem C08_two_level_in_box : forall params x rows,
    Forall (wf ltb) params -> Forall (fun row => length row = length params) x ->
    construct_df (map levels2 params) x = Some rows -> length rows = length x /\ Forall (in_box ltb params) rows.
  Proof. exact (two_level_in_box ltb H). Qed.

  Theorem C08_three_level_in_box : forall mid params x rows,
    Forall (wf ltb) params -> (forall p, In p params -> inside ltb p (mid p)) ->
    Forall (fun row => length row = length params) x ->
    construct_df (map (levels3 mid) params) x = Some rows -> length rows = length x /\ Forall (in_box ltb params) rows.
  Proof. exact (three_level_in_box ltb H). Qed.

  (* ---- one generation of each algorithm, and whole runs --------------------------------------------------
     `outer` contains the declared box; okl = every vector of a list is inside `outer`; script_ok = the
     re-rolled designs of a script are inside `outer`.  Selections, tapes and velocities are arbitrary. *)
  Section Runs.
    Variable far : T -> T -> bool.
    Variable half : T.
    Variable add : T -> T -> T.
    Variables flip damp : T -> T.
    Variable close : T -> T -> bool.
    Variables params outer : list (T * T).
    Hypothesis HB : boxes ltb params outer.
    Let ok := okl ltb outer.
    Let sok := script_ok ltb outer.

    Theorem C08_step_in_box_nsga2 : forall N pc pm pop s sub pop', ok pop -> sok s ->
      nsga2_step ltb far half close params N pc pm pop s = Some (sub, pop') -> ok sub /\ ok pop'.
    Proof. exact (step_in_box_nsga2 ltb H far half close params outer HB). Qed.

    Theorem C08_step_in_box_epsmoea : forall N pc pm st s sub st', ok_state2 ltb outer st -> sok s ->
      epsmoea_step ltb far half close params N pc pm st s = Some (sub, st') -> ok sub /\ ok_state2 ltb outer st'.
    Proof. exact (step_in_box_epsmoea ltb H far half close params outer HB). Qed.

    Theorem C08_step_in_box_omopso : forall prob pop s sub pop', ok pop -> sok s ->
      omopso_step ltb add flip params prob pop s = Some (sub, pop') -> ok sub /\ ok pop'.
    Proof. exact (step_in_box_omopso ltb H add flip params outer HB). Qed.

    Theorem C08_step_in_box_smpso : forall prob pop s sub pop', ok pop -> sok s ->
      smpso_step ltb add damp params prob pop s = Some (sub, pop') -> ok sub /\ ok pop'.
    Proof. exact (step_in_box_smpso ltb H add damp params outer HB). Qed.

    Theorem C08_step_in_box_psoga : forall pc pm pop s sub pop', ok pop -> sok s ->
      psoga_step ltb far half add flip params pc pm pop s = Some (sub, pop') -> ok sub /\ ok pop'.
    Proof. exact (step_in_box_psoga ltb H far half add flip params outer HB). Qed.

    (* every population size, every number of generations: by induction over the list of scripts *)
    Theorem C08_run_in_box_nsga2 : forall N pc pm pop0 rr0 ss sub pop, ok pop0 -> Forall ok rr0 -> Forall sok ss ->
      run_nsga2 ltb far half close params N pc pm pop0 rr0 ss = Some (sub, pop) -> ok sub /\ ok pop.
    Proof. exact (run_in_box_nsga2 ltb H far half close params outer HB). Qed.

    Theorem C08_run_in_box_epsmoea : forall N pc pm arch0 pop0 rr0 ss sub st, ok pop0 -> Forall ok rr0 -> Forall sok ss ->
      run_epsmoea ltb far half close params N pc pm arch0 pop0 rr0 ss = Some (sub, st) -> ok sub /\ ok_state2 ltb outer st.
    Proof. exact (run_in_box_epsmoea ltb H far half close params outer HB). Qed.

    Theorem C08_run_in_box_omopso : forall prob pop0 rr0 ss sub pop, ok pop0 -> Forall ok rr0 -> Forall sok ss ->
      run_omopso ltb add flip params prob pop0 rr0 ss = Some (sub, pop) -> ok sub /\ ok pop.
    Proof. exact (run_in_box_omopso ltb H add flip params outer HB). Qed.

    Theorem C08_run_in_box_smpso : forall prob pop0 rr0 ss sub pop, ok pop0 -> Forall ok rr0 -> Forall sok ss ->
      run_smpso ltb add damp params prob pop0 rr0 ss = Some (sub, pop) -> ok sub /\ ok pop.
    Proof. exact (run_in_box_smpso ltb H add damp params outer HB). Qed.

    Theorem C08_run_in_box_psoga : forall pc pm pop0 rr0 ss sub pop, ok pop0 -> Forall ok rr0 -> Forall sok ss ->
      run_psoga ltb far half add flip params pc pm pop0 rr0 ss = Some (sub, pop) -> ok sub /\ ok pop.
    Proof. exact (run_in_box_psoga ltb H far half add flip params outer HB). Qed.
  End Runs.
End C08.

(* ---- generators in exact rational arithmetic ------------------------------------------------------------ *)
(* random generator: within half a precision step (declared, or the default 1e-12) of [lb, ub] *)
Theorem C08_gen_number_in_box : forall r lb ub p, (0 <= r -> r < 1 -> lb <= ub -> 0 <= p ->
  lb - effective_precision p / 2 <= gen_number r lb ub p /\
  gen_number r lb ub p <= ub + effective_precision p / 2)%Q.
Proof. exact gen_number_in_box. Qed.

Theorem C08_gen_vector_in_box : forall params draws v,
  Forall q_wf params -> Forall (fun r => 0 <= r /\ r < 1)%Q draws ->
  gen_vector params draws = Some v ->
  length v = length params /\ Forall2 q_inside params v.
Proof. exact gen_vector_in_box. Qed.

(* LHS, Halton: a design matrix in the unit cube is mapped into the box *)
Theorem C08_scaled_design_in_box : forall ps x rows,
  Forall (wf Qltb) ps -> Forall (fun w => unit_row w /\ length w = length ps) x ->
  scale_rows ps x = Some rows -> length rows = length x /\ Forall (in_box Qltb ps) rows.
Proof. exact scaled_design_in_box. Qed.

(* UniformGenerator: every combination of the equidistant levels *)
Theorem C08_uniform_grid_in_box : forall number ps x rows,
  Forall (wf Qltb) ps -> (2 <= number)%nat -> Forall (fun row => length row = length ps) x ->
  construct_df (map (grid_levels number) ps) x = Some rows -> length rows = length x /\ Forall (in_box Qltb ps) rows.
Proof. exact uniform_grid_in_box. Qed.

(* three-level designs with the arithmetic mid-point *)
Theorem C08_three_level_mid_in_box : forall params x rows,
  Forall (wf Qltb) params -> Forall (fun row => length row = length params) x ->
  construct_df (map (levels3 q_mid) params) x = Some rows -> length rows = length x /\ Forall (in_box Qltb params) rows.
Proof.
  exact (fun params x rows W => three_level_in_box Qltb Qltb_SWO q_mid params x rows W
           (fun p Hp => q_mid_inside p (proj1 (Forall_forall _ _) W p Hp))).
Qed.

(* runs whose initial and re-rolled designs come from gen_vector: every evaluated design is within half a
   precision step of the box (the statement of the property for the five algorithms, in exact arithmetic) *)
Theorem C08_run_nsga2_designs_in_box : forall far half close qp, Forall q_wf qp ->
  forall N pc pm pop0 rr0 ss sub pop,
  Forall (generated qp) pop0 -> rerolls_generated qp rr0 -> Forall (script_generated qp) ss ->
  run_nsga2 Qltb far half close (q_box qp) N pc pm pop0 rr0 ss = Some (sub, pop) -> designs_in_box qp sub.
Proof. exact q_run_nsga2. Qed.

Theorem C08_run_epsmoea_designs_in_box : forall far half close qp, Forall q_wf qp ->
  forall N pc pm arch0 pop0 rr0 ss sub st,
  Forall (generated qp) pop0 -> rerolls_generated qp rr0 -> Forall (script_generated qp) ss ->
  run_epsmoea Qltb far half close (q_box qp) N pc pm arch0 pop0 rr0 ss = Some (sub, st) -> designs_in_box qp sub.
Proof. exact q_run_epsmoea. Qed.

Theorem C08_run_omopso_designs_in_box : forall flip qp, Forall q_wf qp ->
  forall prob pop0 rr0 ss sub pop,
  Forall (generated qp) pop0 -> rerolls_generated qp rr0 -> Forall (script_generated qp) ss ->
  run_omopso Qltb Qplus flip (q_box qp) prob pop0 rr0 ss = Some (sub, pop) -> designs_in_box qp sub.
Proof. exact q_run_omopso. Qed.

Theorem C08_run_smpso_designs_in_box : forall damp qp, Forall q_wf qp ->
  forall prob pop0 rr0 ss sub pop,
  Forall (generated qp) pop0 -> rerolls_generated qp rr0 -> Forall (script_generated qp) ss ->
  run_smpso Qltb Qplus damp (q_box qp) prob pop0 rr0 ss = Some (sub, pop) -> designs_in_box qp sub.
Proof. exact q_run_smpso. Qed.

Theorem C08_run_psoga_designs_in_box : forall far half flip qp, Forall q_wf qp ->
  forall pc pm pop0 rr0 ss sub pop,
  Forall (generated qp) pop0 -> rerolls_generated qp rr0 -> Forall (script_generated qp) ss ->
  run_psoga Qltb far half Qplus flip (q_box qp) pc pm pop0 rr0 ss = Some (sub, pop) -> designs_in_box qp sub.
Proof. exact q_run_psoga. Qed.

(* ---- the binary64 instance: Python's `<`, for every float value including infinities ---------------------- *)
Theorem C08_float_clip_in_box : forall v lo hi, fltb hi lo = false ->
  fltb (clip fltb v lo hi) lo = false /\ fltb hi (clip fltb v lo hi) = false /\
  (clip fltb v lo hi = v \/ clip fltb v lo hi = lo \/ clip fltb v lo hi = hi).
Proof. exact (clip_in_box fltb fltb_SWO). Qed.

Theorem C08_float_sbx_in_box : forall far half prob params p1 p2 tape c1 c2,
  Forall (wf fltb) params -> in_box fltb params p1 -> in_box fltb params p2 ->
  sbx_cross fltb far half prob params p1 p2 tape = Some (c1, c2) ->
  length c1 = length p1 /\ length c2 = length p2 /\ in_box fltb params c1 /\ in_box fltb params c2.
Proof. exact (sbx_in_box fltb fltb_SWO). Qed.

Theorem C08_float_run_in_box_nsga2 : forall far half close params outer, boxes fltb params outer ->
  forall N pc pm pop0 rr0 ss sub pop,
  okl fltb outer pop0 -> Forall (okl fltb outer) rr0 -> Forall (script_ok fltb outer) ss ->
  run_nsga2 fltb far half close params N pc pm pop0 rr0 ss = Some (sub, pop) -> okl fltb outer sub /\ okl fltb outer pop.
Proof. exact (run_in_box_nsga2 fltb fltb_SWO). Qed.

Theorem C08_float_run_in_box_psoga : forall far half add flip params outer, boxes fltb params outer ->
  forall pc pm pop0 rr0 ss sub pop,
  okl fltb outer pop0 -> Forall (okl fltb outer) rr0 -> Forall (script_ok fltb outer) ss ->
  run_psoga fltb far half add flip params pc pm pop0 rr0 ss = Some (sub, pop) -> okl fltb outer sub /\ okl fltb outer pop.
Proof. exact (run_in_box_psoga fltb fltb_SWO). Qed.

Print Assumptions C08_clip_in_box.
Print Assumptions C08_pm_in_box.
Print Assumptions C08_uniform_in_box.
Print Assumptions C08_nonuniform_in_box.
Print Assumptions C08_sbx_in_box.
Print Assumptions C08_mutation_in_box_outer.
Print Assumptions C08_sbx_in_box_outer.
Print Assumptions C08_position_in_box.
Print Assumptions C08_two_level_in_box.
Print Assumptions C08_three_level_in_box.
Print Assumptions C08_step_in_box_nsga2.
Print Assumptions C08_step_in_box_epsmoea.
Print Assumptions C08_step_in_box_omopso.
Print Assumptions C08_step_in_box_smpso.
Print Assumptions C08_step_in_box_psoga.
Print Assumptions C08_run_in_box_nsga2.
Print Assumptions C08_run_in_box_epsmoea.
Print Assumptions C08_run_in_box_omopso.
Print Assumptions C08_run_in_box_smpso.
Print Assumptions C08_run_in_box_psoga.
Print Assumptions C08_gen_number_in_box.
Print Assumptions C08_gen_vector_in_box.
Print Assumptions C08_scaled_design_in_box.
Print Assumptions C08_uniform_grid_in_box.
Print Assumptions C08_three_level_mid_in_box.
Print Assumptions C08_run_nsga2_designs_in_box.
Print Assumptions C08_run_epsmoea_designs_in_box.
Print Assumptions C08_run_omopso_designs_in_box.
Print Assumptions C08_run_smpso_designs_in_box.
Print Assumptions C08_run_psoga_designs_in_box.
Print Assumptions C08_float_clip_in_box.
Print Assumptions C08_float_sbx_in_box.
Print Assumptions C08_float_run_in_box_nsga2.
Print Assumptions C08_float_run_in_box_psoga.

(* non-vacuity: concrete boxes, parents, tapes meet the hypotheses and the operators do change
   the vectors (Z instance: far = "differ", half = 5 on a 0..10 scale) *)
Example C08_ex_box :
  Forall (wf Z.ltb) [(0, 10); (-5, 5)]%Z /\ in_box Z.ltb [(0, 10); (-5, 5)]%Z [3; 5]%Z /\
  in_box Z.ltb [(0, 10); (-5, 5)]%Z [10; -5]%Z.
Proof. repeat constructor. Qed.

Example C08_ex_pm :
  pm_mutate Z.ltb 5%Z [(0, 10); (-5, 5)]%Z [3; 5]%Z [Draw 2; Draw 9; Pre 14; Draw 7]%Z = Some [10; 5]%Z /\
  nonuniform_mutate Z.ltb 5%Z [(0, 10); (-5, 5)]%Z [3; 5]%Z [Draw 9; Draw 1; Draw 0; Draw 3; Pre (-7)]%Z
    = Some [3; -5]%Z.
Proof. vm_compute. split; reflexivity. Qed.

Example C08_ex_sbx :
  sbx_cross Z.ltb (fun a b => negb (a =? b)%Z) 5%Z 9%Z [(0, 10); (-5, 5)]%Z [3; 5]%Z [10; -5]%Z
    [Draw 1; Draw 2; Draw 6; Pre (-2); Pre 12; Draw 8; Draw 7]%Z = Some ([0; 5], [10; -5])%Z.
Proof. vm_compute. reflexivity. Qed.

Example C08_ex_position :
  position_update Z.ltb Z.add Z.opp [(0, 10); (-5, 5)]%Z [3; 5]%Z [9; -20]%Z = Some ([10; -5], [-9; 20])%Z.
Proof. vm_compute. reflexivity. Qed.

Example C08_ex_gen_number :
  (gen_number (1 # 3) (-3) 5 (1 # 100) == -33 # 100)%Q /\ (0 <= 1 # 3 /\ 1 # 3 < 1 /\ -3 <= 5)%Q /\
  q_wf (-3, 5, 0)%Q /\
  (* 0.75 / 0.5 = 1.5 and 0.25 / 0.5 = 0.5 are ties: rounded to the even neighbours 2 and 0 *)
  gen_vector [(-3, 5, 1 # 100); (0, 1, 1 # 2)]%Q [1 # 3; 3 # 4]%Q = Some [-33 # 100; 2 # 2]%Q /\
  gen_vector [(-3, 5, 1 # 100); (0, 1, 1 # 2)]%Q [1 # 3; 1 # 4]%Q = Some [-33 # 100; 0 # 2]%Q.
Proof. vm_compute. repeat split; try reflexivity; discriminate. Qed.

(* runs: two generations' worth of oracle scripts that the model accepts, with crossover, mutation that is
   clipped (Pre 14 -> 10, Pre -3 -> 0), a failed evaluation that is re-rolled, truncation, archive update,
   reordering of the swarm, turbulence and the PSOGA offspring *)
Definition zfar (a b : Z) : bool := negb (a =? b)%Z.
Definition zclose (a b : Z) : bool := (a =? b)%Z.

Example C08_ex_run_nsga2 :
  run_nsga2 Z.ltb zfar 5%Z zclose [(0, 10)]%Z 2 5%Z 5%Z [[3]; [7]]%Z [[]; []]
    [Build_script [Build_breed 0 1 [Draw 9] [Draw 2; Draw 0; Pre 14] [Draw 8]]%Z [[]; [[4]]]%Z [0; 1; 3]%nat [] [] [] []]
  = Some ([[3]; [7]; [10]; [7]; [4]], [[10]; [4]; [7]])%Z.
Proof. vm_compute. reflexivity. Qed.

Example C08_ex_run_epsmoea :
  run_epsmoea Z.ltb zfar 5%Z zclose [(0, 10)]%Z 2 5%Z 5%Z [1%nat] [[3]; [7]]%Z [[]; []]
    [Build_script [Build_breed 0 2 [Draw 1; Draw 2; Draw 0; Pre (-3); Pre 12; Draw 9] [Draw 8] [Draw 8]]%Z [[]; []]
       [1; 2]%nat [0; 1]%nat [] [] []]
  = Some ([[3]; [7]; [0]; [10]], ([[7]; [0]], [[7]; [0]]))%Z.
Proof. vm_compute. reflexivity. Qed.

Example C08_ex_run_omopso :
  run_omopso Z.ltb Z.add Z.opp [(0, 10)]%Z 5%Z [[3]; [7]; [5]; [1]]%Z [[]; []; []; []]
    [Build_script [] [[]; []; [[6]]; []]%Z [3; 0; 1; 2]%nat [] [[20]; [-20]; [1]; [0]]%Z
       [[Draw 1; Draw 0; Pre 15]; [Draw 7]; [Draw 7]; [Draw 2; Draw 0; Pre (-4)]]%Z []]
  = Some ([[3]; [7]; [5]; [1]; [10]; [0]; [8]; [6]; [0]], [[10]; [0]; [6]; [0]])%Z.
Proof. vm_compute. reflexivity. Qed.

Example C08_ex_run_smpso :
  run_smpso Z.ltb Z.add (fun _ => 0%Z) [(0, 10)]%Z 5%Z [[3]; [7]]%Z [[]; []]
    [Build_script [] [[]; []] [0; 1]%nat [] [[20]; [-2]]%Z [[Draw 1; Draw 0; Pre 15]; []]%Z []]
  = Some ([[3]; [7]; [10]; [5]], [[10]; [5]])%Z.
Proof. vm_compute. reflexivity. Qed.

Example C08_ex_run_psoga :
  run_psoga Z.ltb zfar 5%Z Z.add Z.opp [(0, 10)]%Z 5%Z 5%Z [[3]; [7]]%Z [[]; []]
    [Build_script [Build_breed 0 1 [Draw 1; Draw 2; Draw 0; Pre (-3); Pre 12; Draw 9] [Draw 8] [Draw 1; Draw 0; Pre 11]]%Z
       [[]; []] [1; 0]%nat [] [[20]; [-2]]%Z [[]; []] [[]; [[2]]]%Z]
  = Some ([[3]; [7]; [10]; [1]; [0]; [10]; [2]], [[10]; [1]; [0]; [2]])%Z.
Proof. vm_compute. reflexivity. Qed.

(* the hypotheses of the run theorems are met by these runs: the box is well formed and the initial and
   re-rolled designs are inside it *)
Example C08_ex_run_hyps :
  boxes Z.ltb [(0, 10)]%Z [(0, 10)]%Z /\ okl Z.ltb [(0, 10)]%Z [[3]; [7]]%Z /\
  script_ok Z.ltb [(0, 10)]%Z
    (Build_script [Build_breed 0 1 [Draw 9] [Draw 2; Draw 0; Pre 14] [Draw 8]]%Z [[]; [[4]]]%Z [0; 1; 3]%nat [] [] [] []).
Proof. repeat constructor. Qed.

Example C08_ex_designs :
  construct_df (map levels2 [(0, 10); (-5, 5)]%Z) [[0; 1]; [1; 1]; [1; 0]]%nat = Some [[0; 5]; [10; 5]; [10; -5]]%Z /\
  construct_df (map (levels3 q_mid) [(0, 10); (-5, 5)]%Q) [[0; 1]; [1; 1]; [2; 0]]%nat
    = Some [[0; 0 # 2]; [10 # 2; 0 # 2]; [10; -5]]%Q /\
  scale_rows [(0, 10); (-5, 5)]%Q [[1 # 2; 1 # 4]; [0; 1]]%Q = Some [[10 # 2; -10 # 4]; [0; 5]]%Q /\
  construct_df (map (grid_levels 3) [(0, 10); (-5, 5)]%Q) [[0; 1]; [2; 2]]%nat = Some [[0 # 2; 0 # 2]; [20 # 2; 10 # 2]]%Q /\
  generated [(-3, 5, 1 # 100); (0, 1, 1 # 2)]%Q [-33 # 100; 2 # 2]%Q.
Proof.
  repeat split; try (vm_compute; reflexivity).
  exists [1 # 3; 3 # 4]%Q. split; [|vm_compute; reflexivity].
  repeat constructor; vm_compute; congruence.
Qed.
