(* C17 - Result queries and quality indicators are faithful views of the recorded data.
   Property theorems only; each is closed by `exact`, followed by Print Assumptions. *)
From Coq Require Import List ZArith QArith Qreals Reals Bool Permutation Sorted Floats.
From Artap Require Import Base.Ord Base.FloatInst Base.QInst Model.Results Model.Indicators
  Proofs.ResultsProofs Proofs.IndicatorsProofs.
Import ListNotations.

(* ------------------------------------------------------------------ *)
(* result queries: any value type with a strict weak order (regime R1) *)
Section C17.
  Context {T : Type} (ltb : T -> T -> bool) (H : SWO ltb).
  Notation rec := (record T).
  Local Open Scope Z_scope.

  (* population(pid): exactly the individuals carrying that tag, in recording order;
     population() = population(-1): the largest recorded tag *)
  Theorem C17_population_is_filter : forall (pid : Z) (rs : list rec),
    (pid <> -1 -> results_population pid rs = filter (fun r => r_tag r =? pid) rs) /\
    (pid = -1 -> exists t, results_population pid rs = filter (fun r => r_tag r =? t) rs /\
        -1 <= t /\ (forall r, In r rs -> r_tag r <= t) /\
        ((exists r, In r rs /\ -1 <= r_tag r) -> In t (map r_tag rs))).
  Proof. exact (@population_is_filter T). Qed.

  (* Problem.populations(): one group per distinct tag, in first-appearance order; each group is
     the filter of the recording by that tag *)
  Theorem C17_populations_grouping : forall rs : list rec,
    populations rs = map (fun t => (t, filter (fun r => r_tag r =? t) rs)) (first_tags rs) /\
    NoDup (first_tags rs) /\ (forall t, In t (first_tags rs) <-> In t (map r_tag rs)).
  Proof. exact (@populations_spec T). Qed.

  (* table(): every row is one individual's vector followed by its own costs; the rows are a
     permutation of the recorded individuals *)
  Theorem C17_table_rows_paired : forall rs : list rec,
    table false rs = map row (grouped rs) /\
    Permutation (grouped rs) rs /\
    Permutation (table false rs) (map row rs) /\
    (forall x, In x (table false rs) -> exists r, In r rs /\ x = r_vec r ++ r_costs r) /\
    (forall r, In r rs -> In (r_vec r ++ r_costs r) (table false rs)).
  Proof. exact (@table_rows_paired T). Qed.

  Theorem C17_table_transposed_columns : forall (rs : list rec) (n : nat) (d : T),
    rs <> [] -> (forall r, In r rs -> length (r_vec r ++ r_costs r) = n) ->
    table true rs = map (fun j => map (fun x => nth j x d) (table false rs)) (seq 0 n).
  Proof. exact (@table_transposed_columns T). Qed.

  (* pareto_individuals / pareto_front: the queried population's individuals whose recorded front number
     is 1, in recording order, and their own costs goal by goal *)
  Theorem C17_pareto_front_spec : forall (d : T) (front1 : rec -> bool) (ngoals : nat) (pid : Z) (rs : list rec),
    pareto_individuals front1 pid rs = filter front1 (results_population pid rs) /\
    (forall r, In r (pareto_individuals front1 pid rs) <-> In r (results_population pid rs) /\ front1 r = true) /\
    length (pareto_front d front1 ngoals pid rs) = ngoals /\
    (forall j, (j < ngoals)%nat ->
       nth j (pareto_front d front1 ngoals pid rs) [] = map (cost_at d j) (pareto_individuals front1 pid rs)).
  Proof. exact (pareto_front_spec ltb). Qed.

  (* pareto_values(): the computed set that performance_measure hands to the indicators *)
  Theorem C17_pareto_values_spec : forall rs : list rec,
    ((1 < length (last_population rs))%nat -> pareto_values rs = map r_costs (last_population rs)) /\
    ((length (last_population rs) <= 1)%nat -> pareto_values rs = []).
  Proof. exact (@pareto_values_spec T). Qed.

  (* the idiom  vs = sort_list(ks, vs); ks.sort()  returns the two components of ONE sorted
     arrangement of the original (key, value) pairs: sorting never re-pairs *)
  Theorem C17_sorted_listing_is_permutation_of_pairs : forall ks vs : list T, length ks = length vs ->
    sort_both ltb false ks vs = (ks, vs) /\
    exists sp : list (T * T),
      Permutation sp (combine ks vs) /\
      StronglySorted (ge_rel (pair_ltb ltb)) sp /\
      snd (sort_both ltb true ks vs) = map snd sp /\
      Forall2 (fun a b => eqv ltb a b = true) (fst (sort_both ltb true ks vs)) (map fst sp) /\
      Permutation (fst (sort_both ltb true ks vs)) ks /\
      StronglySorted (ge_rel ltb) (fst (sort_both ltb true ks vs)).
  Proof. exact (sorted_listing_is_permutation_of_pairs ltb H). Qed.

  Theorem C17_sorted_listing_exact : forall ks vs : list T, length ks = length vs ->
    (forall a b, eqv ltb a b = true -> a = b) ->
    Permutation (combine (fst (sort_both ltb true ks vs)) (snd (sort_both ltb true ks vs))) (combine ks vs).
  Proof. exact (sorted_listing_exact ltb H). Qed.

  (* goal_on_parameter / parameter_on_goal: the returned lists are the components of one
     arrangement of the queried population's own (parameter, goal) pairs *)
  Theorem C17_goal_on_parameter_pairs : forall (d : T) (pi gi : nat) (pid : Z) (sorted : bool) (rs : list rec),
    let inds := results_population pid rs in
    let out := goal_on_parameter ltb d pi gi pid sorted rs in
    exists sp : list (T * T),
      Permutation sp (map (fun r => (vec_at d pi r, cost_at d gi r)) inds) /\
      snd out = map snd sp /\
      Forall2 (fun a b => eqv ltb a b = true) (fst out) (map fst sp) /\
      Permutation (fst out) (map (vec_at d pi) inds) /\
      (sorted = false -> sp = map (fun r => (vec_at d pi r, cost_at d gi r)) inds /\ fst out = map fst sp) /\
      (sorted = true -> StronglySorted (ge_rel ltb) (fst out) /\ StronglySorted (ge_rel (pair_ltb ltb)) sp).
  Proof.
    exact (fun d pi gi pid sorted rs =>
             listing_pairs ltb H (vec_at d pi) (cost_at d gi) (results_population pid rs) sorted).
  Qed.

  Theorem C17_parameter_on_goal_pairs : forall (d : T) (gi pi : nat) (pid : Z) (sorted : bool) (rs : list rec),
    let inds := results_population pid rs in
    let out := parameter_on_goal ltb d gi pi pid sorted rs in
    exists sp : list (T * T),
      Permutation sp (map (fun r => (cost_at d gi r, vec_at d pi r)) inds) /\
      snd out = map snd sp /\
      Forall2 (fun a b => eqv ltb a b = true) (fst out) (map fst sp) /\
      Permutation (fst out) (map (cost_at d gi) inds) /\
      (sorted = false -> sp = map (fun r => (cost_at d gi r, vec_at d pi r)) inds /\ fst out = map fst sp) /\
      (sorted = true -> StronglySorted (ge_rel ltb) (fst out) /\ StronglySorted (ge_rel (pair_ltb ltb)) sp).
  Proof.
    exact (fun d gi pi pid sorted rs =>
             listing_pairs ltb H (cost_at d gi) (vec_at d pi) (results_population pid rs) sorted).
  Qed.

  (* find_optimum: a recorded individual; no recorded individual has a smaller named cost
     (criteria 'minimize' or absent), resp. a larger one (any other criteria: 'maximize') *)
  Theorem C17_find_optimum_extremal : forall (d : T) (idx : nat) (crit : criteria) (rs : list rec),
    (rs <> [] -> exists r, find_optimum ltb d idx crit rs = Some r) /\
    forall r, find_optimum ltb d idx crit rs = Some r ->
      In r rs /\
      (crit = CritAbsent \/ crit = CritMinimize ->
         forall r', In r' rs -> ltb (cost_at d idx r') (cost_at d idx r) = false) /\
      (crit = CritOther ->
         forall r', In r' rs -> ltb (cost_at d idx r) (cost_at d idx r') = false).
  Proof. exact (find_optimum_extremal ltb H). Qed.

  (* ... and it is the FIRST such individual in recording order *)
  Theorem C17_find_optimum_first : forall (d : T) (idx : nat) (crit : criteria) (rs : list rec) r,
    find_optimum ltb d idx crit rs = Some r ->
    exists pre post, rs = pre ++ r :: post /\
      forall x, In x pre ->
        if maximised crit then ltb (cost_at d idx x) (cost_at d idx r) = true
        else ltb (cost_at d idx r) (cost_at d idx x) = true.
  Proof. exact (find_optimum_first ltb H). Qed.
End C17.

(* the instance the correspondence executes: Python's `<` on non-NaN binary64 values *)
Theorem C17_float_find_optimum : forall (idx : nat) (crit : criteria) (rs : list (record float)) r,
  find_optimum fltb PrimFloat.zero idx crit rs = Some r ->
  In r rs /\
  (crit = CritAbsent \/ crit = CritMinimize ->
     forall r', In r' rs -> fltb (cost_at PrimFloat.zero idx r') (cost_at PrimFloat.zero idx r) = false) /\
  (crit = CritOther ->
     forall r', In r' rs -> fltb (cost_at PrimFloat.zero idx r) (cost_at PrimFloat.zero idx r') = false).
Proof. exact (fun idx crit rs => proj2 (find_optimum_extremal fltb fltb_SWO PrimFloat.zero idx crit rs)). Qed.

(* ------------------------------------------------------------------ *)
(* additive epsilon indicator: exact rationals *)
Section C17_eps.
  Local Open Scope Q_scope.

  (* max(c - r) is the largest coordinate difference *)
  Theorem C17_maxdiff_is_max : forall c r, diffs c r <> [] ->
    In (maxdiff c r) (diffs c r) /\ forall y, In y (diffs c r) -> y <= maxdiff c r.
  Proof. exact maxdiff_spec. Qed.

  (* max-min-max: the value is the least e >= 0 such that every reference point r has a computed
     point c with max_i (c_i - r_i) <= e *)
  Theorem C17_eps_add_max_min_max : forall ref comp, comp <> [] ->
    exists e, epsilon_add ref comp = Fin e /\ 0 <= e /\
      (forall r, In r ref -> exists c, In c comp /\ maxdiff c r <= e) /\
      (e == 0 \/ exists r, In r ref /\ forall c, In c comp -> e <= maxdiff c r).
  Proof. exact eps_add_spec. Qed.

  Theorem C17_eps_add_nonneg : forall ref comp,
    match epsilon_add ref comp with Fin e => 0 <= e | PInf => True end.
  Proof. exact eps_add_nonneg. Qed.

  Theorem C17_eps_add_identical_zero : forall ref comp, incl ref comp ->
    exists e, epsilon_add ref comp = Fin e /\ e == 0.
  Proof. exact eps_add_identical_zero. Qed.

  Theorem C17_eps_add_shift : forall ref d, ref <> [] -> (forall p, In p ref -> p <> []) -> 0 <= d ->
    exists e, epsilon_add ref (map (map (Qplus d)) ref) = Fin e /\ e == d.
  Proof. exact eps_add_shift. Qed.
End C17_eps.

(* ------------------------------------------------------------------ *)
(* generational distance: real numbers *)
Section C17_gd.
  Local Open Scope R_scope.

  Theorem C17_gd_mean_min_distance : forall ref comp, ref <> [] ->
    exists ds, Forall2 (is_nearest ref) comp ds /\ gd ref comp = rsum ds / INR (length comp).
  Proof. exact gd_mean_min_distance. Qed.

  Theorem C17_gd_zero_iff_subset : forall (m : nat) ref comp, ref <> [] -> comp <> [] ->
    (forall p, In p ref -> length p = m) -> (forall p, In p comp -> length p = m) ->
    (gd ref comp = 0 <-> forall c, In c comp -> In c ref).
  Proof. exact gd_zero_iff_subset. Qed.

  (* the executable rational enclosure evaluated by the correspondence contains the real value *)
  Theorem C17_gd_enclosure_sound : forall p ref comp, ref <> [] -> comp <> [] ->
    Q2R (fst (gd_enclosure p ref comp)) <= gd (embed ref) (embed comp) <= Q2R (snd (gd_enclosure p ref comp)).
  Proof. exact gd_enclosure_sound. Qed.

  (* the same for the enclosure whose partial sums are kept in lowest terms (what the correspondence evaluates) *)
  Theorem C17_gd_enclosure_red_sound : forall p ref comp, ref <> [] -> comp <> [] ->
    Q2R (fst (gd_enclosure_red p ref comp)) <= gd (embed ref) (embed comp) <= Q2R (snd (gd_enclosure_red p ref comp)).
  Proof. exact gd_enclosure_red_sound. Qed.
End C17_gd.

Print Assumptions C17_population_is_filter.
Print Assumptions C17_populations_grouping.
Print Assumptions C17_table_rows_paired.
Print Assumptions C17_table_transposed_columns.
Print Assumptions C17_pareto_front_spec.
Print Assumptions C17_pareto_values_spec.
Print Assumptions C17_sorted_listing_is_permutation_of_pairs.
Print Assumptions C17_sorted_listing_exact.
Print Assumptions C17_goal_on_parameter_pairs.
Print Assumptions C17_parameter_on_goal_pairs.
Print Assumptions C17_find_optimum_extremal.
Print Assumptions C17_find_optimum_first.
Print Assumptions C17_float_find_optimum.
Print Assumptions C17_maxdiff_is_max.
Print Assumptions C17_eps_add_max_min_max.
Print Assumptions C17_eps_add_nonneg.
Print Assumptions C17_eps_add_identical_zero.
Print Assumptions C17_eps_add_shift.
Print Assumptions C17_gd_mean_min_distance.
Print Assumptions C17_gd_zero_iff_subset.
Print Assumptions C17_gd_enclosure_sound.
Print Assumptions C17_gd_enclosure_red_sound.

(* ------------------------------------------------------------------ *)
(* non-vacuity: concrete non-trivial inputs *)
Local Open Scope Z_scope.
Definition ex_recs : list (record Z) :=
  [ {| r_id := 0; r_tag := 2; r_vec := [4; 2]; r_costs := [20; 1] |};
    {| r_id := 1; r_tag := 0; r_vec := [-1; -3]; r_costs := [10; 7] |};
    {| r_id := 2; r_tag := 2; r_vec := [2; 4]; r_costs := [20; 7] |};
    {| r_id := 3; r_tag := 1; r_vec := [2; 0]; r_costs := [10; 3] |} ].

Example C17_ex_queries :
  map r_id (results_population (-1) ex_recs) = [0; 2]%nat /\
  map r_id (results_population 0 ex_recs) = [1]%nat /\
  map fst (populations ex_recs) = [2; 0; 1] /\
  table false ex_recs = [[4; 2; 20; 1]; [2; 4; 20; 7]; [-1; -3; 10; 7]; [2; 0; 10; 3]] /\
  table true ex_recs = [[4; 2; -1; 2]; [2; 4; -3; 0]; [20; 20; 10; 10]; [1; 7; 7; 3]] /\
  goal_on_parameter Z.ltb 0 0 1 (-1) true ex_recs = ([2; 4], [7; 1]) /\
  sort_both Z.ltb true [2; 4; 2; -1] [20; 20; 10; 10] = ([-1; 2; 2; 4], [10; 10; 20; 20]) /\
  option_map r_id (find_optimum Z.ltb 0 0 CritAbsent ex_recs) = Some 1%nat /\
  option_map r_id (find_optimum Z.ltb 0 1 CritOther ex_recs) = Some 1%nat /\
  option_map r_id (find_optimum Z.ltb 0 0 CritOther ex_recs) = Some 0%nat /\
  pareto_front 0 (fun r => Nat.eqb (r_id r) 2) 2 (-1) ex_recs = [[20]; [7]] /\
  pareto_values ex_recs = [[20; 1]; [20; 7]].
Proof. vm_compute. repeat split. Qed.

Definition ex_is (x : qx) (q : Q) : bool := match x with Fin e => Qeq_bool e q | PInf => false end.
Example C17_ex_eps :
  ex_is (epsilon_add [[1; 2]; [3; 0]]%Q [[2; 2]; [3; 1]]%Q) 1%Q = true /\
  ex_is (epsilon_add [[1; 2]; [3; 0]]%Q (map (map (Qplus (1 # 2))) [[1; 2]; [3; 0]]%Q)) (1 # 2)%Q = true /\
  ex_is (epsilon_add [[1; 2]; [3; 0]]%Q [[3; 0]; [1; 2]; [1; 2]]%Q) 0%Q = true /\
  epsilon_add [[1; 2]]%Q [] = PInf /\
  (0 <= 1 # 2)%Q /\ [[1; 2]; [3; 0]]%Q <> [].
Proof. vm_compute. repeat split; discriminate. Qed.

(* gd of {(3,4), (1,0)} against the reference {(0,0), (1,0)} is (sqrt 20 + 0) / 2 = 2.2360..: the
   enclosure brackets it; a point set inside the reference has squared distances 0 *)
Example C17_ex_gd :
  (let e := gd_enclosure 20 [[0; 0]; [1; 0]]%Q [[3; 4]; [1; 0]]%Q in
   Qle_bool (2236 # 1000) (fst e) = true /\ Qle_bool (snd e) (2237 # 1000) = true) /\
  forallb (fun q => Qeq_bool q 0) (minsq [[0; 0]; [1; 0]]%Q [[1; 0]; [0; 0]]%Q) = true.
Proof. vm_compute. repeat split. Qed.
