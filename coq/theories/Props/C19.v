(* C19 - surrogate wrapper accounting.
   Property theorems only; each is closed by `exact`, followed by Print Assumptions.
   Quantification: every request sequence, every accept/decline pattern of the predict hook
   (r_hook), every train_step (Z), every train() oracle, every starting state (so also
   sequences interleaved with user calls of train() or changes of train_step). *)
From Coq Require Import List ZArith Bool.
From Artap Require Import Model.Surrogate Proofs.SurrogateProofs.
Import ListNotations.
Local Open Scope nat_scope.

Section C19.
  Context {V C : Type}.
  Notation req := (req V C).
  Notation state := (state V C).
  Notation outcome := (outcome C).

  (* every request of every sequence is answered by one step in the state its prefix leads to,
     hence the per-step theorems below speak about each request of each sequence *)
  Theorem C19_sequence_is_steps :
    forall (step : state -> req -> state * (kind * outcome)) pre r post s0,
    let s := fst (run step s0 pre) in
    nth_error (snd (run step s0 (pre ++ r :: post))) (length pre) = Some (snd (step s r)) /\
    fst (run step s0 (pre ++ [r])) = fst (step s r).
  Proof. exact run_request. Qed.

  (* pass-through surrogate: every request returns the true value, is counted once as an
     evaluation, calls the objective once (in order) and touches nothing else *)
  Theorem C19_passthrough_exact : forall (reqs : list req) (s : state),
    let s' := fst (run passthrough_evaluate s reqs) in
    snd (run passthrough_evaluate s reqs) = map (fun r => (KEval, Ret (r_true r))) reqs /\
    eval_counter s' = eval_counter s + length reqs /\
    predict_counter s' = predict_counter s /\
    map vec_of (obj_log s') = map vec_of (obj_log s) ++ map r_vec reqs /\
    x_data s' = x_data s /\ y_data s' = y_data s /\ train_log s' = train_log s /\
    hook_log s' = hook_log s /\ trained s' = trained s.
  Proof. exact passthrough_exact. Qed.

  Section Predicting.
    Variable train_step : Z.
    Variable has_hook : bool.
    Variable train_out : nat -> bool.
    Notation step := (predict_evaluate train_step has_hook train_out).
    Notation fires := (fires train_step).

    (* a prediction (= objective not called = prediction counter moved = evaluation counter
       did not move) happens exactly when the model is trained, the problem has a hook and the
       hook answers; then the hook's answer is returned and nothing else changes *)
    Theorem C19_prediction_only_if_trained_and_hook : forall (s : state) (r : req),
      let s' := fst (step s r) in
      let k := fst (snd (step s r)) in
      let o := snd (snd (step s r)) in
      (k = KPred <-> obj_log s' = obj_log s) /\
      (k = KPred <-> predict_counter s' <> predict_counter s) /\
      (k = KPred <-> eval_counter s' = eval_counter s) /\
      (k = KPred <-> trained s = true /\ has_hook = true /\ r_hook r <> None) /\
      (k = KPred -> exists v, r_hook r = Some v /\ o = Ret v /\
                    predict_counter s' = S (predict_counter s) /\
                    x_data s' = x_data s /\ y_data s' = y_data s /\ train_log s' = train_log s /\
                    trained s' = trained s) /\
      (hook_log s' = if trained s && has_hook
                     then hook_log s ++ [(r_vec r, eval_counter s, predict_counter s)] else hook_log s).
    Proof. exact (prediction_only_if_trained_and_hook train_step has_hook train_out). Qed.

    (* otherwise: one objective call (before counting/recording), value returned unchanged,
       counted once, the pair appended once at the end of the training set *)
    Theorem C19_true_eval_once_unchanged_counted_recorded : forall (s : state) (r : req),
      let s' := fst (step s r) in
      let k := fst (snd (step s r)) in
      let o := snd (snd (step s r)) in
      k = KEval ->
      obj_log s' = obj_log s ++ [(r_vec r, length (x_data s), eval_counter s)] /\
      (train_step <> 0%Z -> o = Ret (r_true r)) /\ (train_step = 0%Z -> o = Raised) /\
      eval_counter s' = S (eval_counter s) /\ predict_counter s' = predict_counter s /\
      x_data s' = x_data s ++ [r_vec r] /\ y_data s' = y_data s ++ [r_true r].
    Proof. exact (true_eval_once_unchanged_counted_recorded train_step has_hook train_out). Qed.

    (* train() is called by a request exactly when the request was a true evaluation and the
       new counter value satisfies the code's condition; it then sees the extended data *)
    Theorem C19_retrain_step : forall (s : state) (r : req),
      let s' := fst (step s r) in
      let k := fst (snd (step s r)) in
      (if is_eval k && fires (eval_counter s')
       then train_log s' = train_log s ++ [(eval_counter s', length (x_data s'), length (y_data s'))] /\
            trained s' = train_out (length (train_log s))
       else train_log s' = train_log s /\ trained s' = trained s).
    Proof. exact (retrain_step train_step has_hook train_out). Qed.

    (* the condition: never for -1 (nor 0), otherwise train_step divides the counter, i.e. for
       a positive train_step every train_step-th true evaluation *)
    Theorem C19_retrain_condition : forall k,
      (train_step = (-1)%Z -> fires k = false) /\ (train_step = 0%Z -> fires k = false) /\
      (train_step <> (-1)%Z -> train_step <> 0%Z -> (fires k = true <-> (train_step | Z.of_nat k)%Z)) /\
      ((0 < train_step)%Z -> (fires k = true <-> k mod Z.to_nat train_step = 0)).
    Proof.
      exact (fun k => conj (fires_never_minus_one train_step k) (conj (fires_never_zero train_step k)
                      (conj (fires_divides train_step k) (fires_positive train_step k)))).
    Qed.

    (* over a whole sequence: the evaluation counters at which train() was called are exactly
       the counter values reached in the sequence that satisfy the condition, in order *)
    Theorem C19_retrain_schedule : forall (reqs : list req) (s : state),
      let s' := fst (run step s reqs) in
      map cnt_of (train_log s') =
        map cnt_of (train_log s) ++
        filter fires (seq (S (eval_counter s)) (eval_counter s' - eval_counter s)).
    Proof. exact (retrain_schedule train_step has_hook train_out). Qed.

    Theorem C19_never_retrained_for_minus_one : forall (reqs : list req) (s : state),
      train_step = (-1)%Z ->
      train_log (fst (run step s reqs)) = train_log s /\ trained (fst (run step s reqs)) = trained s.
    Proof. exact (never_retrained_for_minus_one train_step has_hook train_out). Qed.

    (* over a whole sequence: counters, training set and objective calls are determined by the
       sub-sequence of requests that were truly evaluated *)
    Theorem C19_sequence_accounting : forall (reqs : list req) (s : state),
      let s' := fst (run step s reqs) in
      let outs := snd (run step s reqs) in
      let ev := evaluated reqs outs in
      length outs = length reqs /\
      eval_counter s' = eval_counter s + length ev /\
      predict_counter s' = predict_counter s + length (predicted reqs outs) /\
      length ev + length (predicted reqs outs) = length reqs /\
      x_data s' = x_data s ++ map r_vec ev /\
      y_data s' = y_data s ++ map r_true ev /\
      map vec_of (obj_log s') = map vec_of (obj_log s) ++ map r_vec ev /\
      map cnt_of (train_log s') =
        map cnt_of (train_log s) ++ filter fires (seq (S (eval_counter s)) (length ev)).
    Proof. exact (run_spec train_step has_hook train_out). Qed.

    (* what each request of a sequence returned *)
    Theorem C19_sequence_answers : forall (reqs : list req) (s : state),
      Forall (fun p => answered_ok train_step has_hook (fst p) (snd p))
             (combine reqs (snd (run step s reqs))).
    Proof. exact (run_answers train_step has_hook train_out). Qed.

    Theorem C19_counters_add_up : forall (reqs : list req) (s : state),
      let s' := fst (run step s reqs) in
      eval_counter s' + predict_counter s' = eval_counter s + predict_counter s + length reqs.
    Proof. exact (counters_add_up train_step has_hook train_out). Qed.

    Theorem C19_data_aligned : forall (reqs : list req) (s : state),
      let s' := fst (run step s reqs) in
      (length (x_data s) = length (y_data s) -> length (x_data s') = length (y_data s')) /\
      (length (x_data s) = eval_counter s -> length (x_data s') = eval_counter s') /\
      (x_data s = [] -> y_data s = [] ->
       combine (x_data s') (y_data s') =
         map (fun r => (r_vec r, r_true r)) (evaluated reqs (snd (run step s reqs)))).
    Proof. exact (data_aligned train_step has_hook train_out). Qed.
  End Predicting.
End C19.

Print Assumptions C19_sequence_is_steps.
Print Assumptions C19_passthrough_exact.
Print Assumptions C19_prediction_only_if_trained_and_hook.
Print Assumptions C19_true_eval_once_unchanged_counted_recorded.
Print Assumptions C19_retrain_step.
Print Assumptions C19_retrain_condition.
Print Assumptions C19_retrain_schedule.
Print Assumptions C19_never_retrained_for_minus_one.
Print Assumptions C19_sequence_accounting.
Print Assumptions C19_sequence_answers.
Print Assumptions C19_counters_add_up.
Print Assumptions C19_data_aligned.

(* non-vacuity: a mixed sequence (train_step 2, hook present, train() succeeds) in which the
   first two requests are evaluated (the second one trains), the third is predicted, the hook
   declines the fourth, and the fifth trains again *)
Definition ex_reqs : list (req nat nat) :=
  [ {| r_vec := 1; r_hook := None;    r_true := 10 |};
    {| r_vec := 2; r_hook := Some 99; r_true := 20 |};
    {| r_vec := 3; r_hook := Some 77; r_true := 30 |};
    {| r_vec := 4; r_hook := None;    r_true := 40 |};
    {| r_vec := 5; r_hook := None;    r_true := 50 |} ].

Example C19_ex_mixed :
  let res := run (predict_evaluate 2%Z true (fun _ => true)) (init false) ex_reqs in
  snd res = [(KEval, Ret 10); (KEval, Ret 20); (KPred, Ret 77); (KEval, Ret 40); (KEval, Ret 50)] /\
  eval_counter (fst res) = 4 /\ predict_counter (fst res) = 1 /\
  x_data (fst res) = [1; 2; 4; 5] /\ y_data (fst res) = [10; 20; 40; 50] /\
  map cnt_of (train_log (fst res)) = [2; 4] /\
  map vec_of (obj_log (fst res)) = [1; 2; 4; 5] /\ map vec_of (hook_log (fst res)) = [3; 4; 5].
Proof. vm_compute. repeat split. Qed.

(* train_step = -1 never trains, so nothing is ever predicted from an untrained start;
   train_step = 0 raises on every true evaluation but still counts and records *)
Example C19_ex_minus_one_and_zero :
  snd (run (predict_evaluate (-1)%Z true (fun _ => true)) (init false) ex_reqs)
    = [(KEval, Ret 10); (KEval, Ret 20); (KEval, Ret 30); (KEval, Ret 40); (KEval, Ret 50)] /\
  snd (run (predict_evaluate 0%Z true (fun _ => true)) (init false) ex_reqs)
    = [(KEval, Raised); (KEval, Raised); (KEval, Raised); (KEval, Raised); (KEval, Raised)] /\
  eval_counter (fst (run (predict_evaluate 0%Z true (fun _ => true)) (init false) ex_reqs)) = 5.
Proof. vm_compute. repeat split. Qed.
