(* C19 - surrogate wrapper accounting.
   Property theorems only; each is closed by `exact`, followed by Print Assumptions.
   Quantification: every request sequence, every accept/decline pattern of the predict hook
   (r_hook), every train_step (Z), every train() oracle, every starting state (so also
   sequences interleaved with user calls of train() or changes of train_step, and sequences
   that start after the training set was seeded by read_from_data_store(), where
   |x_data| <> eval_counter).  The session theorems at the end say that each request of a
   session (requests interleaved with read_from_data_store(), train(), assignments of
   train_step / trained / problem.surrogate) is one such step. *)
From Coq Require Import List ZArith Bool.
From Artap Require Import Model.Surrogate Proofs.SurrogateProofs.
Import ListNotations.
Local Open Scope nat_scope.

Section C19.
  Context {V C : Type}.
  Notation req := (req V C).
  Notation state := (state V C).
  Notation outcome := (outcome C).

  (* every request of every sequence is answered by one step in the state its prefix leads to,
     hence the per-step theorems below speak about each request of each sequence *)
  Theorem C19_sequence_is_steps :
    forall (step : state -> req -> state * (kind * outcome)) pre r post s0,
    let s := fst (run step s0 pre) in
    nth_error (snd (run step s0 (pre ++ r :: post))) (length pre) = Some (snd (step s r)) /\
    fst (run step s0 (pre ++ [r])) = fst (step s r).
  Proof. exact run_request. Qed.

  (* pass-through surrogate: every request returns the true value, is counted once as an
     evaluation, calls the objective once (in order) and touches nothing else *)
  Theorem C19_passthrough_exact : forall (reqs : list req) (s : state),
    let s' := fst (run passthrough_evaluate s reqs) in
    snd (run passthrough_evaluate s reqs) = map (fun r => (KEval, Ret (r_true r))) reqs /\
    eval_counter s' = eval_counter s + length reqs /\
    predict_counter s' = predict_counter s /\
    map vec_of (obj_log s') = map vec_of (obj_log s) ++ map r_vec reqs /\
    x_data s' = x_data s /\ y_data s' = y_data s /\ train_log s' = train_log s /\
    hook_log s' = hook_log s /\ trained s' = trained s.
  Proof. exact passthrough_exact. Qed.

  (* read_from_data_store(): (vector, costs) of every individual stored with the problem is
     appended, in order (also of individuals that were never evaluated: Model/Surrogate.v);
     counters, `trained` and all call logs are untouched - nothing is evaluated, counted or
     trained, so afterwards |x_data| and eval_counter differ by the number of seeded individuals *)
  Theorem C19_read_from_data_store : forall (inds : list (V * C)) (s : state),
    let s' := read_from_data_store s inds in
    x_data s' = x_data s ++ map fst inds /\ y_data s' = y_data s ++ map snd inds /\
    eval_counter s' = eval_counter s /\ predict_counter s' = predict_counter s /\
    trained s' = trained s /\ train_log s' = train_log s /\ obj_log s' = obj_log s /\
    hook_log s' = hook_log s.
  Proof. exact read_from_data_store_spec. Qed.

  Section Predicting.
    Variable train_step : Z.
    Variable has_hook : bool.
    Variable train_out : nat -> bool.
    Notation step := (predict_evaluate train_step has_hook train_out).
    Notation fires := (fires train_step).

    (* a prediction (= objective not called = prediction counter moved = evaluation counter
       did not move) happens exactly when the model is trained, the problem has a hook and the
       hook answers; then the hook's answer is returned and nothing else changes *)
    Theorem C19_prediction_only_if_trained_and_hook : forall (s : state) (r : req),
      let s' := fst (step s r) in
      let k := fst (snd (step s r)) in
      let o := snd (snd (step s r)) in
      (k = KPred <-> obj_log s' = obj_log s) /\
      (k = KPred <-> predict_counter s' <> predict_counter s) /\
      (k = KPred <-> eval_counter s' = eval_counter s) /\
      (k = KPred <-> trained s = true /\ has_hook = true /\ r_hook r <> None) /\
      (k = KPred -> exists v, r_hook r = Some v /\ o = Ret v /\
                    predict_counter s' = S (predict_counter s) /\
                    x_data s' = x_data s /\ y_data s' = y_data s /\ train_log s' = train_log s /\
                    trained s' = trained s) /\
      (hook_log s' = if trained s && has_hook
                     then hook_log s ++ [(r_vec r, eval_counter s, predict_counter s)] else hook_log s).
    Proof. exact (prediction_only_if_trained_and_hook train_step has_hook train_out). Qed.

    (* otherwise: one objective call (before counting/recording), value returned unchanged,
       counted once, the pair appended once at the end of the training set *)
    Theorem C19_true_eval_once_unchanged_counted_recorded : forall (s : state) (r : req),
      let s' := fst (step s r) in
      let k := fst (snd (step s r)) in
      let o := snd (snd (step s r)) in
      k = KEval ->
      obj_log s' = obj_log s ++ [(r_vec r, length (x_data s), eval_counter s)] /\
      (train_step <> 0%Z -> o = Ret (r_true r)) /\ (train_step = 0%Z -> o = Raised) /\
      eval_counter s' = S (eval_counter s) /\ predict_counter s' = predict_counter s /\
      x_data s' = x_data s ++ [r_vec r] /\ y_data s' = y_data s ++ [r_true r].
    Proof. exact (true_eval_once_unchanged_counted_recorded train_step has_hook train_out). Qed.

    (* train() is called by a request exactly when the request was a true evaluation and the
       new counter value satisfies the code's condition; it then sees the extended data *)
    Theorem C19_retrain_step : forall (s : state) (r : req),
      let s' := fst (step s r) in
      let k := fst (snd (step s r)) in
      (if is_eval k && fires (eval_counter s')
       then train_log s' = train_log s ++ [(eval_counter s', length (x_data s'), length (y_data s'))] /\
            trained s' = train_out (length (train_log s))
       else train_log s' = train_log s /\ trained s' = trained s).
    Proof. exact (retrain_step train_step has_hook train_out). Qed.

    (* the condition: never for -1 (nor 0), otherwise train_step divides the counter, i.e. for
       a positive train_step every train_step-th true evaluation *)
    Theorem C19_retrain_condition : forall k,
      (train_step = (-1)%Z -> fires k = false) /\ (train_step = 0%Z -> fires k = false) /\
      (train_step <> (-1)%Z -> train_step <> 0%Z -> (fires k = true <-> (train_step | Z.of_nat k)%Z)) /\
      ((0 < train_step)%Z -> (fires k = true <-> k mod Z.to_nat train_step = 0)).
    Proof.
      exact (fun k => conj (fires_never_minus_one train_step k) (conj (fires_never_zero train_step k)
                      (conj (fires_divides train_step k) (fires_positive train_step k)))).
    Qed.

    (* over a whole sequence: the evaluation counters at which train() was called are exactly
       the counter values reached in the sequence that satisfy the condition, in order *)
    Theorem C19_retrain_schedule : forall (reqs : list req) (s : state),
      let s' := fst (run step s reqs) in
      map cnt_of (train_log s') =
        map cnt_of (train_log s) ++
        filter fires (seq (S (eval_counter s)) (eval_counter s' - eval_counter s)).
    Proof. exact (retrain_schedule train_step has_hook train_out). Qed.

    Theorem C19_never_retrained_for_minus_one : forall (reqs : list req) (s : state),
      train_step = (-1)%Z ->
      train_log (fst (run step s reqs)) = train_log s /\ trained (fst (run step s reqs)) = trained s.
    Proof. exact (never_retrained_for_minus_one train_step has_hook train_out). Qed.

    (* over a whole sequence: counters, training set and objective calls are determined by the
       sub-sequence of requests that were truly evaluated *)
    Theorem C19_sequence_accounting : forall (reqs : list req) (s : state),
      let s' := fst (run step s reqs) in
      let outs := snd (run step s reqs) in
      let ev := evaluated reqs outs in
      length outs = length reqs /\
      eval_counter s' = eval_counter s + length ev /\
      predict_counter s' = predict_counter s + length (predicted reqs outs) /\
      length ev + length (predicted reqs outs) = length reqs /\
      x_data s' = x_data s ++ map r_vec ev /\
      y_data s' = y_data s ++ map r_true ev /\
      map vec_of (obj_log s') = map vec_of (obj_log s) ++ map r_vec ev /\
      map cnt_of (train_log s') =
        map cnt_of (train_log s) ++ filter fires (seq (S (eval_counter s)) (length ev)).
    Proof. exact (run_spec train_step has_hook train_out). Qed.

    (* what each request of a sequence returned *)
    Theorem C19_sequence_answers : forall (reqs : list req) (s : state),
      Forall (fun p => answered_ok train_step has_hook (fst p) (snd p))
             (combine reqs (snd (run step s reqs))).
    Proof. exact (run_answers train_step has_hook train_out). Qed.

    Theorem C19_counters_add_up : forall (reqs : list req) (s : state),
      let s' := fst (run step s reqs) in
      eval_counter s' + predict_counter s' = eval_counter s + predict_counter s + length reqs.
    Proof. exact (counters_add_up train_step has_hook train_out). Qed.

    Theorem C19_data_aligned : forall (reqs : list req) (s : state),
      let s' := fst (run step s reqs) in
      (length (x_data s) = length (y_data s) -> length (x_data s') = length (y_data s')) /\
      (length (x_data s) = eval_counter s -> length (x_data s') = eval_counter s') /\
      (x_data s = [] -> y_data s = [] ->
       combine (x_data s') (y_data s') =
         map (fun r => (r_vec r, r_true r)) (evaluated reqs (snd (run step s reqs)))).
    Proof. exact (data_aligned train_step has_hook train_out). Qed.

    (* a user call of train() between requests: only the train log and `trained` change *)
    Theorem C19_user_train : forall (s : state),
      let s' := do_train train_out s in
      train_log s' = train_log s ++ [(eval_counter s, length (x_data s), length (y_data s))] /\
      trained s' = train_out (length (train_log s)) /\
      eval_counter s' = eval_counter s /\ predict_counter s' = predict_counter s /\
      x_data s' = x_data s /\ y_data s' = y_data s /\ obj_log s' = obj_log s /\ hook_log s' = hook_log s.
    Proof. exact (user_train_spec train_out). Qed.

    (* nothing the wrapper decides depends on the training set or on its size: from two states
       with the same `trained`, counters and train-call counters (whatever x_data / y_data are)
       every request sequence gets the same answers and leads to states that again agree *)
    Theorem C19_decisions_independent_of_training_set : forall (reqs : list req) (a b : state),
      same_accounting a b ->
      snd (run step a reqs) = snd (run step b reqs) /\
      same_accounting (fst (run step a reqs)) (fst (run step b reqs)).
    Proof. exact (run_same_accounting train_step has_hook train_out). Qed.

    (* in particular seeding: the model is retrained at every train_step-th TRUE EVALUATION counted
       by eval_counter - not at multiples of the training-set size *)
    Theorem C19_seeding_changes_only_training_set : forall (inds : list (V * C)) (reqs : list req) (s : state),
      let a := run step (read_from_data_store s inds) reqs in
      let b := run step s reqs in
      snd a = snd b /\
      trained (fst a) = trained (fst b) /\ eval_counter (fst a) = eval_counter (fst b) /\
      predict_counter (fst a) = predict_counter (fst b) /\
      map cnt_of (train_log (fst a)) = map cnt_of (train_log (fst b)) /\
      map cnt_of (train_log (fst a)) =
        map cnt_of (train_log s) ++
        filter fires (seq (S (eval_counter s)) (eval_counter (fst a) - eval_counter s)) /\
      x_data (fst a) = x_data s ++ map fst inds ++ map r_vec (evaluated reqs (snd a)) /\
      y_data (fst a) = y_data s ++ map snd inds ++ map r_true (evaluated reqs (snd a)).
    Proof. exact (seeding_changes_only_training_set train_step has_hook train_out). Qed.
  End Predicting.

  (* ---------------------------------------------------------------- sessions *)
  Section Sessions.
    Variable has_hook : bool.
    Notation wrapper := (wrapper V C).
    Notation event := (event V C).
    Notation session := (session V C).

    (* an event other than the assignment of problem.surrogate acts on the wrapper that is
       problem.surrogate as wrapper_event says; every other wrapper object is untouched *)
    Theorem C19_session_event_current : forall (ss : session) (e : event) (w : wrapper),
      is_use e = false -> nth_error (slots ss) (cur ss) = Some w ->
      let ss' := fst (session_event has_hook ss e) in
      cur ss' = cur ss /\ length (slots ss') = length (slots ss) /\
      nth_error (slots ss') (cur ss) = Some (fst (wrapper_event has_hook w e)) /\
      snd (session_event has_hook ss e) = snd (wrapper_event has_hook w e) /\
      (forall j, j <> cur ss -> nth_error (slots ss') j = nth_error (slots ss) j).
    Proof. exact (session_event_current has_hook). Qed.

    Theorem C19_session_use : forall (ss : session) (k : nat),
      let ss' := fst (session_event has_hook ss (EUse k)) in
      slots ss' = slots ss /\ snd (session_event has_hook ss (EUse k)) = None /\
      (k < length (slots ss) -> cur ss' = k).
    Proof. exact (session_use has_hook). Qed.

    (* a request in a session is one step (of the theorems above) with the wrapper's current
       train_step and train() oracle, from the wrapper's current state - whatever happened before *)
    Theorem C19_session_request : forall (w : wrapper) (r : req),
      let res := wrapper_event has_hook w (EReq r) in
      let st := if w_pass w then passthrough_evaluate (w_st w) r
                else predict_evaluate (w_ts w) has_hook (w_tape w) (w_st w) r in
      w_st (fst res) = fst st /\ snd res = Some (snd st) /\
      w_pass (fst res) = w_pass w /\ w_ts (fst res) = w_ts w /\ w_tape (fst res) = w_tape w.
    Proof. exact (wrapper_request has_hook). Qed.

    Theorem C19_session_other_events : forall (w : wrapper),
      (forall inds, fst (wrapper_event has_hook w (ESeed inds)) = with_st w (read_from_data_store (w_st w) inds)) /\
      (fst (wrapper_event has_hook w ETrain) = if w_pass w then w else with_st w (do_train (w_tape w) (w_st w))) /\
      (forall ts, let w' := fst (wrapper_event has_hook w (ESetStep ts)) in
                  w_ts w' = ts /\ w_st w' = w_st w /\ w_pass w' = w_pass w /\ w_tape w' = w_tape w) /\
      (forall b, fst (wrapper_event has_hook w (ESetTrained b)) = with_st w (set_trained (w_st w) b)).
    Proof. exact (wrapper_other_events has_hook). Qed.
  End Sessions.
End C19.

Print Assumptions C19_sequence_is_steps.
Print Assumptions C19_passthrough_exact.
Print Assumptions C19_prediction_only_if_trained_and_hook.
Print Assumptions C19_true_eval_once_unchanged_counted_recorded.
Print Assumptions C19_retrain_step.
Print Assumptions C19_retrain_condition.
Print Assumptions C19_retrain_schedule.
Print Assumptions C19_never_retrained_for_minus_one.
Print Assumptions C19_sequence_accounting.
Print Assumptions C19_sequence_answers.
Print Assumptions C19_counters_add_up.
Print Assumptions C19_data_aligned.
Print Assumptions C19_read_from_data_store.
Print Assumptions C19_user_train.
Print Assumptions C19_decisions_independent_of_training_set.
Print Assumptions C19_seeding_changes_only_training_set.
Print Assumptions C19_session_event_current.
Print Assumptions C19_session_use.
Print Assumptions C19_session_request.
Print Assumptions C19_session_other_events.

(* non-vacuity: a mixed sequence (train_step 2, hook present, train() succeeds) in which the
   first two requests are evaluated (the second one trains), the third is predicted, the hook
   declines the fourth, and the fifth trains again *)
Definition ex_reqs : list (req nat nat) :=
  [ {| r_vec := 1; r_hook := None;    r_true := 10 |};
    {| r_vec := 2; r_hook := Some 99; r_true := 20 |};
    {| r_vec := 3; r_hook := Some 77; r_true := 30 |};
    {| r_vec := 4; r_hook := None;    r_true := 40 |};
    {| r_vec := 5; r_hook := None;    r_true := 50 |} ].

Example C19_ex_mixed :
  let res := run (predict_evaluate 2%Z true (fun _ => true)) (init false) ex_reqs in
  snd res = [(KEval, Ret 10); (KEval, Ret 20); (KPred, Ret 77); (KEval, Ret 40); (KEval, Ret 50)] /\
  eval_counter (fst res) = 4 /\ predict_counter (fst res) = 1 /\
  x_data (fst res) = [1; 2; 4; 5] /\ y_data (fst res) = [10; 20; 40; 50] /\
  map cnt_of (train_log (fst res)) = [2; 4] /\
  map vec_of (obj_log (fst res)) = [1; 2; 4; 5] /\ map vec_of (hook_log (fst res)) = [3; 4; 5].
Proof. vm_compute. repeat split. Qed.

(* train_step = -1 never trains, so nothing is ever predicted from an untrained start;
   train_step = 0 raises on every true evaluation but still counts and records *)
Example C19_ex_minus_one_and_zero :
  snd (run (predict_evaluate (-1)%Z true (fun _ => true)) (init false) ex_reqs)
    = [(KEval, Ret 10); (KEval, Ret 20); (KEval, Ret 30); (KEval, Ret 40); (KEval, Ret 50)] /\
  snd (run (predict_evaluate 0%Z true (fun _ => true)) (init false) ex_reqs)
    = [(KEval, Raised); (KEval, Raised); (KEval, Raised); (KEval, Raised); (KEval, Raised)] /\
  eval_counter (fst (run (predict_evaluate 0%Z true (fun _ => true)) (init false) ex_reqs)) = 5.
Proof. vm_compute. repeat split. Qed.

(* seeded start (the red-team scenario): three earlier individuals are copied into the training
   set - one of them never evaluated, so its cost entry is the placeholder 0 here, [] in Python -
   then seven requests with train_step 5 and a declining hook.  train() runs at the 5th TRUE
   evaluation (|x_data| = 8 there), not when |x_data| reaches 5 or 10. *)
Definition ex_seed : list (nat * nat) := [(101, 11); (102, 0); (103, 13)].
Definition ex_reqs7 : list (req nat nat) :=
  map (fun k => {| r_vec := k; r_hook := None; r_true := 10 * k |}) [1; 2; 3; 4; 5; 6; 7].

Example C19_ex_seeded :
  let s0 := read_from_data_store (init false) ex_seed in
  let res := run (predict_evaluate 5%Z true (fun _ => true)) s0 ex_reqs7 in
  eval_counter s0 = 0 /\ length (x_data s0) = 3 /\ y_data s0 = [11; 0; 13] /\
  train_log (fst res) = [(5, 8, 8)] /\ eval_counter (fst res) = 7 /\ predict_counter (fst res) = 0 /\
  x_data (fst res) = [101; 102; 103; 1; 2; 3; 4; 5; 6; 7] /\
  map snd (snd res) = map (fun k => Ret (10 * k)) [1; 2; 3; 4; 5; 6; 7].
Proof. vm_compute. repeat split. Qed.

(* a session: two requests on the pass-through wrapper, then a predicting wrapper (train_step 3)
   is assigned and seeded, a user call of train() makes it trained at eval_counter 2, a
   prediction, train_step changed to 2 (so the 4th evaluation trains), a detour over the
   pass-through wrapper, whose state was kept *)
Example C19_ex_session :
  let w0 := {| w_pass := true; w_ts := (-1)%Z; w_tape := fun _ => true; w_st := init true |} in
  let w1 := {| w_pass := false; w_ts := 3%Z; w_tape := fun _ => true; w_st := init false |} in
  let R := fun k h => EReq {| r_vec := k; r_hook := h; r_true := 10 * k |} in
  let es := [R 1 None; R 2 None; EUse 1; ESeed ex_seed; R 3 None; R 4 None; ETrain; R 5 (Some 77);
             ESetStep 2%Z; R 6 None; EUse 0; R 7 (Some 78); EUse 1; R 8 None] in
  let res := session_run true {| cur := 0; slots := [w0; w1] |} es in
  map (option_map snd) (snd res) =
    [Some (Ret 10); Some (Ret 20); None; None; Some (Ret 30); Some (Ret 40); None; Some (Ret 77);
     None; Some (Ret 60); None; Some (Ret 70); None; Some (Ret 80)] /\
  map (fun w => (eval_counter (w_st w), predict_counter (w_st w), length (x_data (w_st w))))
      (slots (fst res)) = [(3, 0, 0); (4, 1, 7)] /\
  map (fun w => train_log (w_st w)) (slots (fst res)) = [[]; [(2, 5, 5); (4, 7, 7)]].
Proof. vm_compute. repeat split. Qed.
