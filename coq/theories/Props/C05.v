(* C05 - Each design is evaluated exactly once and stored costs belong to its vector.
   Property theorems only; each is closed by `exact`, followed by Print Assumptions.
   The model is Model/Job.v (its interface is documented at the top of that file):
     env    = signs, objective (call -> Ok costs | Transient | Fatal), constraints, re-roll oracle
     state  = heap of designs, problem.individuals, problem.failed, sync log, objective call log
   All statements hold for every number type T, every order / zero of the feasibility test, every
   roundp / smul (roundp p = rounding to the design's stored precision features["precision"] = iprec), every env (objective, constraint function, fault schedule, re-roll oracle). *)
From Coq Require Import List ZArith Bool QArith Qabs.
From Artap Require Import Base.Ord Base.QInst Model.Job Model.Dominance Proofs.JobProofs.
Import ListNotations.
Local Open Scope nat_scope.

Section C05.
  Variable T : Type.
  Variable ltb : T -> T -> bool.
  Variable zero : T.
  Variable roundp : nat -> T -> T.
  Variable smul : bool -> T -> T.
  Notation evaluate_serial := (evaluate_serial ltb zero roundp smul).
  Notation evaluate_history := (evaluate_history ltb zero roundp smul).
  Notation evaluate_scalar := (evaluate_scalar ltb zero roundp smul).
  Notation sweep := (sweep ltb zero roundp smul).
  Notation reach := (reach T ltb zero roundp smul).

  (* One Algorithm.evaluate that returns: exactly one successful objective call for every design of the
     batch that was EMPTY (repeats and aliasing in the batch included), made for the vector the design
     holds afterwards, whose result is the design's costs, and the design is EVALUATED; no call at all
     for a design that was not EMPTY (evaluated ones in particular) or is not in the batch, and such a
     design is left exactly as it was. *)
  Theorem C05_evaluate_once : forall (e : env T) st batch st',
    evaluate_serial e st batch = (st', Done) ->
    exists cs, s_calls st' = s_calls st ++ cs /\
      forall id i, nth_error (s_heap st) id = Some i ->
        exists i', nth_error (s_heap st') id = Some i' /\
          (istate i = Empty -> In id batch ->
             exists c costs, okc e id cs = [c] /\ e_obj e c = Ok costs /\ c_vec c = ivec i' /\
                             icosts i' = costs /\ istate i' = Evaluated) /\
          (istate i <> Empty \/ ~ In id batch -> i' = i /\ calls_of id cs = []).
  Proof. exact (evaluate_once T ltb zero roundp smul). Qed.

  (* Any number of evaluate calls on any batches (the caller may catch what they raise): a design that
     was evaluated to begin with is never passed to the objective and never changes; every other design
     has either no successful call and is not EVALUATED, or exactly one successful call, and then holds
     that call's vector and result, its signed costs and is EVALUATED. *)
  Theorem C05_evaluate_once_history : forall (e : env T) st0 batches st rs,
    evaluate_history e st0 batches = (st, rs) ->
    exists cs, s_calls st = s_calls st0 ++ cs /\
      forall id i0, nth_error (s_heap st0) id = Some i0 ->
        exists i, nth_error (s_heap st) id = Some i /\
          match istate i0 with
          | Evaluated => i = i0 /\ calls_of id cs = []
          | _ => (okc e id cs = [] /\ istate i <> Evaluated) \/
                 (exists c costs, okc e id cs = [c] /\ e_obj e c = Ok costs /\ c_vec c = ivec i /\
                    icosts i = costs /\ istate i = Evaluated /\
                    isigned i = Some (signed_costs roundp smul (iprec i) (e_signs e) costs (ifeas i)) /\
                    (e_cons e (ivec i) <> [] -> ifeas i = forallb (fun g => ltb g zero) (e_cons e (ivec i))))
          end.
  Proof. exact (evaluate_once_history T ltb zero roundp smul). Qed.

  (* The same over every history that also contains scalar queries and sweeps (`reach`). *)
  Theorem C05_evaluate_once_all_histories : forall (e : env T) st0 st cs id i,
    reach e st0 st cs -> nth_error (s_heap st) id = Some i ->
    (forall i0, nth_error (s_heap st0) id = Some i0 -> istate i0 <> Evaluated) ->
    (okc e id cs = [] /\ istate i <> Evaluated) \/ evaluated_by T ltb zero roundp smul e id cs i.
  Proof. exact (reach_once T ltb zero roundp smul). Qed.

  Theorem C05_evaluated_design_untouched : forall (e : env T) st0 st cs id i0,
    reach e st0 st cs -> nth_error (s_heap st0) id = Some i0 -> istate i0 = Evaluated ->
    nth_error (s_heap st) id = Some i0 /\ calls_of id cs = [].
  Proof. exact (reach_evaluated_untouched T ltb zero roundp smul). Qed.

  (* evaluating the same batch again invokes nothing and changes nothing *)
  Theorem C05_repeated_evaluate_adds_no_call : forall (e : env T) st batch st',
    evaluate_serial e st batch = (st', Done) -> evaluate_serial e st' batch = (st', Done).
  Proof. exact (repeated_evaluate_noop T ltb zero roundp smul). Qed.

  (* stored costs are what the objective returned for the stored vector (also after re-rolls), and
     that call is the design's only successful one *)
  Theorem C05_costs_belong_to_vector : forall (e : env T) st0 st cs id i,
    reach e st0 st cs -> nth_error (s_heap st) id = Some i -> istate i = Evaluated ->
    (forall i0, nth_error (s_heap st0) id = Some i0 -> istate i0 <> Evaluated) ->
    exists c, In c cs /\ c_id c = id /\ c_vec c = ivec i /\ e_obj e c = Ok (icosts i) /\
              (forall c', In c' cs -> c_id c' = id -> ok_b e c' = true -> c' = c).
  Proof. exact (costs_belong_to_vector T ltb zero roundp smul). Qed.

  (* signed costs = sign * round(cost, stored precision) objective by objective (zip semantics), then
     the marker `not feasible`; with at least one constraint, feasible = all(g < 0) for the stored vector *)
  Theorem C05_signed_costs_spec : forall (e : env T) st0 st cs id i,
    reach e st0 st cs -> nth_error (s_heap st) id = Some i -> istate i = Evaluated ->
    (forall i0, nth_error (s_heap st0) id = Some i0 -> istate i0 <> Evaluated) ->
    isigned i = Some (map2 (fun s c => smul s (roundp (iprec i) c)) (e_signs e) (icosts i), negb (ifeas i)) /\
    (e_cons e (ivec i) <> [] -> ifeas i = forallb (fun g => ltb g zero) (e_cons e (ivec i))).
  Proof. exact (signed_costs_spec T ltb zero roundp smul). Qed.

  (* the stored precision is the one the design had at the start (7 for designs created by artap) *)
  Theorem C05_stored_precision_kept : forall (e : env T) st0 st cs id i,
    reach e st0 st cs -> nth_error (s_heap st) id = Some i ->
    iprec i = match nth_error (s_heap st0) id with Some i0 => iprec i0 | None => 7 end.
  Proof. exact (reach_iprec T ltb zero roundp smul). Qed.

  (* composed with C01's marker precedence (Proofs/DominanceProofs.v): whatever the objective values,
     a design satisfying all constraints dominates one violating some *)
  Theorem C05_marker_ranks_feasible_first : forall (cltb : T -> T -> bool) pa pb signs ca cb fa fb ga gb,
    ga <> [] -> forallb (fun g => ltb g zero) ga = true ->
    gb <> [] -> forallb (fun g => ltb g zero) gb = false ->
    let sa := signed_costs roundp smul pa signs ca (feasible_of ltb zero fa ga) in
    let sb := signed_costs roundp smul pb signs cb (feasible_of ltb zero fb gb) in
    pareto_compare cltb (fst sa, Z.b2z (snd sa)) (fst sb, Z.b2z (snd sb)) = 1 /\
    pareto_compare cltb (fst sb, Z.b2z (snd sb)) (fst sa, Z.b2z (snd sa)) = 2.
  Proof. exact (marker_ranks_feasible_first T ltb zero roundp smul). Qed.

  (* SweepAlgorithm: the generator's designs are appended to problem.individuals in order, older
     designs are untouched, every objective call is for one of the new designs; when the sweep returns,
     each new design has exactly one successful call, in the generator's order, the first attempts were
     made with exactly the generator's vectors in order, and all new designs are EVALUATED *)
  Theorem C05_sweep_order : forall (e : env T) st vs st' r,
    sweep e st vs = (st', r) ->
    let n := length (s_heap st) in
    s_pop st' = s_pop st ++ seq n (length vs) /\
    length (s_heap st') = n + length vs /\
    (forall id, id < n -> nth_error (s_heap st') id = nth_error (s_heap st) id) /\
    exists cs, s_calls st' = s_calls st ++ cs /\
      Forall (fun c => n <= c_id c < n + length vs) cs /\
      (r = Done ->
         map (@c_id T) (filter (ok_b e) cs) = seq n (length vs) /\
         map (@c_vec T) (filter (fun c => c_att c =? 0) cs) = vs /\
         forall k, k < length vs -> exists i, nth_error (s_heap st') (n + k) = Some i /\ istate i = Evaluated).
  Proof. exact (sweep_order T ltb zero roundp smul). Qed.

  (* Evaluator.evaluate_scalar(x) when the objective answers: the point x is recorded in
     problem.individuals with its true costs, EVALUATED, synced once; the optimiser receives
     sign_0 * round(cost_0, 7) (the marker if the problem has no objective; a new Individual has precision 7) *)
  Theorem C05_scalar_bridge : forall (e : env T) st x costs,
    let id := length (s_heap st) in
    let c := mkcall (length (s_calls st)) id 0 x in
    e_obj e c = Ok costs ->
    let i' := evaluated_ind T ltb zero roundp smul e 7 false x costs in
    evaluate_scalar e st x =
      ({| s_heap := s_heap st ++ [i']; s_pop := s_pop st ++ [id]; s_failed := s_failed st;
          s_store := s_store st ++ [(id, i')]; s_calls := s_calls st ++ [c] |},
       match map2 (fun s k => smul s (roundp 7 k)) (e_signs e) costs with
       | y :: _ => SVal y
       | [] => SMark (negb (feasible_of ltb zero false (e_cons e x)))
       end).
  Proof. exact (scalar_bridge T ltb zero roundp smul). Qed.

  (* whatever happened inside (re-rolls included): a returned number is sign_0 * round7 of the first
     recorded cost of the design that was recorded for this query, and that cost is the objective's
     value for the recorded vector *)
  Theorem C05_scalar_bridge_general : forall (e : env T) st x st' y,
    evaluate_scalar e st x = (st', SVal y) ->
    let id := length (s_heap st) in
    exists i c cs, s_calls st' = s_calls st ++ cs /\ In c cs /\ s_pop st' = s_pop st ++ [id] /\
      nth_error (s_heap st') id = Some i /\ istate i = Evaluated /\
      c_id c = id /\ c_vec c = ivec i /\ e_obj e c = Ok (icosts i) /\
      exists s0 ss c0 cc, e_signs e = s0 :: ss /\ icosts i = c0 :: cc /\ y = smul s0 (roundp (iprec i) c0) /\ iprec i = 7.
  Proof. exact (scalar_bridge_general T ltb zero roundp smul). Qed.
End C05.

(* "rounded to the stored precision": the rational instance of roundp (round half to even at the p-th
   decimal) moves a value by at most half a unit of the p-th decimal (5e-8 for the default 7) and fixes
   every value with at most p decimals *)
Theorem C05_roundp_q_precision : forall (p : nat) (y : Q), (Qabs (qroundp p y - y) <= (1 # 2) / q_pow10 p)%Q.
Proof. exact qroundp_precision. Qed.

Theorem C05_round7_q_precision : forall y : Q, (Qabs (qround7 y - y) <= 1 # 20000000)%Q.
Proof. exact qround7_precision. Qed.

Theorem C05_roundp_q_fixpoint : forall (p : nat) (k : Z),
  (qroundp p (inject_Z k / q_pow10 p) == inject_Z k / q_pow10 p)%Q.
Proof. exact qroundp_fixpoint. Qed.

Print Assumptions C05_evaluate_once.
Print Assumptions C05_evaluate_once_history.
Print Assumptions C05_evaluate_once_all_histories.
Print Assumptions C05_evaluated_design_untouched.
Print Assumptions C05_repeated_evaluate_adds_no_call.
Print Assumptions C05_costs_belong_to_vector.
Print Assumptions C05_signed_costs_spec.
Print Assumptions C05_marker_ranks_feasible_first.
Print Assumptions C05_sweep_order.
Print Assumptions C05_scalar_bridge.
Print Assumptions C05_scalar_bridge_general.
Print Assumptions C05_round7_q_precision.
Print Assumptions C05_roundp_q_precision.
Print Assumptions C05_roundp_q_fixpoint.
Print Assumptions C05_stored_precision_kept.

(* ---------------------------------------------------------------------------------------------
   non-vacuity: a concrete problem over Q (two objectives: minimise, maximise; one constraint
   g = x0 - 2 < 0; the second objective call fails transiently and the design is re-rolled to [5]) *)
Local Open Scope Q_scope.

Definition exQ_env : env Q :=
  {| e_signs := [false; true];
     e_obj := fun c => if Nat.eqb (c_no c) 1 then Transient
                       else Ok [hd 0 (c_vec c) + (12345678 # 100000000); 7 # 3];
     e_cons := fun v => [hd 0 v - 2];
     e_reroll := fun _ => [5] |}.

Definition exQ_junk : ind Q :=
  {| ivec := [9]; icosts := [1; 1]; isigned := Some ([1; 1], false); istate := Evaluated; ifeas := true; iprec := 7 |}.

Definition exQ_st0 : state Q :=
  {| s_heap := [fresh [1]; exQ_junk; fresh [3]; fresh [0]]; s_pop := []; s_failed := []; s_store := [];
     s_calls := [] |}.

Definition exQ_run := evaluate_serial Qltb 0 qroundp qsmul exQ_env exQ_st0 [0; 1; 2; 0; 2]%nat.

(* the batch [new, evaluated, new, same new again, ...] returns; calls: design 0 once, design 2 twice
   (first attempt fails), none for the evaluated design 1 and for design 3 (not in the batch) *)
Example C05_ex_batch :
  snd exQ_run = Done /\
  map (fun c => (c_id c, c_att c)) (s_calls (fst exQ_run)) = [(0, 0); (2, 0); (2, 1)]%nat /\
  map (@istate Q) (s_heap (fst exQ_run)) = [Evaluated; Evaluated; Evaluated; Empty] /\
  nth_error (s_heap (fst exQ_run)) 1 = Some exQ_junk /\
  map (@ivec Q) (s_failed (fst exQ_run)) = [[3]] /\
  (* the hypotheses of the theorems are met: the run is a reachable history *)
  reach Q Qltb 0 qroundp qsmul exQ_env exQ_st0 (fst exQ_run) (s_calls (fst exQ_run)).
Proof.
  repeat split; try (vm_compute; reflexivity).
  change (s_calls (fst exQ_run)) with ([] ++ s_calls (fst exQ_run)).
  eapply reach_eval with (batch := [0; 1; 2; 0; 2]%nat) (r := snd exQ_run);
    [apply reach_refl | apply surjective_pairing | reflexivity].
Qed.

(* design 0 (x = 1: constraint satisfied): costs are the objective's value for [1], signed costs are
   [round7(1.12345678); -round7(7/3)] with marker False; design 2 was re-rolled to [5] (violates) *)
Example C05_ex_signed :
  match nth_error (s_heap (fst exQ_run)) 0, nth_error (s_heap (fst exQ_run)) 2 with
  | Some a, Some b =>
      ivec a = [1] /\ snd (match isigned a with Some s => s | None => ([], true) end) = false /\
      ivec b = [5] /\ snd (match isigned b with Some s => s | None => ([], false) end) = true /\
      (match isigned a with
       | Some ([s1; s2], _) => s1 == 11234568 # 10000000 /\ s2 == - (23333333 # 10000000)
       | _ => False end) /\
      (match isigned a, isigned b with
       | Some (la, ma), Some (lb, mb) => pareto_compare Qltb (la, Z.b2z ma) (lb, Z.b2z mb) = 1%nat
       | _, _ => False end)
  | _, _ => False
  end.
Proof. vm_compute. repeat split; reflexivity. Qed.

(* scalar bridge on a maximised first objective, and a sweep of three designs (one duplicated) *)
Example C05_ex_scalar_sweep :
  let e := {| e_signs := [true]; e_obj := fun c => Ok [hd 0 (c_vec c) * (1 # 3)]; e_cons := fun _ => [];
              e_reroll := fun _ => [0] |} in
  (match evaluate_scalar Qltb 0 qroundp qsmul e init_state [2] with
   | (st, SVal y) => y == - (6666667 # 10000000) /\ s_pop st = [0%nat] /\
                     map (@icosts Q) (s_heap st) = [[2 * (1 # 3)]]
   | _ => False end) /\
  (match sweep Qltb 0 qroundp qsmul e init_state [[1]; [4]; [1]] with
   | (st, r) => r = Done /\ map (@c_vec Q) (s_calls st) = [[1]; [4]; [1]] /\ s_pop st = [0; 1; 2]%nat
   end).
Proof. vm_compute. repeat split; reflexivity. Qed.
